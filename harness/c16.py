"""C16 — Scanner output is deterministic and independent of irrelevant order.

Proof: lean/GIVerif/Props/C16.lean over the model lean/GIVerif/Model/Order.lean (sorted
emission is a function of the set of siblings; get_main_position is invariant under every
iteration order of the position set; typedef/struct order; block dictionary; the order of
_parsed_includes -- hence type resolution -- is invariant under every iteration order of the
include sets; the introspectable fixed point is invariant under the walk order).

Tie: (1) translators/gen_order.py re-reads every sorted()/for/set iteration of the sources;
(2) correspondence of the model with the REAL code: str ordering, sorted(set(..)), Include
ordering, Node.get_main_position, the writer's sibling order on live namespaces, the tag
namespace (Transformer.parse), parse_comment_blocks, _parse_include / type resolution, the
fixed-point loop of IntrospectablePass.validate on namespaces in declared, shuffled and
reversed declaration order (C16_fixpoint_walk_order: which nodes are introspectable="0" does
not depend on the order of the walk).

What a theorem cannot reach — determinism ACROSS interpreter runs, hash seeds and cache
histories — is VALIDATED metamorphically on the real pipeline: the same generated input is
scanned in fresh subprocesses under several PYTHONHASHSEED values, with permuted comment
blocks, permuted source-file order of the blocks, both typedef/struct orders, shuffled
top-level declarations, and with dependency GIRs parsed afresh vs loaded from a warm real
CacheStore (also a cache written by a process with another hash seed); the emitted GIR is
compared byte for byte.  Independently an oracle written from the statement checks on every
output that sibling order is a function of names and kinds.

Cache HISTORIES (relcache): the cache a scan finds was filled by earlier scans.  Every run builds
trees holding 2-3 different builds of one dependency GIR (same file name) in directories whose
relative paths from the working directory differ only in leading '.' and '/' characters
(Dep-1.0.gir, ./Dep-1.0.gir, ../Dep-1.0.gir, ../../Dep-1.0.gir, s/.., ../s/..) and which carry the
same st_mtime_ns; the dependency is named by --include-uninstalled spellings or found through a
relative include directory; a random history of scans (which file is cached first varies) runs
from that directory with the real CacheStore and every scan must give the bytes of the cold scan
of the same configuration.  A second family (gen_relcwd) runs the scans of one history from SEVERAL
working directories: one relative spelling names a different build of the dependency from each
of them (two projects built one after the other; repaired by /repo 382125e, which keys the cache
entries on the absolute path).  Hand-picked histories in corpus/C16/relcache/*.json run first.

Whole-declaration shuffles: judged byte for byte when every typedef name is still declared before
its uses ('decls'; struct tags may be used before their definition, the typedefs of one tag keep
their order).  An order that uses a typedef name before its typedef ('decls-any', e.g. an alias
before the alias it points to) is a symbol stream no C front end delivers -- scannerlexer.l
returns an identifier as TYPEDEF_NAME only after its typedef, an earlier use is a syntax error
and the declaration is dropped -- so the statement oracle judges only the sibling order there
and counts content differences as outside the quantifier.  Those orders are still covered on
the proof side: the model of the fixed-point loop is compared with the real pass on exactly
such orders (c16.fixpoint), so a loop that stops too early breaks the tie.
"""
import concurrent.futures
import copy
import hashlib
import itertools
import json
import os
import re
import subprocess
import sys
import traceback
from xml.etree import ElementTree as ET

from core import REPO, Counter, VERIF, PYTHON, HarnessError

import scanpipe
from scanpipe import T, P, NS, q

HERE = os.path.dirname(os.path.abspath(__file__))

# Failing inputs of the UNCHANGED tree that are reported as findings (see the final report /
# known_findings.json once the integrator moves them there).  Key = exact failing class.
# (include-set-order/ambiguous-ctype was repaired by /repo 5d8d03e: inputs whose C types can be
# resolved in two transitively included namespaces are judged byte for byte like all others;
# corpus/C16/ambiguous_dep.json is the regression case.)
PENDING_FINDINGS = {}

GIR_HEAD = ('<?xml version="1.0"?>\n<repository version="1.2" xmlns="http://www.gtk.org/introspection/core/1.0" '
            'xmlns:c="http://www.gtk.org/introspection/c/1.0" xmlns:glib="http://www.gtk.org/introspection/glib/1.0">\n')

BASE_GIRS = {
    'GLib-2.0.gir': GIR_HEAD + '''  <package name="glib-2.0"/>
  <namespace name="GLib" version="2.0" shared-library="" c:identifier-prefixes="G" c:symbol-prefixes="g,glib">
    <alias name="Quark" c:type="GQuark"><type name="guint32" c:type="guint32"/></alias>
    <callback name="DestroyNotify" c:type="GDestroyNotify">
      <return-value transfer-ownership="none"><type name="none" c:type="void"/></return-value>
      <parameters><parameter name="data" transfer-ownership="none" nullable="1"><type name="gpointer" c:type="gpointer"/></parameter></parameters>
    </callback>
    <record name="Variant" c:type="GVariant" glib:type-name="GVariant" glib:get-type="intern" c:symbol-prefix="variant"/>
    <record name="Error" c:type="GError" glib:type-name="GError" glib:get-type="g_error_get_type" c:symbol-prefix="error"/>
  </namespace>
</repository>
''',
    'GObject-2.0.gir': GIR_HEAD + '''  <include name="GLib" version="2.0"/>
  <package name="gobject-2.0"/>
  <namespace name="GObject" version="2.0" shared-library="" c:identifier-prefixes="G" c:symbol-prefixes="g">
    <class name="Object" c:symbol-prefix="object" c:type="GObject" glib:type-name="GObject" glib:get-type="g_object_get_type" glib:type-struct="ObjectClass"/>
    <record name="ObjectClass" c:type="GObjectClass" glib:is-gtype-struct-for="Object"/>
    <class name="InitiallyUnowned" parent="Object" c:symbol-prefix="initially_unowned" c:type="GInitiallyUnowned" glib:type-name="GInitiallyUnowned" glib:get-type="g_initially_unowned_get_type"/>
    <interface name="TypePlugin" c:symbol-prefix="type_plugin" c:type="GTypePlugin" glib:type-name="GTypePlugin" glib:get-type="g_type_plugin_get_type"/>
    <record name="TypeInterface" c:type="GTypeInterface"/>
    <record name="Value" c:type="GValue" glib:type-name="GValue" glib:get-type="g_value_get_type" c:symbol-prefix="value"/>
  </namespace>
</repository>
''',
    'Gio-2.0.gir': GIR_HEAD + '''  <include name="GObject" version="2.0"/>
  <include name="GLib" version="2.0"/>
  <package name="gio-2.0"/>
  <namespace name="Gio" version="2.0" shared-library="" c:identifier-prefixes="G" c:symbol-prefixes="g">
    <interface name="Action" c:symbol-prefix="action" c:type="GAction" glib:type-name="GAction" glib:get-type="g_action_get_type"/>
    <interface name="Initable" c:symbol-prefix="initable" c:type="GInitable" glib:type-name="GInitable" glib:get-type="g_initable_get_type"/>
    <interface name="Icon" c:symbol-prefix="icon" c:type="GIcon" glib:type-name="GIcon" glib:get-type="g_icon_get_type"/>
    <class name="Application" parent="GObject.Object" c:symbol-prefix="application" c:type="GApplication" glib:type-name="GApplication" glib:get-type="g_application_get_type"/>
  </namespace>
</repository>
''',
}

WORDS = ['Alpha', 'Beta', 'Gamma', 'Delta', 'Eps', 'Zeta', 'Eta', 'Theta', 'Iota', 'Kappa', 'Lambda', 'Mu', 'Nu', 'Xi',
         'Omicron', 'Pi', 'Rho', 'Sigma', 'Tau', 'Upsilon', 'Phi', 'Chi', 'Psi', 'Omega', 'Apple', 'Box', 'Cat', 'Dog',
         'Egg', 'Fig', 'Gnu', 'Hat', 'Ink', 'Jar', 'Kit', 'Log', 'Map', 'Net', 'Owl', 'Pen', 'Quiz', 'Rat', 'Sun',
         'Tip', 'Urn', 'Van', 'Web', 'Yak', 'Zip', 'a1', 'B2', 'Zz', 'aa', 'Ab']
FILES = ['/src/a.h', '/src/b.h', '/src/sub/c.h', '/src/d.h', '/src/foo.h', '/src/sub/deep/e.h', '/other/x.h']
# headers with ONE file name in several directories (same depth, different depths, outside the source
# top directory): positions of one node that agree in base name + line (+ column) and differ only in
# the directory must still be told apart by the choice of the main position
TIE_FILES = ['/src/core/types.h', '/src/ui/types.h', '/src/types.h', '/src/core/ui/types.h', '/other/types.h',
             '/src/ui/core/types.h', '/other/core/types.h']
CFILES = ['/src/a.c', '/src/b.c', '/src/sub/c.c', '/src/foo.c', '/src/z.c']
FUND = ['gint', 'guint', 'gboolean', 'gchararray', 'gdouble', 'gint64', 'GObject', 'GVariant']


def snake(w):
    out = []
    for i, ch in enumerate(w):
        if ch.isupper() and i > 0 and not w[i - 1].isupper():
            out.append('_')
        out.append(ch.lower())
    return ''.join(out)


# free text that flows into the XML (doc text, constant values, package / c:include names):
# CR, LF, TAB, both quotes, & < >, non-ASCII, a character reference look-alike
SPICE = ['&', '<b>bold</b>', '"dq"', "'sq'", 'é中ß', 'tab\there', 'cr\rhere', '&amp;', '&#10;', ']]>', ' nbsp', '%s %d']

# a dependency GIR holding one node of every kind GIRParser builds (and the kinds it skips in
# types-only mode: constant, function, function-macro), with the attributes the passes consult
# on a node of another namespace: introspectable / skip, disguised / pointer / foreign / opaque,
# glib:get-type, glib:type-struct, abstract / final, glib:fundamental with ref / unref functions,
# glib:error-domain, parents and prerequisites, callback parameters with closure / destroy.
RICH_GIR = GIR_HEAD + '''  <include name="GObject" version="2.0"/>
  <package name="rich-1.0"/>
  <c:include name="rich/rich.h"/>
  <namespace name="Rich" version="1.0" shared-library="librich.so.1" c:identifier-prefixes="Rich" c:symbol-prefixes="rich">
    <alias name="Count" c:type="RichCount"><type name="guint" c:type="guint"/></alias>
    <alias name="RecAlias" c:type="RichRecAlias"><type name="Rec" c:type="RichRec"/></alias>
    <alias name="HiddenAlias" c:type="RichHiddenAlias" introspectable="0"><type name="gpointer" c:type="gpointer"/></alias>
    <alias name="FuncAlias" c:type="RichFuncAlias"><type name="Func" c:type="RichFunc"/></alias>
    <bitfield name="Flags" c:type="RichFlags" glib:type-name="RichFlags" glib:get-type="rich_flags_get_type">
      <member name="a" value="1" c:identifier="RICH_FLAGS_A" glib:nick="a"/>
      <member name="b" value="2" c:identifier="RICH_FLAGS_B" glib:nick="b"/>
    </bitfield>
    <bitfield name="PlainFlags" c:type="RichPlainFlags">
      <member name="x" value="4" c:identifier="RICH_PLAIN_FLAGS_X"/>
    </bitfield>
    <enumeration name="Mode" c:type="RichMode" glib:type-name="RichMode" glib:get-type="rich_mode_get_type">
      <member name="one" value="0" c:identifier="RICH_MODE_ONE" glib:nick="one"/>
      <function name="to_string" c:identifier="rich_mode_to_string">
        <return-value transfer-ownership="none"><type name="utf8" c:type="const char*"/></return-value>
        <parameters><parameter name="m" transfer-ownership="none"><type name="Mode" c:type="RichMode"/></parameter></parameters>
      </function>
    </enumeration>
    <enumeration name="Error" c:type="RichError" glib:error-domain="rich-error-quark">
      <member name="failed" value="0" c:identifier="RICH_ERROR_FAILED"/>
    </enumeration>
    <callback name="Func" c:type="RichFunc">
      <return-value transfer-ownership="none"><type name="none" c:type="void"/></return-value>
      <parameters>
        <parameter name="obj" transfer-ownership="none"><type name="Object" c:type="RichObject*"/></parameter>
        <parameter name="user_data" transfer-ownership="none" nullable="1" allow-none="1" closure="1"><type name="gpointer" c:type="gpointer"/></parameter>
      </parameters>
    </callback>
    <callback name="NoDataFunc" c:type="RichNoDataFunc">
      <return-value transfer-ownership="none"><type name="gboolean" c:type="gboolean"/></return-value>
      <parameters>
        <parameter name="n" transfer-ownership="none"><type name="gint" c:type="int"/></parameter>
      </parameters>
    </callback>
    <callback name="HiddenFunc" c:type="RichHiddenFunc" introspectable="0">
      <return-value transfer-ownership="none"><type name="none" c:type="void"/></return-value>
      <parameters>
        <parameter name="fmt" transfer-ownership="none"><type name="utf8" c:type="const char*"/></parameter>
        <parameter name="..." transfer-ownership="none"><varargs/></parameter>
      </parameters>
    </callback>
    <callback name="ThrowingFunc" c:type="RichThrowingFunc" throws="1">
      <return-value transfer-ownership="full"><type name="Rec" c:type="RichRec*"/></return-value>
    </callback>
    <class name="Object" c:symbol-prefix="object" c:type="RichObject" parent="GObject.Object" abstract="1" glib:type-name="RichObject" glib:get-type="rich_object_get_type" glib:type-struct="ObjectClass">
      <implements name="Iface"/>
      <constructor name="new" c:identifier="rich_object_new">
        <return-value transfer-ownership="full"><type name="Object" c:type="RichObject*"/></return-value>
      </constructor>
      <virtual-method name="changed" invoker="changed">
        <return-value transfer-ownership="none"><type name="none" c:type="void"/></return-value>
        <parameters><instance-parameter name="self" transfer-ownership="none"><type name="Object" c:type="RichObject*"/></instance-parameter></parameters>
      </virtual-method>
      <method name="changed" c:identifier="rich_object_changed">
        <return-value transfer-ownership="none"><type name="none" c:type="void"/></return-value>
        <parameters><instance-parameter name="self" transfer-ownership="none"><type name="Object" c:type="RichObject*"/></instance-parameter></parameters>
      </method>
      <property name="mode" writable="1" transfer-ownership="none"><type name="Mode"/></property>
      <field name="parent_instance"><type name="GObject.Object" c:type="GObject"/></field>
      <field name="priv" private="1" readable="0"><type name="gpointer" c:type="gpointer"/></field>
      <glib:signal name="changed" when="last">
        <return-value transfer-ownership="none"><type name="none" c:type="void"/></return-value>
      </glib:signal>
    </class>
    <record name="ObjectClass" c:type="RichObjectClass" glib:is-gtype-struct-for="Object">
      <field name="parent_class"><type name="GObject.ObjectClass" c:type="GObjectClass"/></field>
      <field name="changed">
        <callback name="changed">
          <return-value transfer-ownership="none"><type name="none" c:type="void"/></return-value>
          <parameters><parameter name="self" transfer-ownership="none"><type name="Object" c:type="RichObject*"/></parameter></parameters>
        </callback>
      </field>
    </record>
    <class name="Final" c:symbol-prefix="final" c:type="RichFinal" parent="Object" final="1" glib:type-name="RichFinal" glib:get-type="rich_final_get_type"/>
    <class name="Fundamental" c:symbol-prefix="fundamental" c:type="RichFundamental" glib:type-name="RichFundamental" glib:get-type="rich_fundamental_get_type" glib:fundamental="1" glib:ref-func="rich_fundamental_ref" glib:unref-func="rich_fundamental_unref" glib:set-value-func="rich_value_set_fundamental" glib:get-value-func="rich_value_get_fundamental"/>
    <class name="HiddenObject" c:symbol-prefix="hidden_object" c:type="RichHiddenObject" parent="GObject.Object" introspectable="0" glib:type-name="RichHiddenObject" glib:get-type="rich_hidden_object_get_type"/>
    <interface name="Iface" c:symbol-prefix="iface" c:type="RichIface" glib:type-name="RichIface" glib:get-type="rich_iface_get_type" glib:type-struct="IfaceInterface">
      <prerequisite name="GObject.Object"/>
    </interface>
    <record name="IfaceInterface" c:type="RichIfaceInterface" glib:is-gtype-struct-for="Iface">
      <field name="g_iface"><type name="GObject.TypeInterface" c:type="GTypeInterface"/></field>
    </record>
    <record name="Rec" c:type="RichRec">
      <field name="x" writable="1"><type name="gint" c:type="int"/></field>
      <field name="cb"><type name="Func" c:type="RichFunc"/></field>
      <union name="u" c:type="u"><field name="i" writable="1"><type name="gint" c:type="int"/></field></union>
      <method name="free" c:identifier="rich_rec_free">
        <return-value transfer-ownership="none"><type name="none" c:type="void"/></return-value>
        <parameters><instance-parameter name="self" transfer-ownership="full"><type name="Rec" c:type="RichRec*"/></instance-parameter></parameters>
      </method>
    </record>
    <record name="Boxed" c:type="RichBoxed" glib:type-name="RichBoxed" glib:get-type="rich_boxed_get_type" c:symbol-prefix="boxed" copy-function="rich_boxed_copy" free-function="rich_boxed_free"/>
    <record name="Opaque" c:type="RichOpaque" opaque="1"/>
    <record name="Disguised" c:type="RichDisguised" disguised="1" opaque="1"/>
    <record name="Pointer" c:type="RichPointer" pointer="1"/>
    <record name="Foreign" c:type="RichForeign" foreign="1"/>
    <record name="Skipped" c:type="RichSkipped" skip="1" introspectable="0"/>
    <union name="Value" c:type="RichValue">
      <field name="i" writable="1"><type name="gint" c:type="int"/></field>
      <field name="d" writable="1"><type name="gdouble" c:type="double"/></field>
    </union>
    <union name="BoxedUnion" c:type="RichBoxedUnion" glib:type-name="RichBoxedUnion" glib:get-type="rich_boxed_union_get_type" c:symbol-prefix="boxed_union"/>
    <glib:boxed glib:name="Handle" c:symbol-prefix="handle" glib:type-name="RichHandle" glib:get-type="rich_handle_get_type"/>
    <constant name="MAX" value="42" c:type="RICH_MAX"><type name="gint" c:type="gint"/></constant>
    <function name="init" c:identifier="rich_init">
      <return-value transfer-ownership="none"><type name="none" c:type="void"/></return-value>
    </function>
    <function-macro name="CHECK" c:identifier="RICH_CHECK" introspectable="0">
      <parameters><parameter name="x"/></parameters>
    </function-macro>
    <docsection name="rich"><doc xml:space="preserve">Text &amp; more.</doc></docsection>
  </namespace>
</repository>
'''

# how the scanned namespace uses the nodes of RICH_GIR: (suffix, C type, by value?)
RICH_USES = [('count', 'RichCount', True), ('rec_alias', 'RichRecAlias', False), ('hidden_alias', 'RichHiddenAlias', True),
             ('flags', 'RichFlags', True), ('plain_flags', 'RichPlainFlags', True), ('mode', 'RichMode', True),
             ('error', 'RichError', True), ('object', 'RichObject', False), ('final', 'RichFinal', False),
             ('fundamental', 'RichFundamental', False), ('hidden_object', 'RichHiddenObject', False),
             ('iface', 'RichIface', False), ('rec', 'RichRec', False), ('boxed', 'RichBoxed', False),
             ('opaque', 'RichOpaque', False), ('disguised', 'RichDisguised', True), ('pointer', 'RichPointer', True),
             ('foreign', 'RichForeign', False), ('skipped', 'RichSkipped', False), ('value', 'RichValue', False),
             ('boxed_union', 'RichBoxedUnion', False), ('handle', 'RichHandle', False),
             ('object_class', 'RichObjectClass', False)]
RICH_CALLBACKS = ['RichFunc', 'RichNoDataFunc', 'RichHiddenFunc', 'RichThrowingFunc', 'RichFuncAlias']


# ---------------------------------------------------------------------------------------------
# declare-before-use: which declaration orders a C front end can deliver
# ---------------------------------------------------------------------------------------------
def type_refs(t, out):
    """typedef names mentioned by a type expression"""
    if not isinstance(t, dict):
        return
    k = t.get('k')
    if k == 'typedef':
        out.add(t['n'])
    elif k == 'ptr':
        type_refs(t.get('to'), out)
    elif k == 'array':
        type_refs(t.get('of'), out)
    elif k == 'func':
        type_refs(t.get('ret'), out)
        for p in t.get('params', []):
            type_refs(p.get('type'), out)
    elif k in ('struct', 'union'):
        for f in t.get('fields', []):
            type_refs(f.get('type'), out)


def decl_refs(d):
    out = set()
    if d['d'] == 'function':
        type_refs(d.get('ret'), out)
        for p in d.get('params', []):
            type_refs(p.get('type'), out)
    elif d['d'] in ('struct', 'union'):
        for f in d.get('fields', []):
            type_refs(f.get('type'), out)
    else:
        type_refs(d.get('type'), out)
    return out


def decl_prereqs(decls, tags):
    """index -> indices that must come earlier: the typedef that declares a name precedes every use
    of the name (a C lexer delivers an identifier as a type name only after its typedef: an
    earlier use is a syntax error and the declaration never reaches the scanner); struct TAGS
    may be used before they are defined; the typedefs of one tag, and its struct symbols, keep
    their relative order (the first typedef is the primary record by design)."""
    first = {}
    for i, d in enumerate(decls):
        if d['d'] == 'typedef':
            first.setdefault(d['name'], i)
    pre = {i: set() for i in range(len(decls))}
    for i, d in enumerate(decls):
        for n in decl_refs(d):
            j = first.get(n)
            if j is not None and j != i:
                pre[i].add(j)
    for info in tags.values():
        for grp in (info.get('typedefs', []), info.get('structs', [])):
            g = sorted(grp)
            for a, b in zip(g, g[1:]):
                pre[b].add(a)
    return pre


def use_before_declaration(decls):
    """names that are used as a type before the typedef declaring them (declared in `decls`)"""
    first = {}
    for i, d in enumerate(decls):
        if d['d'] == 'typedef':
            first.setdefault(d['name'], i)
    return sorted(set(n for i, d in enumerate(decls) for n in decl_refs(d) if n in first and first[n] > i))


def linear_extension(decls, tags, pick):
    """an order of range(len(decls)) that respects decl_prereqs; `pick(ready)` chooses the next
    index.  None when the constraints are cyclic."""
    pre = decl_prereqs(decls, tags)
    placed = set()
    remaining = list(range(len(decls)))
    order = []
    while remaining:
        ready = [i for i in remaining if pre[i] <= placed]
        if not ready:
            return None
        i = pick(ready)
        order.append(i)
        placed.add(i)
        remaining.remove(i)
    return order


def restore_groups(order, tags):
    """`order`: a list of declaration indices.  Puts the typedefs of every tag, and its struct
    symbols, back into their original relative order (at the places the group occupies)."""
    order = list(order)
    for info in tags.values():
        for grp in (info.get('typedefs', []), info.get('structs', [])):
            if len(grp) > 1:
                slots = sorted(order.index(i) for i in grp)
                for s_, i in zip(slots, sorted(grp)):
                    order[s_] = i
    return order


def reorder(inp, order):
    """apply a declaration order (list of old indices) to an input, re-indexing the tag table"""
    new_of = {old: new for new, old in enumerate(order)}
    inp['decls'] = [inp['decls'][i] for i in order]
    for info in inp['tags'].values():
        for key in ('typedefs', 'structs'):
            info[key] = [new_of[i] for i in info.get(key, [])]
    return inp


# ---------------------------------------------------------------------------------------------
# input generator: an abstract input (JSON) that `materialise` turns into a scanpipe cfg
# ---------------------------------------------------------------------------------------------
class Gen(object):
    def __init__(self, rng):
        self.rng = rng
        self.decls = []
        self.comments = []
        self.dump = []
        self.words = list(WORDS)
        rng.shuffle(self.words)
        self.lines = {}
        self.tags = {}         # tag -> {'typedefs': [decl idx], 'structs': [decl idx]}
        self.deps = {}
        self.includes = []
        self.ambiguous = []
        self.features = set()

    def word(self):
        return self.words.pop() if self.words else 'W%d' % self.rng.randint(0, 10 ** 6)

    def pos(self, files=FILES):
        f = self.rng.choice(files)
        self.lines[f] = self.lines.get(f, 0) + self.rng.randint(1, 9)
        return f, self.lines[f]

    def add(self, d, f=None, line=None):
        if line is not None:
            pass
        elif f is None:
            f, line = self.pos()
        else:
            self.lines[f] = self.lines.get(f, 0) + self.rng.randint(1, 9)
            line = self.lines[f]
        d['file'] = f
        d['line'] = line
        self.decls.append(d)
        return len(self.decls) - 1

    def comment(self, ident, body, params=(), ret=None, ann=''):
        f, line = self.pos(CFILES)
        lines = ['/**', ' * %s%s%s' % (ident, '' if ident.startswith('SECTION:') else ':', (' ' + ann) if ann else '')]
        for p, txt in params:
            lines.append(' * @%s: %s' % (p, txt))
        lines.append(' *')
        lines.append(' * %s' % self.spice(body))
        if self.rng.random() < 0.15:
            lines.append(' *')
            lines.append(' * Second paragraph: %s' % self.spice('more text.', 0.8))
        if ret:
            lines.append(' *')
            lines.append(' * Returns: %s' % ret)
        lines.append(' */')
        self.comments.append(['\n'.join(lines), f, line])

    def spice(self, text, p=0.25):
        """free text with the characters that need care on the way into XML"""
        if self.rng.random() >= p:
            return text
        self.features.add('text:special-chars')
        return '%s %s' % (text, ' '.join(self.rng.sample(SPICE, self.rng.randint(1, 4))))

    def fields(self):
        rng = self.rng
        out = []
        for i in range(rng.choice([0, 1, 2, 3, 5])):
            t = rng.choice([T('int'), T('double'), P(T('char')), T('unsigned int'), P(T('void'))])
            out.append({'name': rng.choice(['x', 'y', 'len', 'data', 'flags', 'priv', 'next']) + str(i), 'type': t})
        return out

    def add_compound(self):
        rng = self.rng
        w = self.word()
        ctype = 'Foo' + w
        tag = '_' + ctype
        kind = 'union' if rng.random() < 0.15 else 'struct'
        shape = rng.choice(['td-st', 'td-st', 'td-st', 'st-td', 'st-td', 'td-only', 'st-only', 'anon', 'two-td',
                            'multi-pos', 'multi-pos', 'multi-pos-tie'])
        if getattr(self, 'force_tie', 0) > 0:
            self.force_tie -= 1
            shape = 'multi-pos-tie'
        self.features.add('compound:' + shape)
        info = {'typedefs': [], 'structs': [], 'shape': shape}
        fields = self.fields()
        if shape == 'anon':
            self.add({'d': 'typedef', 'name': ctype, 'type': {'k': kind, 'n': None, 'fields': fields}})
        else:
            seq = {'td-st': ['td', 'st'], 'st-td': ['st', 'td'], 'td-only': ['td'], 'st-only': ['st'],
                   'two-td': rng.choice([['td', 'td2', 'st'], ['td', 'st', 'td2'], ['st', 'td', 'td2']]),
                   'multi-pos': None, 'multi-pos-tie': None}[shape]
            tie_line = None
            if shape == 'multi-pos-tie':
                # the struct tag is seen in headers of the SAME file name in different directories, on
                # the SAME line (core/types.h:42 forward declaration, ui/types.h:42 definition): the
                # positions differ in the directory only
                self.lines['types.h'] = self.lines.get('types.h', 0) + rng.randint(1, 9)
                tie_line = self.lines['types.h']
                extra = rng.randint(1, 3)
                seq = ['td'] + ['st'] + ['st0'] * extra
                rng.shuffle(seq)
                tie_files = rng.sample(TIE_FILES, len(seq))
                # sometimes the typedef sits elsewhere / one struct symbol is off by a line
                tie_lines = [tie_line] * len(seq)
                if rng.random() < 0.25:
                    tie_lines[rng.randrange(len(seq))] += 1
            if shape == 'multi-pos':
                # the struct tag is seen in several headers (the risk d6b0d4f repaired): one
                # definition with the fields + further field-less struct symbols of the same tag
                extra = rng.randint(2, 4)
                seq = ['td'] + ['st'] + ['st0'] * extra
                rng.shuffle(seq)
            used_files = []
            for n_, s in enumerate(seq):
                f = rng.choice([x for x in FILES if x not in used_files] or FILES)
                used_files.append(f)
                ln = None
                if tie_line is not None:
                    f, ln = tie_files[n_], tie_lines[n_]
                if s == 'td':
                    info['typedefs'].append(self.add({'d': 'typedef', 'name': ctype, 'type': {'k': kind, 'n': tag}}, f, ln))
                elif s == 'td2':
                    info['typedefs'].append(self.add({'d': 'typedef', 'name': ctype + 'Alt',
                                                      'type': {'k': kind, 'n': tag}}, f, ln))
                elif s == 'st':
                    info['structs'].append(self.add({'d': kind, 'name': tag, 'fields': fields}, f, ln))
                else:
                    info['structs'].append(self.add({'d': kind, 'name': tag, 'fields': []}, f, ln))
            self.tags[tag] = info
        if shape == 'st-only':
            return None
        sym = 'foo_' + snake(w)
        # methods / constructors / functions in a shuffled order
        fns = []
        for i in range(rng.choice([0, 1, 2, 4, 7])):
            nm = rng.choice(['get', 'set', 'do', 'has', 'to', 'from', 'is']) + '_' + rng.choice(['x', 'y', 'name', 'z', 'a', 'B'.lower()]) + str(i)
            fns.append({'d': 'function', 'name': '%s_%s' % (sym, nm), 'ret': T('int'),
                        'params': [{'name': 'self', 'type': P(T(ctype))}, {'name': 'v', 'type': T('int')}]})
        # a record / union registered as a boxed type (the dump knows it): only then do `*_new*`
        # functions become its constructors
        boxed = shape != 'anon' and rng.random() < 0.35
        for i in range(rng.choice([2, 3]) if boxed else rng.choice([0, 1, 2])):
            fns.append({'d': 'function', 'name': '%s_new%s' % (sym, '' if i == 0 else '_with_%d' % i),
                        'ret': P(T(ctype)), 'params': [] if i == 0 else [{'name': 'n', 'type': T('int')}]})
        if boxed:
            fns.append({'d': 'function', 'name': sym + '_get_type', 'ret': T('GType'), 'params': []})
            self.dump.append({'tag': 'boxed', 'name': ctype, 'get_type': sym + '_get_type'})
            self.features.add('registered:boxed-%s' % kind)
        for i in range(rng.choice([0, 1, 2])):
            fns.append({'d': 'function', 'name': '%s_static%d' % (sym, i), 'ret': T('void'),
                        'params': [{'name': 'n', 'type': T('int')}]})
        rng.shuffle(fns)
        for fn in fns:
            self.add(fn)
            if rng.random() < 0.5:
                ps = [(p['name'], rng.choice(['a value', '(in): a value', '(nullable): something'])
                       if p['name'] != 'self' else 'the object') for p in fn['params']]
                self.comment(fn['name'], 'Does %s.' % fn['name'], ps,
                             ret=rng.choice([None, 'a number', '(transfer full): new'])
                             if fn['ret'].get('k') != 'void' else None)
        if rng.random() < 0.5:
            self.comment(ctype, 'The %s structure.' % ctype)
        return ctype

    def add_misc(self):
        rng = self.rng
        for _ in range(rng.choice([0, 1, 2, 3])):
            w = self.word()
            members = [{'name': 'FOO_%s_%s' % (snake(w).upper(), m), 'value': i}
                       for i, m in enumerate(rng.sample(['ONE', 'TWO', 'RED', 'BLUE', 'A', 'Z', 'LAST'], rng.randint(1, 5)))]
            self.add({'d': 'typedef', 'name': 'Foo' + w,
                      'type': {'k': 'enum', 'n': None, 'members': members, 'bitfield': rng.random() < 0.3}})
            self.features.add('enum')
        for _ in range(rng.choice([0, 1, 2, 4])):
            self.add({'d': 'const', 'name': 'FOO_%s' % snake(self.word()).upper(), 'int': rng.randint(-5, 500)})
        for _ in range(rng.choice([0, 0, 1, 2])):
            self.add({'d': 'const', 'name': 'FOO_%s_STR' % snake(self.word()).upper(),
                      'string': self.spice('text', 0.7) + rng.choice(['', '\n', '\r\n', '\t'])})
            self.features.add('const:string')
        for _ in range(rng.choice([0, 1, 2, 3])):
            self.add({'d': 'typedef', 'name': 'Foo' + self.word(), 'type': rng.choice([T('int'), T('unsigned int'), P(T('char'))])})
            self.features.add('alias')
        for _ in range(rng.choice([0, 1, 2])):
            self.add({'d': 'typedef', 'name': 'Foo' + self.word() + 'Func',
                      'type': {'k': 'ptr', 'to': {'k': 'func', 'ret': T('void'),
                                                  'params': [{'name': 'data', 'type': P(T('void'))}]}}})
        for _ in range(rng.choice([0, 1, 3, 6])):
            nm = 'foo_' + snake(self.word())
            self.add({'d': 'function', 'name': nm, 'ret': T('int'), 'params': [{'name': 'a', 'type': T('int')}]})
            if rng.random() < 0.5:
                self.comment(nm, 'Plain function.', [('a', 'number')], ret='result')
        if rng.random() < 0.4:
            self.comment('SECTION:' + snake(self.word()), 'A section.')
            self.features.add('section')

    def add_registered(self):
        """types known through the runtime dump whose children the writer sorts, with SEVERAL children
        of each sorted kind, declared in an order that is not the order of their names: GType-registered
        enumerations and flags with paired static functions (`_pair_static_method` appends them in the
        order the C functions are met), a boxed type without a C structure (<glib:boxed>) with
        constructors / methods / static functions."""
        rng = self.rng
        helpers = ['to_string', 'from_string', 'all', 'zero', 'b1', 'a_first', 'Z2'.lower(), 'get_nick', 'mask']
        for flags in rng.sample([False, True, rng.random() < 0.5], rng.choice([0, 1, 2, 2, 3])):
            w = self.word()
            ctype = 'Foo' + w + ('Flags' if flags else 'Mode')
            sym = 'foo_' + snake(w) + ('_flags' if flags else '_mode')
            up = sym.upper()
            names = rng.sample(['READ', 'WRITE', 'EXEC', 'A', 'Z'], rng.randint(1, 4))
            members = [{'name': '%s_%s' % (up, n), 'value': (1 << i) if flags else i} for i, n in enumerate(names)]
            f0 = rng.choice(FILES)
            self.add({'d': 'typedef', 'name': ctype, 'type': {'k': 'enum', 'n': None, 'members': members, 'bitfield': flags}}, f0)
            self.add({'d': 'function', 'name': sym + '_get_type', 'ret': T('GType'), 'params': []}, f0)
            hs = rng.sample(helpers, rng.choice([2, 2, 3, 4, 6]))
            for h in hs:                      # in sample order (not name order), over several headers
                if h.startswith(('to_', 'get_')):
                    fn = {'d': 'function', 'name': '%s_%s' % (sym, h), 'ret': T('int'), 'params': [{'name': 'v', 'type': T(ctype)}]}
                elif h == 'from_string':
                    fn = {'d': 'function', 'name': '%s_%s' % (sym, h), 'ret': T(ctype), 'params': [{'name': 'id', 'type': T('int')}]}
                else:
                    fn = {'d': 'function', 'name': '%s_%s' % (sym, h), 'ret': T(ctype), 'params': []}
                self.add(fn, rng.choice([f0, rng.choice(FILES)]))
                if rng.random() < 0.3:
                    self.comment(fn['name'], 'Helper %s.' % h, [(p['name'], 'a value') for p in fn['params']], ret='a value')
            self.dump.append({'tag': 'flags' if flags else 'enum', 'name': ctype, 'get_type': sym + '_get_type',
                              'members': [{'name': m_['name'], 'nick': n.lower(), 'value': m_['value']}
                                          for m_, n in zip(members, names)]})
            self.features.add('registered:%s(%d static functions)' % ('flags' if flags else 'enum', min(len(hs), 4)))
        if rng.random() < 0.4:
            # a boxed type the scanner sees only in the dump
            w = self.word()
            ctype = 'Foo' + w + 'Box'
            sym = 'foo_' + snake(w) + '_box'
            self.add({'d': 'function', 'name': sym + '_get_type', 'ret': T('GType'), 'params': []})
            fns = []
            for h in rng.sample(['new', 'new_empty', 'new_from_x'], rng.choice([2, 3])):
                fns.append({'d': 'function', 'name': '%s_%s' % (sym, h), 'ret': P(T(ctype)), 'params': []})
            for h in rng.sample(['copy', 'free', 'is_b', 'a_get', 'zz'], rng.choice([2, 3, 4])):
                fns.append({'d': 'function', 'name': '%s_%s' % (sym, h), 'ret': T('void'),
                            'params': [{'name': 'self', 'type': P(T(ctype))}]})
            for h in rng.sample(['registry', 'count', 'a_static', 'Z'.lower() + '_static'], rng.choice([2, 3])):
                fns.append({'d': 'function', 'name': '%s_%s' % (sym, h), 'ret': T('int'), 'params': []})
            rng.shuffle(fns)
            for fn in fns:
                self.add(fn)
            self.dump.append({'tag': 'boxed', 'name': ctype, 'get_type': sym + '_get_type'})
            self.features.add('registered:boxed')

    def add_alias_chains(self):
        """typedef chains (alias of alias of ... of a root) with the callables using them, written in
        dependency order.  Roots that are not introspectable (varargs callback, callback over a type
        of no namespace) exercise the fixed point of IntrospectablePass.validate: which aliases,
        callbacks and functions end up introspectable="0" must not depend on where the unrelated
        declarations stand."""
        rng = self.rng
        for _ in range(rng.choice([0, 1, 1, 2])):
            w = self.word()
            sym = 'foo_' + snake(w)
            root_kind = rng.choice(['varargs-cb', 'foreign-cb', 'plain-cb', 'int', 'foreign-ptr'])
            self.features.add('alias-chain:' + root_kind)
            root = 'Foo%s%s' % (w, 'Func' if root_kind.endswith('-cb') else 'Root')
            cb = lambda params: {'k': 'ptr', 'to': {'k': 'func', 'ret': T('void'), 'params': params}}
            if root_kind == 'varargs-cb':
                ty = cb([{'name': 'fmt', 'type': P(T('char', q=scanpipe.Q_CONST))}, {'ellipsis': True}])
            elif root_kind == 'foreign-cb':
                ty = cb([{'name': 'stream', 'type': P(T('FILE'))}])      # a libc type: of no namespace
            elif root_kind == 'plain-cb':
                ty = cb([{'name': 'n', 'type': T('int')}, {'name': 'user_data', 'type': P(T('void'))}])
            elif root_kind == 'int':
                ty = T('int')
            else:
                ty = P(T('FILE'))
            self.add({'d': 'typedef', 'name': root, 'type': ty})
            chain = [root]
            depth = rng.choice([1, 2, 2, 3, 4])
            self.features.add('alias-chain:depth%d' % depth)
            for i in range(depth):
                nm = 'Foo%sAl%d' % (w, i + 1)
                self.add({'d': 'typedef', 'name': nm, 'type': T(chain[-1])})
                chain.append(nm)
            for i, nm in enumerate(chain):
                if rng.random() < 0.6:
                    fn = '%s_take%d' % (sym, i)
                    self.add({'d': 'function', 'name': fn, 'ret': T('void'),
                              'params': [{'name': 'v', 'type': T(nm)}, {'name': 'data', 'type': P(T('void'))}]})
                    if rng.random() < 0.3:
                        self.comment(fn, 'Takes a %s.' % nm, [('v', 'the value'), ('data', 'user data')])
            if rng.random() < 0.6:
                # a callback over the end of the chain, an alias of THAT callback, and their users
                outer = 'Foo%sOuterFunc' % w
                self.add({'d': 'typedef', 'name': outer,
                          'type': cb([{'name': 'inner', 'type': T(chain[-1])}, {'name': 'data', 'type': P(T('void'))}])})
                self.add({'d': 'typedef', 'name': outer + 'Al', 'type': T(outer)})
                self.add({'d': 'function', 'name': sym + '_outer', 'ret': T('void'),
                          'params': [{'name': 'f', 'type': T(outer + 'Al')}, {'name': 'data', 'type': P(T('void'))}]})
                # a table of hooks: fields over the chain, a function-pointer field (anonymous callback)
                # over it; the table's typedef may stand BEFORE the chain (forward declaration: the
                # record then precedes the callbacks its fields use in the namespace)
                tag = '_Foo%sTable' % w
                info = {'typedefs': [], 'structs': [], 'shape': 'table'}
                forward = rng.random() < 0.6
                if forward:
                    info['typedefs'].append(self.add({'d': 'typedef', 'name': tag[1:], 'type': {'k': 'struct', 'n': tag}}))
                    pos_ = rng.randint(0, len(self.decls) - 1)
                    self.decls.insert(pos_, self.decls.pop())          # anywhere earlier
                    for inf in self.tags.values():
                        for key_ in ('typedefs', 'structs'):
                            inf[key_] = [i + 1 if i >= pos_ else i for i in inf[key_]]
                    info['typedefs'] = [pos_]
                info['structs'].append(self.add({'d': 'struct', 'name': tag, 'fields': [
                    {'name': 'hook', 'type': T(rng.choice(chain))}, {'name': 'outer', 'type': T(outer)},
                    {'name': 'anon', 'type': cb([{'name': 'v', 'type': T(rng.choice(chain))},
                                                 {'name': 'data', 'type': P(T('void'))}])}]}))
                if not forward and rng.random() < 0.7:
                    info['typedefs'].append(self.add({'d': 'typedef', 'name': tag[1:], 'type': {'k': 'struct', 'n': tag}}))
                self.tags[tag] = info
                if info['typedefs']:
                    self.add({'d': 'function', 'name': sym + '_table_install', 'ret': T('void'),
                              'params': [{'name': 'self', 'type': P(T(tag[1:]))}]})
                self.features.add('alias-chain:outer' + ('(table forward-declared)' if forward else ''))

    def add_rich_uses(self):
        """declarations that refer to every node kind of RICH_GIR"""
        rng = self.rng
        for sfx, ctype, by_value in RICH_USES:
            if rng.random() < 0.6:
                t = T(ctype) if by_value else P(T(ctype))
                self.add({'d': 'function', 'name': 'foo_rich_take_' + sfx, 'ret': T('void'),
                          'params': [{'name': 'v', 'type': t}]})
            if rng.random() < 0.3:
                t = T(ctype) if by_value else P(T(ctype))
                self.add({'d': 'function', 'name': 'foo_rich_get_' + sfx, 'ret': t, 'params': []})
            if rng.random() < 0.2:
                self.add({'d': 'typedef', 'name': 'FooRich%sAl' % sfx.title().replace('_', ''), 'type': T(ctype)})
        for cbn in RICH_CALLBACKS:
            if rng.random() < 0.6:
                ps = [{'name': 'cb', 'type': T(cbn)}, {'name': 'user_data', 'type': P(T('void'))}]
                if rng.random() < 0.5:
                    ps.append({'name': 'notify', 'type': T('GDestroyNotify')})
                self.add({'d': 'function', 'name': 'foo_rich_call_' + snake(cbn[4:]), 'ret': T('void'), 'params': ps})
            if rng.random() < 0.3:
                self.add({'d': 'typedef', 'name': 'Foo%sAl' % cbn[4:], 'type': T(cbn)})
        if rng.random() < 0.6:
            self.add({'d': 'struct', 'name': '_FooRichHolder',
                      'fields': [{'name': 'mode', 'type': T('RichMode')}, {'name': 'rec', 'type': T('RichRec')},
                                 {'name': 'obj', 'type': P(T('RichObject'))}, {'name': 'cb', 'type': T('RichFunc')},
                                 {'name': 'hidden', 'type': T('RichHiddenFunc')}, {'name': 'val', 'type': T('RichValue')}]})
        if rng.random() < 0.6:
            # a class derived from the dependency's abstract class, implementing its interface
            parts = [
                {'d': 'typedef', 'name': 'FooRichChild', 'type': {'k': 'struct', 'n': '_FooRichChild'}},
                {'d': 'typedef', 'name': 'FooRichChildClass', 'type': {'k': 'struct', 'n': '_FooRichChildClass'}},
                {'d': 'struct', 'name': '_FooRichChild', 'fields': [{'name': 'parent_instance', 'type': T('RichObject')}]},
                {'d': 'struct', 'name': '_FooRichChildClass', 'fields': [{'name': 'parent_class', 'type': T('RichObjectClass')}]},
                {'d': 'function', 'name': 'foo_rich_child_get_type', 'ret': T('GType'), 'params': []},
                {'d': 'function', 'name': 'foo_rich_child_new', 'ret': P(T('FooRichChild')), 'params': []},
                {'d': 'function', 'name': 'foo_rich_child_poke', 'ret': T('void'),
                 'params': [{'name': 'self', 'type': P(T('FooRichChild'))}, {'name': 'mode', 'type': T('RichMode')}]}]
            for prt in parts:
                idx = self.add(prt)
                if prt['d'] == 'typedef':
                    self.tags.setdefault(prt['type']['n'], {'typedefs': [], 'structs': [], 'shape': 'class'})['typedefs'].append(idx)
                elif prt['d'] == 'struct':
                    self.tags.setdefault(prt['name'], {'typedefs': [], 'structs': [], 'shape': 'class'})['structs'].append(idx)
            self.dump.append({'tag': 'class', 'name': 'FooRichChild', 'get_type': 'foo_rich_child_get_type',
                              'parents': 'RichObject,GObject', 'implements': ['RichIface'],
                              'props': [{'name': 'mode', 'type': 'RichMode', 'flags': 3}],
                              'signals': [{'name': 'poked', 'ret': 'void', 'params': ['RichMode', 'RichObject']}]})
            self.features.add('deps:rich-child-class')

    def add_class(self, iface=False):
        rng = self.rng
        w = self.word()
        ctype = 'Foo' + w
        sym = 'foo_' + snake(w)
        csfx = 'Iface' if iface else 'Class'
        parts = [
            {'d': 'typedef', 'name': ctype, 'type': {'k': 'struct', 'n': '_' + ctype}},
            {'d': 'typedef', 'name': ctype + csfx, 'type': {'k': 'struct', 'n': '_' + ctype + csfx}},
        ]
        if not iface:
            parts.append({'d': 'struct', 'name': '_' + ctype,
                          'fields': [{'name': 'parent_instance', 'type': T('GObject')}, {'name': 'priv', 'type': P(T('void'))}]})
        vfs = rng.sample(['changed', 'activate', 'aa', 'zz', 'Mid'.lower(), 'b2'], rng.randint(0, 4))
        cfields = [{'name': 'g_iface' if iface else 'parent_class', 'type': T('GTypeInterface' if iface else 'GObjectClass')}]
        for v in vfs:
            cfields.append({'name': v, 'type': {'k': 'ptr', 'to': {'k': 'func', 'ret': T('void'),
                                                                    'params': [{'name': 'self', 'type': P(T(ctype))}]}}})
        parts.append({'d': 'struct', 'name': '_' + ctype + csfx, 'fields': cfields})
        parts.append({'d': 'function', 'name': sym + '_get_type', 'ret': T('GType'), 'params': []})
        meths = rng.sample(['get_name', 'set_name', 'run', 'abort', 'a', 'zz', 'Reset'.lower(), 'b_1', 'b_0'], rng.randint(0, 7))
        for mth in meths:
            parts.append({'d': 'function', 'name': '%s_%s' % (sym, mth), 'ret': T('void'),
                          'params': [{'name': 'self', 'type': P(T(ctype))}]})
        if not iface:
            for i in range(rng.choice([0, 1, 2])):
                parts.append({'d': 'function', 'name': '%s_new%s' % (sym, '' if i == 0 else '_named'),
                              'ret': P(T(ctype)), 'params': []})
        # static functions of the class / interface (no instance parameter)
        for st in rng.sample(['registry', 'count', 'a_static', 'zz_static', 'default_mode'], rng.choice([0, 2, 3])):
            parts.append({'d': 'function', 'name': '%s_%s' % (sym, st), 'ret': T('int'), 'params': [{'name': 'n', 'type': T('int')}]})
        rng.shuffle(parts)
        # keep typedef/struct pairs registered for the tag-order permutation
        for prt in parts:
            idx = self.add(prt)
            if prt['d'] == 'typedef' and prt['type'].get('k') == 'struct':
                self.tags.setdefault(prt['type']['n'], {'typedefs': [], 'structs': [], 'shape': 'class'})['typedefs'].append(idx)
            elif prt['d'] == 'struct':
                self.tags.setdefault(prt['name'], {'typedefs': [], 'structs': [], 'shape': 'class'})['structs'].append(idx)
        props = [{'name': n, 'type': rng.choice(FUND), 'flags': rng.choice([1, 2, 3, 7, 11, 227])}
                 for n in rng.sample(['name', 'active', 'z-order', 'a', 'count', 'title', 'b-b', 'B'.lower() + '2', 'icon'],
                                     rng.randint(0, 8))]
        sigs = [{'name': n, 'ret': 'void', 'params': rng.sample(FUND[:5], rng.randint(0, 2))}
                for n in rng.sample(['changed', 'activate', 'z', 'a-b', 'notify-x', 'closed', 'b'], rng.randint(0, 6))]
        it = {'tag': 'interface' if iface else 'class', 'name': ctype, 'get_type': sym + '_get_type',
              'props': props, 'signals': sigs}
        if iface:
            it['prereqs'] = rng.sample(['GObject', 'GInitable', 'GAction'], rng.randint(0, 2))
        else:
            it['parents'] = 'GObject'
            pool = ['GInitable', 'GAction', 'GIcon', 'GTypePlugin'] + [d['name'] for d in self.dump if d['tag'] == 'interface']
            it['implements'] = rng.sample(pool, rng.randint(0, min(4, len(pool))))
        self.dump.append(it)
        for p_ in props:
            if rng.random() < 0.3:
                self.comment('%s:%s' % (ctype, p_['name']), 'The %s property.' % p_['name'])
        for s_ in sigs:
            if rng.random() < 0.3:
                self.comment('%s::%s' % (ctype, s_['name']), 'Emitted on %s.' % s_['name'], [('object', 'the object')])
        self.features.add('iface' if iface else 'class')

    def add_deps(self):
        """extra dependency GIRs: a DAG with distinct prefixes, included through `Top` (so that
        they are reached through a SET iteration) and sometimes directly"""
        rng = self.rng
        n = rng.choice([0, 0, 2, 3, 5])
        names = ['Dep%s' % c for c in 'ABCDEFG'[:n]]
        amb = n >= 2 and rng.random() < 0.2
        for i, nm in enumerate(names):
            incs = [x for x in names[:i] if rng.random() < 0.4]
            prefix = 'D' if amb and i < 2 else 'D%s' % nm[-1]
            body = ''
            for inc in incs:
                body += '  <include name="%s" version="1.0"/>\n' % inc
            body += '  <package name="%s-1.0"/>\n' % nm.lower()
            body += '  <namespace name="%s" version="1.0" shared-library="" c:identifier-prefixes="%s" c:symbol-prefixes="%s">\n' \
                % (nm, prefix, prefix.lower())
            body += '    <record name="Thing" c:type="%sThing"/>\n' % prefix
            body += '    <record name="Only%s" c:type="%sOnly%s"/>\n' % (nm[-1], prefix, nm[-1])
            body += '  </namespace>\n</repository>\n'
            self.deps['%s-1.0.gir' % nm] = GIR_HEAD + body
        rich = rng.random() < 0.5
        rich_via_top = rich and bool(names) and rng.random() < 0.5
        if rich:
            self.deps['Rich-1.0.gir'] = RICH_GIR
            self.features.add('deps:rich' + ('(transitive)' if rich_via_top else ''))
            self.add_rich_uses()
        if names:
            body = ''.join('  <include name="%s" version="1.0"/>\n' % x for x in names)
            if rich_via_top:
                body += '  <include name="Rich" version="1.0"/>\n'
            body += '  <include name="Gio" version="2.0"/>\n'
            body += '  <namespace name="Top" version="1.0" shared-library="" c:identifier-prefixes="Top" c:symbol-prefixes="top">\n'
            body += '    <record name="Level" c:type="TopLevel"/>\n  </namespace>\n</repository>\n'
            self.deps['Top-1.0.gir'] = GIR_HEAD + body
            self.includes.append('Top-1.0.gir')
            self.features.add('deps:%d' % n)
            # functions using dependency types
            for nm in names:
                prefix = 'D' if amb and names.index(nm) < 2 else 'D%s' % nm[-1]
                if rng.random() < 0.7:
                    self.add({'d': 'function', 'name': 'foo_use_%s' % nm.lower(), 'ret': T('void'),
                              'params': [{'name': 't', 'type': P(T(prefix + 'Thing'))},
                                         {'name': 'o', 'type': P(T('%sOnly%s' % (prefix, nm[-1])))}]})
            if amb:
                self.ambiguous = ['%s.Thing' % x for x in names[:2]]
                self.features.add('deps:ambiguous')
        order = ['GObject-2.0.gir', 'Gio-2.0.gir']
        rng.shuffle(order)
        self.includes = order[:rng.choice([1, 2])] + self.includes
        if rich and not rich_via_top:
            self.includes.insert(rng.randint(0, len(self.includes)), 'Rich-1.0.gir')
        if 'GObject-2.0.gir' not in self.includes and 'Gio-2.0.gir' not in self.includes:
            self.includes.insert(0, 'GObject-2.0.gir')


def gen_input(rng, rich=None, tie=0):
    g = Gen(rng)
    g.force_tie = tie
    g.add_deps()
    for _ in range(rng.choice([1, 2, 3, 5])):
        g.add_compound()
    g.add_misc()
    g.add_registered()
    g.add_alias_chains()
    for _ in range(rng.choice([0, 1, 1, 2, 3])):
        g.add_class(iface=rng.random() < 0.3)
    # duplicated identifier blocks (flagged by the parser: outside the quantifier unless silent)
    dup = False
    if g.comments and rng.random() < 0.1:
        c = rng.choice(g.comments)
        g.comments.append([c[0].replace('Does', 'Really does').replace('The ', 'That '), rng.choice(CFILES), rng.randint(500, 900)])
        dup = True
        g.features.add('dup-blocks')
    pk = rng.sample(['glib-2.0', 'gobject-2.0', 'gio-2.0', 'zlib', 'foo-1.0', 'Aaa', 'x11', 'cairo', 'pango', 'libxml-2.0'],
                    rng.randint(0, 8))
    pk += rng.sample(pk, min(len(pk), rng.randint(0, 2)))
    ci = rng.sample(['foo.h', 'foo/foo.h', 'a.h', 'Z.h', 'b/b.h', 'glib.h', 'sub/deep/e.h', 'x.h', 'foo-extra.h'],
                    rng.randint(0, 8))
    ci += rng.sample(ci, min(len(ci), rng.randint(0, 2)))
    if rng.random() < 0.3:
        # names that need escaping in an attribute value
        pk += rng.sample(['a&b', 'q"uote', "ap'os", 'é-1.0', 'lt<gt>'], rng.randint(1, 3))
        ci += rng.sample(['a&b.h', 'q"uote.h', 'é/中.h', 'lt<gt>.h', 'tab\t.h'], rng.randint(1, 3))
        g.features.add('lists:special-chars')
    inp = {'decls': g.decls, 'comments': g.comments, 'dump': g.dump, 'deps': g.deps, 'includes': g.includes,
           'packages': pk, 'c_includes': ci, 'tags': g.tags, 'ambiguous': g.ambiguous, 'dup_blocks': dup,
           'features': sorted(g.features)}
    # the baseline is an order a C front end can deliver: every typedef name is declared before
    # it is used (stable: the generated order is kept wherever that rule allows)
    order = linear_extension(inp['decls'], inp['tags'], min)
    if order is None:
        raise HarnessError('generator produced cyclic typedef uses')
    return reorder(inp, order)


def render_dump(items):
    from xml.sax.saxutils import quoteattr
    o = ['<?xml version="1.0"?>\n<dump>\n']
    for it in items:
        head = '  <%s name=%s get-type=%s' % (it['tag'], quoteattr(it['name']), quoteattr(it['get_type']))
        if it.get('parents') is not None:
            head += ' parents=%s' % quoteattr(it['parents'])
        o.append(head + '>\n')
        for mb in it.get('members', []):
            o.append('    <member name=%s nick=%s value="%d"/>\n' % (quoteattr(mb['name']), quoteattr(mb['nick']), mb['value']))
        for i in it.get('implements', []):
            o.append('    <implements name=%s/>\n' % quoteattr(i))
        for i in it.get('prereqs', []):
            o.append('    <prerequisite name=%s/>\n' % quoteattr(i))
        for p in it.get('props', []):
            o.append('    <property name=%s type=%s flags="%d"/>\n' % (quoteattr(p['name']), quoteattr(p['type']), p['flags']))
        for sg in it.get('signals', []):
            o.append('    <signal name=%s return=%s>\n' % (quoteattr(sg['name']), quoteattr(sg['ret'])))
            for pt in sg.get('params', []):
                o.append('      <param type=%s/>\n' % quoteattr(pt))
            o.append('    </signal>\n')
        o.append('  </%s>\n' % it['tag'])
    o.append('</dump>\n')
    return ''.join(o)


def write_deps(inp, girdir):
    os.makedirs(girdir, exist_ok=True)
    for fn, text in list(BASE_GIRS.items()) + list(inp.get('deps', {}).items()):
        path = os.path.join(girdir, fn)
        if not os.path.exists(path):
            with open(path, 'w', encoding='utf-8') as f:
                f.write(text)
    # make sure a cache entry written later is never older than its source
    return girdir


def materialise(inp, girdir, use_cache=False):
    cfg = {'namespace': 'Foo', 'decls': inp['decls'], 'comments': inp['comments'],
           'include_paths': [girdir], 'includes': [os.path.join(girdir, i) for i in inp['includes']],
           'packages': inp.get('packages', []), 'c_includes': inp.get('c_includes', []),
           'sources_top_dirs': ['/src']}
    if inp.get('dump'):
        cfg['dump'] = render_dump(inp['dump'])
    if use_cache:
        cfg['use_cache'] = True
    return cfg


# ---------------------------------------------------------------------------------------------
# variants: permutations the statement says are irrelevant
# ---------------------------------------------------------------------------------------------
def variant(inp, kind, rng):
    """Returns (input', note) or None when the variant does not apply."""
    v = copy.deepcopy(inp)
    if kind == 'id':
        return v
    if kind == 'blocks':
        if len(v['comments']) < 2:
            return None
        rng.shuffle(v['comments'])
        return v
    if kind == 'files':
        files = sorted(set(c[1] for c in v['comments']))
        if len(files) < 2:
            return None
        order = list(files)
        rng.shuffle(order)
        if order == files:
            order.reverse()
        v['comments'] = [c for f in order for c in v['comments'] if c[1] == f]
        return v
    if kind == 'tagorder':
        # swap every typedef/struct pair of a tag that has exactly one typedef and one struct symbol
        done = 0
        for tag, info in sorted(v['tags'].items()):
            if len(info['typedefs']) == 1 and len(info['structs']) == 1:
                i, j = info['typedefs'][0], info['structs'][0]
                v['decls'][i], v['decls'][j] = v['decls'][j], v['decls'][i]
                done += 1
        return v if done else None
    if kind == 'tagmove':
        # move the struct definition(s) of a tag relative to its typedefs, keeping the relative
        # order of the typedefs (and of the struct symbols)
        done = 0
        for tag, info in sorted(v['tags'].items()):
            idxs = sorted(info['typedefs'] + info['structs'])
            if len(idxs) < 2 or not info['structs'] or not info['typedefs']:
                continue
            tds = [v['decls'][i] for i in sorted(info['typedefs'])]
            sts = [v['decls'][i] for i in sorted(info['structs'])]
            slots = ['t'] * len(tds) + ['s'] * len(sts)
            rng.shuffle(slots)
            ti = iter(tds)
            si = iter(sts)
            for i, s in zip(idxs, slots):
                v['decls'][i] = next(ti) if s == 't' else next(si)
            done += 1
        return v if done else None
    if kind == 'decls':
        # shuffle all top-level declarations into another order a C front end can deliver: a
        # random linear extension of "typedef before the uses of its name" + the relative order of
        # the typedefs of one tag and of its struct symbols (see decl_prereqs)
        order = linear_extension(v['decls'], v['tags'], rng.choice)
        if order is None or order == list(range(len(order))):
            return None
        return reorder(v, order)
    if kind == 'decls-any':
        # shuffle all top-level declarations, keeping only the relative order of the typedefs of
        # one tag (the first typedef is the primary record by design) and of its struct symbols;
        # names may end up used before their typedef (no C front end delivers that)
        idx = list(range(len(v['decls'])))
        perm = list(idx)
        rng.shuffle(perm)
        new = [v['decls'][i] for i in perm]
        # restore relative order inside each tag group
        for tag, info in v['tags'].items():
            for grp in (info['typedefs'], info['structs']):
                if len(grp) > 1:
                    where = sorted(perm.index(i) for i in grp)
                    for w_, i in zip(where, sorted(grp)):
                        new[w_] = v['decls'][i]
        v['decls'] = new
        v['tags'] = {}          # indices are stale; the variant is not permuted again
        return v
    if kind == 'dump':
        if len(v['dump']) < 2:
            return None
        rng.shuffle(v['dump'])
        return v
    if kind == 'lists':
        # packages / c:includes are emitted as sorted(set(..)): order and multiplicity are irrelevant
        if len(v['packages']) + len(v['c_includes']) < 2:
            return None
        rng.shuffle(v['packages'])
        rng.shuffle(v['c_includes'])
        if v['packages']:
            v['packages'].append(rng.choice(v['packages']))
        return v
    raise ValueError(kind)


# compared byte for byte.  'decls' (whole-declaration shuffles that keep every typedef before the
# uses of its name) belongs here: nothing in an element may depend on where the OTHER declarations
# stand -- which nodes are introspectable="0", resolved types, attributes, docs, positions.
BYTE_VARIANTS = ['blocks', 'files', 'tagorder', 'tagmove', 'lists', 'cache', 'xcache', 'decls']
# 'dump': the order of the runtime dump entries -- byte for byte as well (kept apart only because it
#         is drawn in the extra slot).
# 'decls-any': unconstrained shuffles.  When the shuffled order still declares every typedef name
#         before its uses it is judged byte for byte like 'decls'.  Otherwise the symbol stream is
#         one no C front end delivers (scannerlexer.l returns an identifier as TYPEDEF_NAME only
#         after its typedef; an earlier use is a syntax error and the declaration is dropped):
#         outside the quantifier for the CONTENT of elements -- a byte difference is counted, not
#         reported -- but the sibling order must still be the same function of names and kinds.
EXTRA_VARIANTS = ['dump', 'decls-any', 'decls']

RUNNER = r'''
import json, os, sys, traceback
sys.path.insert(0, %(harness)r)
import scanpipe
m = scanpipe.mods()
job = json.load(open(sys.argv[1]))
out = []
# count the loads the real CacheStore answers from the cache (through its public load());
# None when the class has been restructured: the byte comparison below does not depend on it
loads = None
try:
    from giscanner import cachestore as _cs
    _orig_load = _cs.CacheStore.load
    loads = {'calls': 0, 'hits': 0}
    def _counting_load(self, filename, *a, **k):
        r_ = _orig_load(self, filename, *a, **k)
        loads['calls'] += 1
        if r_ is not None:
            loads['hits'] += 1
        return r_
    _cs.CacheStore.load = _counting_load
except Exception:
    loads = None


def run_steps(j):
    """a cache HISTORY: every cfg of j['steps'] is scanned cold (cache disabled), then all of them one
    after the other with the real cache in j['xdg'], from the working directory j['cwd'] (the
    dependency GIRs are named by RELATIVE paths)"""
    res = {'id': j['id'], 'cold': [], 'warm': [], 'loads': []}
    old = os.getcwd()
    try:
        os.chdir(j['cwd'])
        for phase in ('cold', 'warm'):
            if phase == 'warm':
                os.environ['XDG_CACHE_HOME'] = j['xdg']
                os.environ.pop('GI_SCANNER_DISABLE_CACHE', None)
            else:
                os.environ['GI_SCANNER_DISABLE_CACHE'] = '1'
            for cfg in j['steps']:
                cfg = dict(cfg)
                os.chdir(cfg.pop('_cwd', None) or j['cwd'])     # a history may run from several directories
                if loads is not None:
                    loads['calls'] = loads['hits'] = 0
                try:
                    o = scanpipe.scan(dict(cfg, use_cache=(phase == 'warm')))['gir']
                except BaseException as e:
                    o = 'RAISED %%s' %% type(e).__name__
                    res.setdefault('errors', []).append('%%s: %%s' %% (type(e).__name__, str(e)[:300]))
                res[phase].append(o)
                if phase == 'warm':
                    res['loads'].append(None if loads is None else [loads['calls'], loads['hits']])
        d = os.path.join(j['xdg'], 'g-ir-scanner')
        res['cache_files'] = len([f for f in os.listdir(d) if not f.startswith('.')]) if os.path.isdir(d) else 0
    finally:
        os.chdir(old)
        os.environ['GI_SCANNER_DISABLE_CACHE'] = '1'
    return res


for j in job['jobs']:
    res = {'id': j['id']}
    if j.get('steps') is not None:
        try:
            out.append(run_steps(j))
        except BaseException as e:
            out.append({'id': j['id'], 'error': '%%s: %%s' %% (type(e).__name__, str(e)[:300]),
                        'trace': traceback.format_exc()[-600:]})
        continue
    try:
        if j.get('xdg'):
            os.environ['XDG_CACHE_HOME'] = j['xdg']
            os.environ.pop('GI_SCANNER_DISABLE_CACHE', None)
        else:
            os.environ['GI_SCANNER_DISABLE_CACHE'] = '1'
        gir = None
        girs = []
        hits = []
        for _ in range(j.get('runs', 1)):
            if loads is not None:
                loads['calls'] = loads['hits'] = 0
            r = scanpipe.scan(j['cfg'])
            gir = r['gir']
            girs.append(gir)
            hits.append(None if loads is None else [loads['calls'], loads['hits']])
        res['gir'] = gir
        if j.get('xdg'):
            # every run of a cache job: [0] parsed afresh and stored (cold), [1:] loaded (warm)
            res['girs'] = girs
            res['loads'] = hits
        res['dup_warned'] = sum(1 for w in r['warnings'] if 'multiple comment blocks' in w['text'])
        if j.get('xdg'):
            d = os.path.join(j['xdg'], 'g-ir-scanner')
            res['cache_files'] = len([f for f in os.listdir(d) if not f.startswith('.')]) if os.path.isdir(d) else 0
            res['parsed_includes'] = list(r['transformer']._parsed_includes) if hasattr(r['transformer'], '_parsed_includes') else None
    except BaseException as e:
        res['error'] = '%%s: %%s' %% (type(e).__name__, str(e)[:300])
        res['trace'] = traceback.format_exc()[-600:]
    out.append(res)
json.dump(out, open(sys.argv[2], 'w'))
'''


class Pool(object):
    """runs batches of scan jobs in fresh interpreters, one PYTHONHASHSEED per batch"""

    def __init__(self, ctx, workers=16):
        self.ctx = ctx
        self.workers = workers
        self.runner = os.path.join(ctx.scratch, 'c16_runner.py')
        with open(self.runner, 'w') as f:
            f.write(RUNNER % {'harness': HERE})
        self.n = 0
        self.spawned = 0

    def _run(self, seed, jobs):
        self.n += 1
        base = os.path.join(self.ctx.scratch, 'job%d_%d' % (os.getpid(), id(jobs) % 10 ** 9))
        jin, jout = base + '.in.json', base + '.out.json'
        with open(jin, 'w') as f:
            json.dump({'jobs': jobs}, f)
        env = dict(os.environ, PYTHONHASHSEED=str(seed), GIVERIF_REPO=REPO, PYTHONDONTWRITEBYTECODE='1')
        env.pop('GI_SCANNER_DISABLE_CACHE', None)
        p = subprocess.run([PYTHON, self.runner, jin, jout], env=env, stdout=subprocess.PIPE,
                           stderr=subprocess.PIPE, timeout=900)
        if p.returncode != 0 or not os.path.exists(jout):
            raise HarnessError('scan subprocess failed (seed %s): %s' % (seed, p.stderr.decode('utf-8', 'replace')[-800:]))
        with open(jout) as f:
            res = json.load(f)
        os.unlink(jin)
        os.unlink(jout)
        return res

    def run(self, batches):
        """batches: list of (seed, [jobs]) -> dict id -> result"""
        out = {}
        with concurrent.futures.ThreadPoolExecutor(max_workers=self.workers) as ex:
            futs = [ex.submit(self._run, seed, jobs) for seed, jobs in batches if jobs]
            self.spawned += len(futs)
            for f in futs:
                for r in f.result():
                    out[r['id']] = r
        return out


# ---------------------------------------------------------------------------------------------
# oracle written from the statement: sibling order is a fixed function of names and kinds
# ---------------------------------------------------------------------------------------------
SORTED_TAGS = ['implements', 'prerequisite', 'constructor', 'function', 'virtual-method', 'method', 'property',
               'glib:signal']


def local(tag):
    for p, uri in NS.items():
        if tag.startswith('{%s}' % uri):
            return tag[len(uri) + 2:] if p == 'core' else '%s:%s' % (p, tag[len(uri) + 2:])
    return tag


def elem_name(el):
    return el.get('name') if el.get('name') is not None else el.get(q('glib:name'))


def signature(gir):
    """nested sibling-order signature: [(tag, name, [(tag, name)...])...] of the namespace"""
    root = ET.fromstring(gir.encode('utf-8'))
    ns = root.find(q('namespace'))
    sig = []
    for el in ns:
        kids = [(local(c.tag), elem_name(c)) for c in el if local(c.tag) in SORTED_TAGS + ['field', 'member']]
        sig.append((local(el.tag), elem_name(el), kids))
    head = [(local(c.tag), c.get('name'), c.get('version')) for c in root if local(c.tag) in ('include', 'package', 'c:include')]
    return head, sig


def statement_oracle(gir, precedence):
    """Returns a list of complaints.  `precedence`: parent kind -> {(tagA, tagB)} observed orders,
    shared over the whole run (the order of the element groups must be one fixed order)."""
    bad = []
    head, sig = signature(gir)
    nsname = ET.fromstring(gir.encode('utf-8')).find(q('namespace')).get('name')
    for kind in ('include', 'package', 'c:include'):
        items = [(n, v or '') for t, n, v in head if t == kind]
        if items != sorted(items):
            bad.append('<%s> elements not in sorted order: %r' % (kind, items))
        if len(set(items)) != len(items):
            bad.append('<%s> duplicated: %r' % (kind, items))
    keys = [(0 if t == 'alias' else 1, n) for t, n, _k in sig]
    if keys != sorted(keys):
        bad.append('namespace children not ordered aliases-first-then-name: %r' % (keys, ))
    if len(set(keys)) != len(keys):
        bad.append('namespace children with equal sort keys: %r' % sorted(k for k in keys if keys.count(k) > 1)[:4])
    for t, n, kids in sig:
        groups = {}
        seq = []
        for kt, kn in kids:
            g = 'fieldblock' if kt in ('field', 'member') else kt
            groups.setdefault(g, []).append(kn)
            if not seq or seq[-1] != g:
                seq.append(g)
        if len(seq) != len(set(seq)):
            bad.append('%s %s: children of one kind are not contiguous: %r' % (t, n, seq))
        for i in range(len(seq)):
            for j in range(i + 1, len(seq)):
                precedence.setdefault(t, set()).add((seq[i], seq[j]))
                if (seq[j], seq[i]) in precedence[t]:
                    bad.append('%s: element groups %s / %s appear in both orders' % (t, seq[i], seq[j]))
        for g, names in groups.items():
            if g == 'fieldblock':
                continue
            if g in ('implements', 'prerequisite'):
                # written relative to the namespace, ordered by the qualified name
                names = [x if '.' in x else '%s.%s' % (nsname, x) for x in names]
            if names != sorted(names):
                bad.append('%s %s: <%s> children not sorted by name: %r' % (t, n, g, names))
            if len(set(names)) != len(names):
                bad.append('%s %s: <%s> children with equal names: %r' % (t, n, g, names))
    return bad


# ---------------------------------------------------------------------------------------------
# correspondence: model vs real code (in-process)
# ---------------------------------------------------------------------------------------------
def guarded(ctx, what, fn, *a, **k):
    """call into internals of /repo; a missing / restructured internal is a broken tie, not a
    harness error"""
    try:
        return True, fn(*a, **k)
    except (AttributeError, TypeError, ImportError, KeyError, NameError) as e:
        msg = 'correspondence %s not runnable (source restructured?): %s: %s' % (what, type(e).__name__, str(e)[:200])
        if msg not in ctx.broken and len([b for b in ctx.broken if b.startswith('correspondence %s not runnable' % what)]) == 0:
            ctx.broken.append(msg)
        return False, None


def rand_str(rng):
    alpha = 'abAB_-.09zZ é中~ '
    return ''.join(rng.choice(alpha) for _ in range(rng.randint(0, 5)))


def corr_basic(ctx, cnt, rng):
    m = scanpipe.mods()
    n = ctx.n(1500, 30000)
    pairs = [(rand_str(rng), rand_str(rng)) for _ in range(n)]
    pairs += [('', ''), ('a', 'a'), ('a', 'ab'), ('ab', 'a'), ('Z', 'a'), ('é', 'z'), ('-', '_')]
    res = ctx.driver.batch([{'op': 'c16.strle', 'a': a, 'b': b} for a, b in pairs])
    bad = 0
    for (a, b), r in zip(pairs, res):
        cnt.hit('strle:%s' % (a <= b))
        if r != (a <= b):
            bad += 1
            if bad <= 3:
                ctx.broken.append('correspondence c16.strle differs: %r <= %r python=%r model=%r' % (a, b, a <= b, r))
    # sorted(set(list)) as the writer does for packages / c:includes
    lists = [[rand_str(rng) for _ in range(rng.randint(0, 9))] for _ in range(ctx.n(400, 6000))]
    res = ctx.driver.batch([{'op': 'c16.sort_set', 'l': l} for l in lists])
    bad = 0
    for l, r in zip(lists, res):
        cnt.case(['sort_set', l], nontrivial=len(set(l)) > 1)
        if r != sorted(set(l)):
            bad += 1
            if bad <= 3:
                ctx.broken.append('correspondence c16.sort_set differs: %r python=%r model=%r' % (l, sorted(set(l)), r))
    # Include ordering
    incs = [[(rng.choice(['GLib', 'GObject', 'Gio', 'A', 'a', 'Zed', 'GLib-x']), rng.choice(['1.0', '2.0', '10.0', '', '2.0-x']))
             for _ in range(rng.randint(0, 7))] for _ in range(ctx.n(300, 5000))]
    res = ctx.driver.batch([{'op': 'c16.sort_includes', 'l': [list(p) for p in sorted(set(l), key=lambda _x: rng.random())]}
                            for l in incs])
    bad = 0
    for l, r in zip(incs, res):
        ok, real = guarded(ctx, 'ast.Include ordering', lambda: [[i.name, i.version] for i in sorted(set(m.ast.Include(a, b) for a, b in l))])
        if not ok:
            break
        cnt.case(['inc', l], nontrivial=len(set(l)) > 1)
        if r != real:
            bad += 1
            if bad <= 3:
                ctx.broken.append('correspondence c16.sort_includes differs: %r real=%r model=%r' % (l, real, r))
    # get_main_position
    def rand_positions():
        ps = set()
        if rng.random() < 0.3:
            # one file name in several directories, few lines: positions that differ in the directory only
            files, lines = ['core/types.h', 'ui/types.h', 'types.h', 'core/ui/types.h', '/abs/core/types.h', 'b.h'], [42, 42, 42, 7]
        else:
            files, lines = ['a.h', 'b.h', 'd.h', 'sub/c.h', '', 'A.h'], [0, 1, 3, 7, 11, 120]
        for _ in range(rng.randint(0, 6)):
            ps.add((rng.choice(files), rng.choice(lines), rng.choice([0, 0, 0, 4])))
        return [(f, l, c, rng.random() < 0.4) for f, l, c in sorted(ps, key=lambda _x: rng.random())]
    poss = [rand_positions() for _ in range(ctx.n(1500, 30000))]
    reqs = [{'op': 'c16.main_position', 'positions': [{'file': f, 'line': l, 'col': c, 'typedef': t} for f, l, c, t in ps]}
            for ps in poss]
    res = ctx.driver.batch(reqs)
    bad = 0
    tied = 0
    for ps, r in zip(poss, res):
        def real_main():
            node = m.ast.Node('x')
            for f, l, c, t in ps:
                node.add_file_position(m.message.Position(f or None, l or None, c or None, is_typedef=t))
            p = node.get_main_position()
            return None if p is None else [p.filename or '', p.line or 0, p.column or 0, bool(p.is_typedef)]
        ok, real = guarded(ctx, 'Node.get_main_position', real_main)
        if not ok:
            break
        cnt.hit('mainpos:%s' % ('none' if real is None else 'typedef' if real[3] else 'def'))
        cnt.case(['mainpos', ps], nontrivial=len(ps) > 1)
        mod = None if r is None else [r['file'], r['line'], r['col'], r['typedef']]
        if mod != real:
            bad += 1
            if bad <= 3:
                ctx.broken.append('correspondence c16.main_position differs: %r real=%r model=%r' % (ps, real, mod))
        # statement oracle on the real code: whatever order the position SET is iterated in, the
        # position written is the same (the set is replaced by lists in several orders)
        if len(ps) > 1:
            def real_perm(order):
                node = m.ast.Node('x')
                node.file_positions = [m.message.Position(f or None, l or None, c or None, is_typedef=t)
                                       for f, l, c, t in order]
                p = node.get_main_position()
                return None if p is None else (p.filename or '', p.line or 0, p.column or 0)
            outs = set()
            orders = list(itertools.permutations(ps)) if len(ps) <= 3 else []
            for _ in range(0 if orders else 6):
                order = list(ps)
                rng.shuffle(order)
                orders.append(order)
            for order in orders:
                ok, got = guarded(ctx, 'Node.get_main_position', real_perm, order)
                if ok:
                    outs.add(got)
            outs.add(None if real is None else (real[0], real[1], real[2]))
            if len(outs) > 1:
                tied += 1
            if len(outs) > 1 and tied <= 2:     # the first two: the whole-pipeline cases below are reported too
                ctx.report_failure('main_position:' + json.dumps(sorted(ps)),
                                   'get_main_position depends on the iteration order of file_positions: %r for the set %r'
                                   % (sorted(outs, key=repr), sorted(ps)), {'kind': 'main_position', 'positions': ps})
    return len(pairs) + len(lists) + len(incs) + len(poss)


KIND_OF = None


def node_kind(m, node):
    a = m.ast
    for cls, k in ((a.Alias, 'alias'), (a.FunctionMacro, 'function-macro'), (a.Function, 'function'), (a.Enum, 'enumeration'),
                   (a.Bitfield, 'bitfield'), (a.Class, 'class'), (a.Interface, 'interface'), (a.Callback, 'callback'),
                   (a.Record, 'record'), (a.Union, 'union'), (a.Boxed, 'glib:boxed'), (a.Constant, 'constant'),
                   (a.DocSection, 'docsection'), (a.Member, 'member')):
        if isinstance(node, cls):
            return k
    return None


def relpath(fn):
    rel = os.path.relpath(fn, '/src')
    return rel if len(rel) < len(fn) else fn


def corr_writer(ctx, cnt, inputs, girdir):
    """the writer's sibling order: live namespace objects -> model -> compare with the GIR text"""
    m = scanpipe.mods()
    reqs = []
    reals = []
    for inp in inputs:
        try:
            r = scanpipe.scan(materialise(inp, girdir))
        except BaseException as e:  # reported by the metamorphic part
            cnt.hit('writer:scan-raised')
            continue

        def extract():
            nodes = []
            for node in r['namespace'].values():
                k = node_kind(m, node)
                if k is None:
                    return None
                if getattr(node, 'internal_skipped', False):
                    continue          # `_write_function_common` writes nothing for these
                d = {'kind': k, 'name': node.name}
                names = lambda l: [x.name for x in l if not getattr(x, 'internal_skipped', False)]
                if k in ('class', 'interface'):
                    tl = node.interfaces if k == 'class' else node.prerequisites
                    if any(t.target_giname is None for t in tl):
                        return None
                    d['interfaces'] = [t.target_giname for t in tl]
                    d['constructors'] = names(node.constructors) if k == 'class' else []
                    d['static_methods'] = names(node.static_methods)
                    d['vfuncs'] = names(node.virtual_methods)
                    d['methods'] = names(node.methods)
                    d['properties'] = names(node.properties)
                    d['signals'] = names(node.signals)
                    if any(f.anonymous_node is not None and not isinstance(f.anonymous_node, m.ast.Callback) for f in node.fields):
                        return None
                    d['fields'] = names(node.fields)
                elif k in ('record', 'union', 'glib:boxed'):
                    d['constructors'] = names(node.constructors)
                    d['static_methods'] = names(node.static_methods)
                    d['methods'] = names(node.methods)
                    if k != 'glib:boxed':
                        if any(f.anonymous_node is not None and not isinstance(f.anonymous_node, m.ast.Callback) for f in node.fields):
                            return None
                        d['fields'] = names(node.fields)
                elif k in ('enumeration', 'bitfield'):
                    d['members'] = names(node.members)
                    d['static_methods'] = names(node.static_methods)
                d['positions'] = [{'file': p.filename or '', 'line': p.line or 0, 'col': p.column or 0,
                                   'typedef': bool(p.is_typedef)} for p in node.file_positions]
                nodes.append(d)
            return nodes
        ok, nodes = guarded(ctx, 'live namespace extraction', extract)
        if not ok:
            return 0
        if nodes is None:
            cnt.hit('writer:skipped(unresolved iface / anonymous field)')
            continue
        reqs.append({'op': 'c16.write_namespace', 'nodes': nodes})
        reals.append((inp, r['gir']))
    res = ctx.driver.batch(reqs)
    bad = 0
    for (inp, gir), mod in zip(reals, res):
        root = ET.fromstring(gir.encode('utf-8'))
        real = []
        for el in root.find(q('namespace')):
            sp = el.find(q('source-position'))
            pos = None if sp is None else [sp.get('filename'), int(sp.get('line')), int(sp.get('column') or 0)]
            kids = [[local(c.tag), elem_name(c)] for c in el if local(c.tag) in SORTED_TAGS + ['field', 'member']]
            # `_type_to_name` writes interfaces relative to the namespace
            kids = [[t_, ('Foo.' + n_) if t_ in ('implements', 'prerequisite') and '.' not in n_ else n_] for t_, n_ in kids]
            real.append({'tag': local(el.tag), 'name': elem_name(el), 'pos': pos, 'children': kids})
        modn = [{'tag': e['tag'], 'name': e['name'],
                 'pos': None if e['pos'] is None else [relpath(e['pos'][0]), e['pos'][1], e['pos'][2]],
                 'children': e['children']} for e in mod]
        cnt.hit('writer:compared')
        cnt.case(['writer', hashlib.sha1(gir.encode()).hexdigest()], nontrivial=len(real) > 3)
        if modn != real:
            bad += 1
            if bad <= 3:
                diff = [(a, b) for a, b in zip(modn, real) if a != b][:2]
                ctx.broken.append('correspondence c16.write_namespace differs (model, real): %r (lengths %d/%d)'
                                  % (diff, len(modn), len(real)))
    return len(reals)


def corr_tagns(ctx, cnt, rng):
    """Transformer.parse on typedef/struct symbol sequences vs the tag-namespace model"""
    m = scanpipe.mods()
    n = ctx.n(400, 8000)
    cases = []
    for _ in range(n):
        tags = rng.sample(['_FooA', '_FooB', '_BarC', 'FooD'], rng.choice([1, 1, 2]))
        syms = []
        line = 0
        for tag in tags:
            base = tag.lstrip('_')
            kind = rng.choice(['record', 'record', 'union'])
            parts = []
            for i in range(rng.choice([0, 1, 1, 2, 3])):
                ident = base + ('' if i == 0 else rng.choice(['Alt', 'Alt', 'X%d' % i]))
                if rng.random() < 0.08:
                    ident = rng.choice(['Other' + base, base])   # foreign name / name clash
                parts.append({'s': 'typedef', 'kind': kind, 'ident': ident, 'tag': tag})
            for i in range(rng.choice([0, 1, 1, 1, 2])):
                parts.append({'s': 'struct', 'kind': kind, 'tag': tag,
                              'fields': ['f%d' % j for j in range(rng.choice([0, 0, 1, 3]))]})
            if rng.random() < 0.15:
                parts.append({'s': 'typedef', 'kind': kind, 'ident': 'Foo' + rng.choice(['Anon', 'A', 'Q']), 'tag': None,
                              'fields': ['g%d' % j for j in range(rng.choice([0, 2]))]})
            syms.extend(parts)
        rng.shuffle(syms)
        for s in syms:
            if rng.random() < 0.1 and line > 0:
                pass          # same line as the previous symbol
            else:
                line += rng.randint(1, 5)
            s['file'] = rng.choice(['/src/a.h', '/src/b.h', '/src/d.h'])
            s['line'] = line
        cases.append(syms)
    bad = 0
    reqs = []
    reals = []
    for syms in cases:
        decls = []
        for s in syms:
            ck = 'struct' if s['kind'] == 'record' else 'union'
            fl = [{'name': f, 'type': T('int')} for f in s.get('fields', [])]
            if s['s'] == 'typedef':
                decls.append({'d': 'typedef', 'name': s['ident'], 'type': {'k': ck, 'n': s['tag'], 'fields': fl},
                              'file': s['file'], 'line': s['line']})
            else:
                decls.append({'d': ck, 'name': s['tag'], 'fields': fl, 'file': s['file'], 'line': s['line']})

        def real_parse():
            try:
                r = scanpipe.scan({'namespace': 'Foo', 'decls': decls, 'stop_after': 'transformer'})
            except SystemExit:
                return 'conflict', None
            tr = r['transformer']
            strip = {}
            for s in syms:
                for ident in ([s['ident']] if s['s'] == 'typedef' else []) + ([s['tag']] if s['tag'] else []):
                    try:
                        strip[ident] = tr.strip_identifier(ident)
                    except m.transformer.TransformerException:
                        strip[ident] = None
            recs = []
            for name, node in r['namespace'].items():
                if isinstance(node, m.ast.Compound):
                    p = node.get_main_position()
                    recs.append({'kind': 'record' if isinstance(node, m.ast.Record) else 'union', 'name': name,
                                 'ctype': node.ctype, 'fields': [f.name for f in node.fields], 'opaque': bool(node.opaque),
                                 'disguised': bool(node.disguised), 'pointer': bool(node.pointer),
                                 'pos': None if p is None else [p.filename or '', p.line or 0, p.column or 0]})
            recs.sort(key=lambda d: d['name'])
            return recs, strip
        ok, rr = guarded(ctx, 'Transformer.parse (tag namespace)', real_parse)
        if not ok:
            return 0
        recs, strip = rr
        if strip is None:
            # conflict: compute the strip table by the rule the stub namespace uses
            strip = {}
            for s in syms:
                for ident in ([s['ident']] if s['s'] == 'typedef' else []) + ([s['tag']] if s['tag'] else []):
                    h = ident.startswith('_')
                    b = ident[1:] if h else ident
                    strip[ident] = (('_' if h else '') + b[3:]) if b.startswith('Foo') else None
        reals.append(recs)
        reqs.append({'op': 'c16.parse', 'syms': syms, 'strip': [[k, v] for k, v in sorted(strip.items())]})
    res = ctx.driver.batch(reqs)
    for syms, real, mod in zip(cases, reals, res):
        cnt.case(['tagns', syms], nontrivial=len(syms) > 1)
        if real == 'conflict':
            cnt.hit('tagns:conflict')
            same = 'conflict' in mod
        else:
            cnt.hit('tagns:ok')
            same = mod.get('ok') == real
        if not same:
            bad += 1
            if bad <= 3:
                ctx.broken.append('correspondence c16.parse differs: syms=%r real=%r model=%r' % (syms, real, mod))
    return len(cases)


def corr_blocks(ctx, cnt, rng):
    m = scanpipe.mods()
    n = ctx.n(300, 5000)
    cases = []
    for _ in range(n):
        k = rng.randint(0, 8)
        names = [rng.choice(['foo_a', 'foo_b', 'FooRec', 'SECTION:x', 'FooObj:prop', 'FooObj::sig', 'foo_c', 'foo_d'])
                 for _ in range(k)]
        cases.append([(nm, i * 10 + 5) for i, nm in enumerate(names)])
    reqs = []
    reals = []
    for blocks in cases:
        comments = [('/**\n * %s%s\n *\n * Text %d.\n */' % (nm, '' if nm.startswith('SECTION:') else ':', ln),
                     rng.choice(CFILES), ln) for nm, ln in blocks]

        def real_blocks():
            lg = scanpipe.install_logger(None)
            d = m.annotationparser.GtkDocCommentBlockParser().parse_comment_blocks(comments)
            return ([[k, str(b.position.line)] for k, b in d.items()],
                    sum(1 for w in lg.records if 'multiple comment blocks' in w['text']))
        ok, rr = guarded(ctx, 'parse_comment_blocks', real_blocks)
        if not ok:
            return 0
        reals.append(rr)
        reqs.append({'op': 'c16.blocks', 'blocks': [[nm, str(ln)] for nm, ln in blocks]})
    res = ctx.driver.batch(reqs)
    bad = 0
    for blocks, (rd, rw), mod in zip(cases, reals, res):
        cnt.case(['blocks', blocks], nontrivial=len(blocks) > 1)
        cnt.hit('blocks:dups' if rw else 'blocks:distinct')
        if mod['dict'] != rd or mod['warnings'] != rw:
            bad += 1
            if bad <= 3:
                ctx.broken.append('correspondence c16.blocks differs: %r real=%r/%d model=%r' % (blocks, rd, rw, mod))
    return len(cases)


def corr_includes(ctx, cnt, rng, scratch):
    """_parse_include (order of _parsed_includes given the actual set iteration orders) and
    _resolve_type_from_ctype vs the model"""
    m = scanpipe.mods()
    n = ctx.n(60, 800)
    done = 0
    bad = 0
    reqs = []
    pending = []
    for ci in range(n):
        d = os.path.join(scratch, 'inc%d' % ci)
        os.makedirs(d)
        k = rng.randint(1, 6)
        names = ['N%d' % i for i in range(k)]
        amb = rng.random() < 0.4
        prefixes = {}
        for i, nm in enumerate(names):
            incs = [x for x in names[:i] if rng.random() < 0.5]
            pre = rng.choice(['Q', 'Q', 'Qx']) if amb else 'Q%d' % i
            prefixes[nm] = pre
            body = ''.join('  <include name="%s" version="1.0"/>\n' % x for x in incs)
            body += '  <namespace name="%s" version="1.0" shared-library="" c:identifier-prefixes="%s" c:symbol-prefixes="q">\n' % (nm, pre)
            for t in rng.sample(['Thing', 'xThing', 'Other', 'Rec%d' % i], rng.randint(1, 3)):
                body += '    <record name="%s" c:type="%s%s"/>\n' % (t, pre, t)
            if rng.random() < 0.3:
                body += '    <record name="Renamed" c:type="QThing"/>\n'
            body += '  </namespace>\n</repository>\n'
            with open(os.path.join(d, '%s-1.0.gir' % nm), 'w') as f:
                f.write(GIR_HEAD + body)
        roots = rng.sample(names, rng.randint(1, min(3, k)))

        def real_inc():
            ns = m.ast.Namespace('Foo', '1.0')
            scanpipe.install_logger(ns)
            tr = m.transformer.Transformer(ns)
            tr.set_include_paths([d])
            tr.disable_cache()
            for r_ in roots:
                tr.register_include_uninstalled(os.path.join(d, '%s-1.0.gir' % r_))
            order = list(tr._parsed_includes)
            iters = [[nm, [[i.name, i.version] for i in nsobj.includes]] for nm, nsobj in tr._parsed_includes.items()]
            deps = [{'name': nsobj.name, 'prefixes': list(nsobj.identifier_prefixes), 'names': list(nsobj.names),
                     'ctypes': [[ct, node.name] for ct, node in nsobj.ctypes.items() if ct is not None]}
                    for nsobj in tr._parsed_includes.values()]
            idents = ['QThing', 'QxThing', 'QOther', 'Q0Thing', 'QRec1', 'Q1Rec1', 'QNope']
            resolved = []
            for ident in idents:
                t = m.ast.Type(ctype=ident + '*')
                okr = tr._resolve_type_from_ctype(t)
                resolved.append(t.target_giname if okr else None)
            return order, iters, deps, idents, resolved
        ok, rr = guarded(ctx, 'Transformer._parse_include / _resolve_type_from_ctype', real_inc)
        if not ok:
            return done
        order, iters, deps, idents, resolved = rr
        pending.append((ci, roots, iters, order, idents, resolved))
        reqs.append({'op': 'c16.parse_include', 'iter': iters, 'roots': roots, 'fuel': k + 2})
        reqs.extend({'op': 'c16.resolve', 'deps': deps, 'ident': i} for i in idents)
    res = ctx.driver.batch(reqs)
    pos = 0
    for ci, roots, iters, order, idents, resolved in pending:
        mod_order = res[pos]['order']
        if res[pos]['old'] != res[pos]['order']:
            cnt.hit('includes:set-iteration-order-would-have-mattered(pre-5d8d03e)')
        mod_res = res[pos + 1:pos + 1 + len(idents)]
        pos += 1 + len(idents)
        done += 1
        cnt.case(['inc', ci, order], nontrivial=len(order) > 1)
        cnt.hit('includes:resolved=%d' % sum(1 for r_ in resolved if r_))
        if mod_order != order or mod_res != resolved:
            bad += 1
            if bad <= 3:
                ctx.broken.append('correspondence c16.parse_include/resolve differs: roots=%r iters=%r real=%r/%r model=%r/%r'
                                  % (roots, iters, order, resolved, mod_order, mod_res))
    return done


def corr_fixpoint(ctx, cnt, rng, inputs, girroot):
    """the `while True:` loop of IntrospectablePass.validate vs the model's loopI, on namespaces in
    the generated declaration order AND in shuffled orders (aliases before their targets: the
    orders in which more than one round is needed).  The flags the loop starts from and the
    fixed part of every `_type_is_introspectable` answer are read off the real objects."""
    m = scanpipe.mods()
    reqs = []
    reals = []
    for key, inp in inputs:
        girdir = write_deps(inp, os.path.join(girroot, key))
        for how in ('as-declared', 'shuffled', 'reversed'):
            if how == 'as-declared':
                v = inp
            elif how == 'shuffled':
                v = variant(inp, 'decls-any', rng)
            else:
                # the most adverse order: everything reversed, so every alias stands before its target
                # (the typedefs of one tag and its struct symbols keep their relative order)
                order = restore_groups(list(reversed(range(len(inp['decls'])))), inp['tags'])
                v = copy.deepcopy(inp)
                v['decls'] = [inp['decls'][i] for i in order]
            cfg = materialise(v, girdir)

            def extract():
                r = scanpipe.scan(dict(cfg, stop_after='main'))
                tr, ns = r['transformer'], r['namespace']
                p = m.introspectablepass.IntrospectablePass(tr, r['blocks'])
                ns.walk(p._introspectable_alias_analysis)
                ns.walk(p._propagate_callable_skips)
                ns.walk(p._analyze_node)
                objs = []

                def visit(obj, stack):
                    objs.append((obj, list(stack)))
                    return True
                ns.walk(visit)
                index = {id(o): i for i, (o, _s) in enumerate(objs)}
                saved = [(bool(o.introspectable), bool(o.skip)) for o, _s in objs]
                tf0 = [a for a, _b in saved]

                def leaves(t):
                    if isinstance(t, (m.ast.Array, m.ast.List)):
                        return leaves(t.element_type)
                    if isinstance(t, m.ast.Map):
                        return leaves(t.key_type) + leaves(t.value_type)
                    return [t]
                for o, _s in objs:        # the fixed part: every node of this namespace answers True
                    o.introspectable = True
                    o.skip = False
                nodes = []
                try:
                    for (o, stack), (_intro, skip) in zip(objs, saved):
                        if isinstance(o, m.ast.Alias):
                            kind, types, inline = 'alias', [o.target], False
                        elif isinstance(o, m.ast.Callable):
                            kind, types = 'callable', [p_.type for p_ in o.parameters] + [o.retval.type]
                            inline = isinstance(o, m.ast.Function) and bool(o.is_inline)
                        else:
                            kind, types, inline = 'other', [], False
                        refs = []
                        for t in types:
                            for leaf in leaves(t):
                                tgt = tr.lookup_typenode(leaf) if getattr(leaf, 'target_giname', None) else None
                                if tgt is not None and id(tgt) in index:
                                    refs.append(index[id(tgt)])
                        nodes.append({'kind': kind, 'ok': all(p._type_is_introspectable(t) for t in types) and not inline,
                                      'refs': refs,
                                      'skip': skip or any(saved[index[id(a)]][1] for a in stack if id(a) in index),
                                      'name': getattr(o, 'name', None)})
                finally:
                    for (o, _s), (intro, skip) in zip(objs, saved):
                        o.introspectable = intro
                        o.skip = skip
                return nodes, tf0
            ok, rr = guarded(ctx, 'IntrospectablePass (state before the loop)', extract)
            if not ok:
                return len(reals)
            nodes, tf0 = rr
            try:
                full = scanpipe.scan(cfg)
            except BaseException:
                cnt.hit('fixpoint:scan-raised')
                continue
            final = []

            def visit2(obj, stack):
                final.append((getattr(obj, 'name', None), bool(obj.introspectable)))
                return True
            full['namespace'].walk(visit2)
            if [n_ for n_, _f in final] != [n['name'] for n in nodes]:
                cnt.hit('fixpoint:walk-differs(skipped)')
                continue
            reqs.append({'op': 'c16.fixpoint', 'nodes': [{k: n[k] for k in ('kind', 'ok', 'refs', 'skip')} for n in nodes],
                         'tf': tf0, 'ord': list(range(len(nodes)))})
            reals.append((key, how, nodes, tf0, [f for _n, f in final]))
    res = ctx.driver.batch(reqs)
    bad = 0
    for (key, how, nodes, tf0, final), mod in zip(reals, res):
        judged = [i for i, n in enumerate(nodes) if n['kind'] != 'other']
        cnt.case(['fixpoint', key, how, tf0], nontrivial=any(n['refs'] for n in nodes))
        cnt.hit('fixpoint:%s' % how)
        if mod['tf'] != tf0:
            cnt.hit('fixpoint:loop-cleared-flags')
        if mod['one_round'] != mod['tf']:
            cnt.hit('fixpoint:more-than-one-round-needed(%s)' % how)
        if not mod['stable']:
            ctx.broken.append('c16.fixpoint: the model loop ended in a state that is not stable (%s, %s)' % (key, how))
        if [mod['tf'][i] for i in judged] != [final[i] for i in judged]:
            bad += 1
            if bad <= 3:
                diff = [(nodes[i]['name'], nodes[i]['kind'], final[i], mod['tf'][i]) for i in judged if final[i] != mod['tf'][i]]
                ctx.broken.append('correspondence c16.fixpoint differs (%s, declarations %s): (name, kind, real introspectable, model) %r'
                                  % (key, how, diff[:6]))
    return len(reals)


# ---------------------------------------------------------------------------------------------
# the metamorphic validation on the real pipeline
# ---------------------------------------------------------------------------------------------
def first_diff(a, b):
    la, lb = a.split('\n'), b.split('\n')
    for i, (x, y) in enumerate(zip(la, lb)):
        if x != y:
            return 'line %d: %r vs %r' % (i + 1, x.strip()[:160], y.strip()[:160])
    return 'length %d vs %d lines' % (len(la), len(lb))


def metamorphic(ctx, cnt, pool, inputs, seeds, nperm, rng, samples):
    """inputs: list of (key, input).  Every input: baseline (seed[0]) + for each seed the identity
    variant + `nperm` permutation variants; byte comparison of the GIR."""
    girroot = os.path.join(ctx.scratch, 'gir')
    jobs_by_seed = {s: [] for s in seeds}
    meta = {}
    for key, inp in inputs:
        girdir = write_deps(inp, os.path.join(girroot, key))
        kinds_b = [k for k in BYTE_VARIANTS]
        rng.shuffle(kinds_b)
        for si, seed in enumerate(seeds):
            chosen = ['id'] + kinds_b[(si * nperm) % len(kinds_b):][:nperm]
            if len(chosen) < nperm + 1:
                chosen += kinds_b[:nperm + 1 - len(chosen)]
            if si % 2 == 1:
                chosen.append(rng.choice([k for k in EXTRA_VARIANTS if k not in chosen] or EXTRA_VARIANTS))
            for kind in chosen:
                jid = '%s|%s|%s' % (key, seed, kind)
                if kind in ('cache', 'xcache'):
                    if not inp['includes']:
                        continue
                    xdg = os.path.join(ctx.scratch, 'xdg', '%s_%s' % (key, seed if kind == 'cache' else seeds[0]))
                    os.makedirs(xdg, exist_ok=True)
                    if kind == 'xcache':
                        # phase 2: load the cache written by the seeds[0] process of this input
                        meta[jid] = (key, seed, kind, None)
                        continue
                    cfg = materialise(inp, girdir, use_cache=True)
                    jobs_by_seed[seed].append({'id': jid, 'cfg': cfg, 'xdg': xdg, 'runs': 2})
                    meta[jid] = (key, seed, kind, None)
                    continue
                v = variant(inp, kind, rng)
                if v is None:
                    cnt.hit('variant-n/a:' + kind)
                    continue
                jobs_by_seed[seed].append({'id': jid, 'cfg': materialise(v, girdir)})
                meta[jid] = (key, seed, kind, v if kind != 'id' else None)
    # phase 1
    batches = []
    for seed, jobs in jobs_by_seed.items():
        per = max(1, (len(jobs) + 3) // 4)
        for i in range(0, len(jobs), per):
            batches.append((seed, jobs[i:i + per]))
    results = pool.run(batches)
    # phase 2: warm cache written under another hash seed
    jobs2 = {}
    for jid, (key, seed, kind, _v) in meta.items():
        if kind == 'xcache' and seed != seeds[0]:
            inp = dict(inputs)[key]
            xdg = os.path.join(ctx.scratch, 'xdg', '%s_%s' % (key, seeds[0]))
            if not os.path.isdir(os.path.join(xdg, 'g-ir-scanner')):
                continue
            jobs2.setdefault(seed, []).append({'id': jid, 'xdg': xdg, 'runs': 1,
                                               'cfg': materialise(inp, os.path.join(girroot, key), use_cache=True)})
    results.update(pool.run(list(jobs2.items())))

    precedence = metamorphic.precedence
    inputs_d = dict(inputs)
    n_eval = 0
    for key, inp in inputs:
        base = results.get('%s|%s|id' % (key, seeds[0]))
        if base is None:
            continue
        n_eval += 1
        cnt.case(['input', key, inp['decls'], inp['comments']], nontrivial=len(inp['decls']) > 3)
        for f in inp['features']:
            cnt.hit('feature:' + f)
        if 'error' in base:
            # an exception escaping the pipeline: deterministic?  judged like an output
            cnt.hit('baseline:raised')
            base_out = 'RAISED ' + base['error'].split(':')[0]
        else:
            base_out = base['gir']
            # which sorted containers really had something to sort
            for t_, _n, kids_ in signature(base_out)[1]:
                per = {}
                for kt_, _kn in kids_:
                    per[kt_] = per.get(kt_, 0) + 1
                for kt_, c_ in per.items():
                    if c_ >= 2 and kt_ in SORTED_TAGS:
                        cnt.hit('siblings>=2:%s/%s' % (t_, kt_))
            for c in statement_oracle(base_out, precedence)[:3]:
                ctx.report_failure('sibling-order:%s:%s' % (key, c[:80]),
                                   'output of %s violates "sibling order is a fixed function of names and kinds": %s' % (key, c),
                                   {'kind': 'oracle', 'input': inp, 'complaint': c})
        for jid, (k2, seed, kind, v) in meta.items():
            if k2 != key or jid not in results:
                continue
            r = results[jid]
            n_eval += 1
            cnt.hit('variant:' + kind)
            cnt.hit('seed:%s' % seed)
            # an abort produces no GIR; its message may list a SET of positions: only the fact is compared
            as_out = lambda g, rr: ('RAISED ' + rr['error'].split(':')[0]) if 'error' in rr else g
            outs = [(kind, as_out(r.get('gir'), r))]
            if kind in ('cache', 'xcache'):
                if r.get('cache_files', 0) == 0:
                    cnt.hit('cache:no-entries')
                else:
                    cnt.hit('cache:warm-entries', r['cache_files'])
                girs = r.get('girs') or []
                loads = r.get('loads') or []
                if kind == 'cache' and len(girs) > 1:
                    # the first run parsed the dependencies afresh and stored them (cold), the last
                    # one loaded them: both must give the baseline's bytes
                    outs.insert(0, ('cache(cold run)', girs[0]))
                    cnt.hit('cache:cold-run-compared')
                warm = loads[-1] if loads else None
                if warm is not None:
                    cnt.hit('cache:warm-run-loads', warm[0])
                    cnt.hit('cache:warm-run-hits', warm[1])
                    cnt.hit('cache:warm-run-all-from-cache' if warm[0] and warm[0] == warm[1] else 'cache:warm-run-partly-parsed')
            invalid_c = None
            if kind in ('decls', 'decls-any') and v is not None:
                invalid_c = use_before_declaration(inp['decls']) + use_before_declaration(v['decls'])
                cnt.hit('%s:%s' % (kind, 'use-before-declaration' if invalid_c else 'declared-before-use'))
            for label, out in outs:
                if out == base_out:
                    cnt.hit('equal')
                    continue
                if kind in ('blocks', 'files') and inp.get('dup_blocks') and r.get('dup_warned') and base.get('dup_warned'):
                    cnt.hit('outside:duplicate-identifier-blocks(warned)')
                    continue
                replay = {'kind': 'meta', 'input': inp, 'variant': kind, 'variant_input': v, 'seed': seed,
                          'base_seed': seeds[0], 'first_diff': first_diff(base_out, out)}
                if invalid_c and not out.startswith('RAISED') and not base_out.startswith('RAISED') \
                        and signature(out) == signature(base_out):
                    # a declaration order no C front end delivers: the content of elements is outside
                    # the quantifier (counted, shown as a note); the sibling order was still checked
                    cnt.hit('outside:use-before-declaration,content-differs')
                    if len(metamorphic.outside_examples) < 3:
                        metamorphic.outside_examples.append(
                            'not judged: shuffle %s of %s uses %s before the typedef; same sibling order, content differs: %s'
                            % (kind, key, ', '.join(invalid_c[:3]), replay['first_diff']))
                        ctx.notes.append(metamorphic.outside_examples[-1])
                    continue
                what = ('GIR differs from the baseline (PYTHONHASHSEED=%s, unpermuted) under variant %r with PYTHONHASHSEED=%s: %s'
                        % (seeds[0], label, seed, replay['first_diff']))
                ctx.report_failure('meta:%s:%s:%s' % (hashlib.sha1(json.dumps(inp, sort_keys=True).encode()).hexdigest()[:12],
                                                      kind, seed), what, replay)
        if len(samples) < 2:
            samples.append({'op': 'metamorphic', 'input': {k: inp[k] for k in ('decls', 'comments', 'dump', 'includes',
                                                                               'packages', 'c_includes')},
                            'gir_sha1': hashlib.sha1(base_out.encode()).hexdigest()})
    return n_eval


metamorphic.precedence = {}
metamorphic.outside_examples = []


# ---------------------------------------------------------------------------------------------
# cache HISTORIES over dependency GIRs named by relative paths
#
# "... the scanner emits byte-identical GIR ... whether dependency GIRs were parsed afresh or came
# from the cache" / "for all ... cold or warm cache histories": the cache a scan finds has been
# filled by EARLIER scans -- of other projects too.  Several different builds of one dependency
# (same file name, different content) live in neighbouring directories and carry the same
# preserved time stamp (install -p, cp -p, tar, SOURCE_DATE_EPOCH builds); every scan names its
# dependency by a relative path (--include-uninstalled=../Dep-1.0.gir, or a relative -I directory
# through which an include of an include is found).  Each scan of the history must give the bytes
# of a cold scan of exactly the same configuration.
# ---------------------------------------------------------------------------------------------
REL_DEP = 'Dep-1.0.gir'
REL_COUNTS = ['guint8', 'guint16', 'guint32', 'gint32']       # width/sign decide the value of ((DepCount) -1)
REL_THINGS = ['record', 'boxed', 'enumeration']               # decides transfer / introspectable of a DepThing* return
REL_ITEMS = ['Item', 'Element', 'Entry']                      # GIR name of the C type DepItem


def rel_dep_gir(f):
    """one build of the dependency namespace Dep; the flavour f decides what the scanned namespace sees"""
    o = [GIR_HEAD, '  <namespace name="Dep" version="1.0" shared-library="" c:identifier-prefixes="Dep" c:symbol-prefixes="dep">\n']
    o.append('    <alias name="Count" c:type="DepCount"><type name="%s" c:type="%s"/></alias>\n' % (f['count'], f['count']))
    o.append('    <alias name="Handle" c:type="DepHandle"%s><type name="gpointer" c:type="gpointer"/></alias>\n'
             % (' introspectable="0"' if f['hidden'] else ''))
    k = f['thing']
    if k == 'record':
        o.append('    <record name="Thing" c:type="DepThing"/>\n')
    elif k == 'boxed':
        o.append('    <record name="Thing" c:type="DepThing" glib:type-name="DepThing" glib:get-type="dep_thing_get_type" '
                 'c:symbol-prefix="thing"/>\n')
    else:
        o.append('    <%s name="Thing" c:type="DepThing"><member name="a" value="1" c:identifier="DEP_THING_A"/></%s>\n' % (k, k))
    if f['extra']:
        o.append('    <record name="Extra" c:type="DepExtra"/>\n')
    o.append('    <record name="%s" c:type="DepItem"/>\n' % f['item'])
    o.append('  </namespace>\n</repository>\n')
    return ''.join(o)


REL_MID_GIR = GIR_HEAD + '''  <include name="Dep" version="1.0"/>
  <namespace name="Mid" version="1.0" shared-library="" c:identifier-prefixes="Mid" c:symbol-prefixes="mid">
    <alias name="Size" c:type="MidSize"><type name="Dep.Count" c:type="DepCount"/></alias>
    <record name="Box" c:type="MidBox"/>
  </namespace>
</repository>
'''

# which declarations of the scanned namespace show which property of the dependency
REL_SHOWS = {'count': ['FOO_LIMIT', 'foo_count'], 'hidden': ['foo_handle'], 'thing': ['foo_thing', 'foo_take_thing'],
             'extra': ['foo_extra'], 'item': ['foo_item']}


def rel_decls(rng, shown, via):
    def fn(name, ret, params, line):
        return {'d': 'function', 'name': name, 'ret': ret, 'params': [{'name': n, 'type': t} for n, t in params],
                'file': '/src/foo.h', 'line': line}
    every = [
        {'d': 'const', 'name': 'FOO_LIMIT', 'int': rng.choice([-1, -2, 70000, 300]), 'type': T('DepCount'),
         'file': '/src/foo.h', 'line': 3},
        fn('foo_count', T('DepCount'), [], 5),
        fn('foo_handle', T('void'), [('h', T('DepHandle'))], 7),
        fn('foo_thing', P(T('DepThing')), [], 9),
        fn('foo_take_thing', T('void'), [('t', P(T('DepThing'))), ('n', T('DepCount'))], 11),
        fn('foo_extra', T('void'), [('e', P(T('DepExtra')))], 13),
        fn('foo_item', P(T('DepItem')), [], 15),
        fn('foo_plain', T('int'), [('x', T('int'))], 17),
    ]
    if via == 'searchpath':
        every.append(fn('foo_box', T('MidSize'), [('b', P(T('MidBox')))], 19))
    need = set(n for k in shown for n in REL_SHOWS[k])
    decls = [d for d in every if d['name'] in need or rng.random() < 0.6]
    rng.shuffle(decls)
    return decls


def gen_relcache(rng, directed, via):
    """directed: the files stand in directories whose relative paths from the working directory
    differ only in leading '.' and '/' characters (Dep-1.0.gir, ./Dep-1.0.gir, ../Dep-1.0.gir,
    ../../Dep-1.0.gir; s/.., ../s/.., ../../s/..) and carry the SAME st_mtime_ns."""
    a, b, s = rng.sample(['a', 'b', 'sub', 'build', 'gir', 'x', 'proj', 'deps', 'out', 'v2'], 3)
    cwd = '%s/%s' % (a, b)
    chain = [cwd, a, '.']                                        # cwd, cwd/.., cwd/../..
    schain = ['%s/%s' % (cwd, s), '%s/%s' % (a, s), s]           # cwd/s, cwd/../s, cwd/../../s
    nfiles = rng.choice([2, 2, 3])
    if directed:
        pool_ = rng.choice([chain, chain, schain])
        dirs = rng.sample(pool_, 2)
        if nfiles == 3:
            dirs.append(rng.choice([d for d in chain + schain if d not in dirs]))
    else:
        dirs = rng.sample(chain + schain, nfiles)
    # flavours: pairwise different in at least one property the scanned namespace shows
    flavours, shown = rel_flavours(rng, nfiles)
    if directed or rng.random() < 0.5:
        stamp = rng.choice([1700000000, 315532800, 1]) * 10 ** 9 + rng.choice([0, 0, 123456789])
        mtimes = [stamp] * nfiles
    else:
        mtimes = [(1600000000 + 1000 * i) * 10 ** 9 for i in range(nfiles)]
        rng.shuffle(mtimes)

    def spell(d):
        rel = os.path.relpath(d, cwd)
        if via == 'searchpath':
            # a relative include directory; Transformer._find_include joins it with the file name
            pre = rng.choice(['', '', './', './/', '././']) if rel != '.' else rng.choice(['', '', './', './/'])
            return (pre + rel) + rng.choice(['', '', '/'])
        p = REL_DEP if rel == '.' else rel + '/' + REL_DEP
        r_ = rng.random()
        if r_ < 0.08:
            return '/ABS/' + d            # the absolute path (root filled in when the tree is written)
        if r_ < 0.16:
            return '../%s/%s' % (b, p)    # up and back into the working directory first
        return rng.choice(['', '', './', './/', '././']) + p
    # the history: every file is scanned at least once, the first two steps name different files,
    # then further scans of any file under any spelling (a repeated spelling is a plain cache hit)
    order = list(range(nfiles))
    rng.shuffle(order)
    order += [rng.randrange(nfiles) for _ in range(rng.choice([2, 3, 4]))]
    steps = [{'file': i, 'spelling': spell(dirs[i])} for i in order]
    if rng.random() < 0.7:
        steps.append(dict(steps[0]))
    return {'cwd': cwd, 'files': [{'dir': d, 'flavour': f, 'mtime_ns': mt} for d, f, mt in zip(dirs, flavours, mtimes)],
            'via': via, 'decls': rel_decls(rng, shown, via), 'steps': steps, 'directed': bool(directed),
            'extra_dirs': schain + chain}


def rel_flavours(rng, nfiles):
    """nfiles builds of Dep, pairwise different in a property the scanned namespace shows; (flavours, shown)"""
    base = {'count': rng.choice(REL_COUNTS), 'hidden': rng.random() < 0.3, 'thing': rng.choice(REL_THINGS),
            'extra': rng.random() < 0.7, 'item': rng.choice(REL_ITEMS)}
    flavours = [base]
    shown = set()
    while len(flavours) < nfiles:
        f = dict(base)
        for k in rng.sample(sorted(REL_SHOWS), rng.choice([1, 1, 2, 3])):
            if k == 'count':
                f[k] = rng.choice([c for c in REL_COUNTS if c != base[k]])
            elif k == 'thing':
                f[k] = rng.choice([c for c in REL_THINGS if c != base[k]])
            elif k == 'item':
                f[k] = rng.choice([c for c in REL_ITEMS if c != base[k]])
            else:
                f[k] = not base[k]
        if f in flavours:
            continue
        shown.update(k for k in REL_SHOWS if any(f[k] != g[k] for g in flavours))
        flavours.append(f)
    return flavours, shown


def gen_relcwd(rng, via, same_mtime=True):
    """the scans of one history run from SEVERAL working directories (two projects built one after the
    other by one user): the same relative spelling (Dep-1.0.gir, ../Dep-1.0.gir, s/Dep-1.0.gir, ..)
    names a different build of the dependency from each of them, all with the same st_mtime_ns."""
    nfiles = rng.choice([2, 2, 3])
    projs = rng.sample(['projA', 'projB', 'a', 'b', 'x', 'v2', 'out', 'deps', 'gir'], nfiles)
    builds = [rng.choice(['build', '_build', 'b'])] * nfiles if rng.random() < 0.5 else \
        rng.sample(['build', 'bld', 'obj', 'o', 'w'], nfiles)
    cwds = ['%s/%s' % (p_, b_) for p_, b_ in zip(projs, builds)]
    s = rng.choice(['s', 'sub', 'girs'])
    rel = rng.choice(['.', '.', '..', s, '../' + s])
    dirs = [os.path.normpath(os.path.join(w, rel)) for w in cwds]
    flavours, shown = rel_flavours(rng, nfiles)
    if same_mtime:
        stamp = rng.choice([1700000000, 315532800, 1]) * 10 ** 9 + rng.choice([0, 0, 123456789])
        mtimes = [stamp] * nfiles
    else:
        mtimes = [(1600000000 + 1000 * i) * 10 ** 9 for i in range(nfiles)]
        rng.shuffle(mtimes)

    def spell(rel_):
        if via == 'searchpath':
            pre = rng.choice(['', '', './', './/', '././']) if rel_ != '.' else rng.choice(['', '', './', './/'])
            return (pre + rel_) + rng.choice(['', '', '/'])
        p = REL_DEP if rel_ == '.' else rel_ + '/' + REL_DEP
        return rng.choice(['', '', '', './', './/']) + p
    shared = spell(rel)
    order = list(range(nfiles))
    rng.shuffle(order)
    # every project scans its own build under the SAME spelling, one after the other ...
    steps = [{'cwd': cwds[i], 'file': i, 'spelling': shared} for i in order]
    # ... then further scans: a project's own build again (shared or another spelling), or the build of
    # another project named by its relative path from here
    for _ in range(rng.choice([1, 2, 3])):
        w = rng.randrange(nfiles)
        k = w if rng.random() < 0.6 else rng.randrange(nfiles)
        if k == w and rng.random() < 0.5:
            steps.append({'cwd': cwds[w], 'file': k, 'spelling': shared})
        else:
            steps.append({'cwd': cwds[w], 'file': k, 'spelling': spell(os.path.relpath(dirs[k], cwds[w]))})
    if rng.random() < 0.7:
        steps.append(dict(steps[0]))
    extra = cwds + [os.path.join(w, s) for w in cwds] + [os.path.join(p_, s) for p_ in projs]
    return {'cwd': cwds[0], 'files': [{'dir': d, 'flavour': f, 'mtime_ns': mt} for d, f, mt in zip(dirs, flavours, mtimes)],
            'via': via, 'decls': rel_decls(rng, shown, via), 'steps': steps, 'directed': 'cwds', 'extra_dirs': extra}


def rel_materialise(sc, root):
    """writes the tree of one scenario under root; returns the runner job (without id)"""
    for d in sc['extra_dirs'] + [sc['cwd']] + [st['cwd'] for st in sc['steps'] if st.get('cwd')] \
            + [fl['dir'] for fl in sc['files']]:
        os.makedirs(os.path.join(root, 'tree', d), exist_ok=True)
    tree = os.path.realpath(os.path.join(root, 'tree'))
    paths = []
    for fl in sc['files']:
        p = os.path.join(tree, fl['dir'], REL_DEP)
        with open(p, 'w', encoding='utf-8') as f:
            f.write(rel_dep_gir(fl['flavour']))
        os.utime(p, ns=(fl['mtime_ns'], fl['mtime_ns']))
        paths.append(p)
    mid = os.path.join(root, 'mid')
    os.makedirs(mid, exist_ok=True)
    with open(os.path.join(mid, 'Mid-1.0.gir'), 'w', encoding='utf-8') as f:
        f.write(REL_MID_GIR)
    cfgs = []
    for st in sc['steps']:
        cwd = os.path.join(tree, st.get('cwd') or sc['cwd'])
        sp = st['spelling']
        if sp.startswith('/ABS/'):
            sp = os.path.join(tree, sp[5:], REL_DEP)
        cfg = {'namespace': 'Foo', 'decls': sc['decls'], 'comments': [], 'sources_top_dirs': ['/src']}
        if sc['via'] == 'searchpath':
            named = os.path.join(sp, REL_DEP)
            cfg['include_paths'] = [sp]
            cfg['includes'] = [os.path.join(mid, 'Mid-1.0.gir')]
        else:
            named = sp
            cfg['include_paths'] = []
            cfg['includes'] = [sp]
        # the generator's own bookkeeping: the spelling names the file it is meant to name
        if not os.path.samefile(os.path.join(cwd, named), paths[st['file']]):
            raise HarnessError('relcache: %r from %r does not name %r' % (named, cwd, paths[st['file']]))
        cfg['_cwd'] = cwd
        cfgs.append(cfg)
    return {'cwd': os.path.join(tree, sc['cwd']), 'xdg': os.path.join(root, 'xdg'), 'steps': cfgs}


def rel_key(sc):
    return hashlib.sha1(json.dumps(sc, sort_keys=True).encode()).hexdigest()[:12]


def rel_describe(sc, i):
    st = sc['steps'][i]
    hist = ', '.join('%s(file %d, from <tree>/%s)' % (s['spelling'], s['file'], s.get('cwd') or sc['cwd'])
                     for s in sc['steps'][:i]) or 'none'
    return ('scan %d of a cache history, run from <tree>/%s with the dependency named %s%r (file %d in <tree>/%s, '
            'mtime_ns %d); earlier cached scans: %s; files: %s'
            % (i, st.get('cwd') or sc['cwd'], 'through the include directory ' if sc['via'] == 'searchpath' else '', st['spelling'],
               st['file'], sc['files'][st['file']]['dir'], sc['files'][st['file']]['mtime_ns'], hist,
               '; '.join('%d=<tree>/%s/%s mtime_ns %d' % (k, f['dir'], REL_DEP, f['mtime_ns'])
                         for k, f in enumerate(sc['files']))))


def rel_judge(ctx, cnt, sc, r, seed):
    """every scan of the history against the cold scan of the same configuration; returns #evaluations"""
    if 'error' in r:
        raise HarnessError('relcache runner failed: %s\n%s' % (r['error'], r.get('trace', '')))
    n = 0
    cold, warm, loads = r['cold'], r['warm'], r.get('loads') or []
    per_file = {}
    for st, c in zip(sc['steps'], cold):
        per_file.setdefault(st['file'], c)
    if len(set(per_file.values())) == len(per_file) and len(per_file) > 1:
        cnt.hit('relcache:files-distinguishable-in-cold-output')
    else:
        cnt.hit('relcache:files-not-distinguishable')
    if any(c.startswith('RAISED') for c in cold):
        cnt.hit('relcache:cold-raised')
    reported = False
    seen = set()
    for i, (st, c, w) in enumerate(zip(sc['steps'], cold, warm)):
        n += 1
        ld = loads[i] if i < len(loads) else None
        if ld is not None:
            cnt.hit('relcache:loads', ld[0])
            cnt.hit('relcache:hits', ld[1])
            if (st['file'], st['spelling'], st.get('cwd')) in seen and ld[1]:
                cnt.hit('relcache:repeated-spelling-answered-from-cache')
        seen.add((st['file'], st['spelling'], st.get('cwd')))
        if c == w:
            cnt.hit('relcache:equal')
            continue
        cnt.hit('relcache:differs')
        if reported:
            continue
        reported = True
        ctx.report_failure('relcache:%s:step%d' % (rel_key(sc), i),
                           'GIR of a scan with the cache enabled differs from the cold scan of the same inputs '
                           '("whether dependency GIRs were parsed afresh or came from the cache"): %s: %s (cold vs warm)'
                           % (first_diff(c, w), rel_describe(sc, i)),
                           {'kind': 'relcache', 'scenario': sc, 'seed': seed, 'step': i, 'first_diff': first_diff(c, w)})
    return n


def relcache(ctx, cnt, pool, rng, seeds, count, samples):
    scs = load_rel_corpus()
    cnt.hit('relcache:corpus-scenarios', len(scs))
    for i in range(count):
        # three out of four: the directed class (same mtime, paths differing in leading '.'/'/' only)
        scs.append(gen_relcache(rng, directed=(i % 4 != 3), via=('searchpath' if i % 3 == 2 else 'uninstalled')))
    for i in range(max(4, count // 2)):
        # histories run from several working directories: one relative spelling, a different file from each
        scs.append(gen_relcwd(rng, via=('searchpath' if i % 3 == 2 else 'uninstalled'), same_mtime=(i % 4 != 3)))
    jobs = {}
    meta = {}
    for i, sc in enumerate(scs):
        seed = seeds[i % min(2, len(seeds))]
        job = rel_materialise(sc, os.path.join(ctx.scratch, 'relcache', 'r%d' % i))
        job['id'] = 'rel%d' % i
        jobs.setdefault(seed, []).append(job)
        meta[job['id']] = (sc, seed)
    res = pool.run(list(jobs.items()))
    n = 0
    for jid, (sc, seed) in meta.items():
        cnt.case(['relcache', sc], nontrivial=True)
        cnt.hit('relcache:scenario:%s:%s:%d-files:%s' % (sc['directed'] if isinstance(sc['directed'], str) else
                                                       'directed' if sc['directed'] else 'free', sc['via'], len(sc['files']),
                                                       'same-mtime' if len(set(f['mtime_ns'] for f in sc['files'])) == 1 else 'mtimes-differ'))
        cnt.hit('relcache:first-cached:%s' % os.path.relpath(sc['files'][sc['steps'][0]['file']]['dir'],
                                                             sc['steps'][0].get('cwd') or sc['cwd']))
        if len(set(st.get('cwd') or sc['cwd'] for st in sc['steps'])) > 1:
            cnt.hit('relcache:history-from-several-working-directories')
            by_sp = {}
            for st in sc['steps']:
                by_sp.setdefault(st['spelling'], set()).add(st['file'])
            if any(len(v) > 1 for v in by_sp.values()):
                cnt.hit('relcache:one-spelling-names-several-files')
        n += rel_judge(ctx, cnt, sc, res[jid], seed)
    if scs and len(samples) < 4:
        samples.append({'op': 'relcache', 'scenario': {k: scs[0][k] for k in ('cwd', 'files', 'via', 'steps')}})
    if scs and not cnt.counts.get('relcache:files-distinguishable-in-cold-output'):
        ctx.broken.append('cache histories over relative paths not exercised: in no scenario did the cold outputs tell '
                          'the dependency files apart')
    if scs and 'relcache:loads' in cnt.counts and not cnt.counts.get('relcache:hits'):
        ctx.broken.append('cache histories over relative paths not exercised: no scan of a history was answered from the cache')
    return n


def load_rel_corpus():
    """hand-picked cache histories (scenario objects of the relcache stage): corpus/C16/relcache/*.json"""
    cpath = os.path.join(VERIF, 'corpus', 'C16', 'relcache')
    out = []
    if os.path.isdir(cpath):
        for fn in sorted(os.listdir(cpath)):
            if fn.endswith('.json'):
                with open(os.path.join(cpath, fn)) as f:
                    for c in json.load(f):
                        c.pop('comment', None)
                        c.setdefault('directed', 'corpus')
                        c.setdefault('extra_dirs', [])
                        out.append(c)
    return out


def load_corpus():
    cpath = os.path.join(VERIF, 'corpus', 'C16')
    out = []
    if os.path.isdir(cpath):
        for fn in sorted(os.listdir(cpath)):
            if fn.endswith('.json'):
                with open(os.path.join(cpath, fn)) as f:
                    for i, c in enumerate(json.load(f)):
                        out.append(('corpus_%s_%d' % (fn[:-5], i), c))
    return out


def normalise_input(inp):
    inp.setdefault('comments', [])
    inp.setdefault('dump', [])
    inp.setdefault('deps', {})
    inp.setdefault('includes', [])
    inp.setdefault('packages', [])
    inp.setdefault('c_includes', [])
    inp.setdefault('tags', {})
    inp.setdefault('ambiguous', [])
    inp.setdefault('dup_blocks', False)
    inp.setdefault('features', [])
    return inp


def run(ctx):
    cnt = Counter()
    for k, what in PENDING_FINDINGS.items():
        ctx.known.append({'key': k, 'status': 'known', 'what': what + ' [pending: reported, not yet in known_findings.json]'})
    ctx.prove(['gen_order'], ['GIVerif.Props.C16'], 'GIVerif.Props.C16')
    ctx.log('tables regenerated, proofs rebuilt and audited')
    rng = ctx.rng
    samples = []
    total = 0

    # ---- correspondence (model vs real code), in-process
    try:
        total += corr_basic(ctx, cnt, rng)
        total += corr_tagns(ctx, cnt, rng)
        total += corr_blocks(ctx, cnt, rng)
        total += corr_includes(ctx, cnt, rng, os.path.join(ctx.scratch, 'corr'))
    except HarnessError:
        raise
    except Exception as e:  # a tie that cannot run is a broken tie; the search below still runs
        ctx.broken.append('correspondence aborted: %s: %s' % (type(e).__name__, str(e)[:300]))
        ctx.log(traceback.format_exc()[-1500:])

    # ---- inputs: corpus first, then the seeded generator
    corpus = [(k, normalise_input(c)) for k, c in load_corpus()]
    n_in = ctx.n(60, 1000)
    inputs = list(corpus)
    for i in range(n_in):
        inputs.append(('g%d' % i, gen_input(rng)))
    try:
        wdir = write_deps({'deps': {}}, os.path.join(ctx.scratch, 'wgir'))
        sub = [inp for _k, inp in inputs if not inp['deps']][:ctx.n(25, 300)]
        total += corr_writer(ctx, cnt, sub, wdir)
    except HarnessError:
        raise
    except Exception as e:
        ctx.broken.append('correspondence c16.write_namespace aborted: %s: %s' % (type(e).__name__, str(e)[:300]))
        ctx.log(traceback.format_exc()[-1500:])
    try:
        fx = [(k, inp) for k, inp in inputs if any(f.startswith(('alias-chain', 'corpus:alias-chain', 'deps:rich', 'corpus:rich'))
                                                    for f in inp['features'])][:ctx.n(14, 150)]
        total += corr_fixpoint(ctx, cnt, rng, fx, os.path.join(ctx.scratch, 'fxgir'))
    except HarnessError:
        raise
    except Exception as e:
        ctx.broken.append('correspondence c16.fixpoint aborted: %s: %s' % (type(e).__name__, str(e)[:300]))
        ctx.log(traceback.format_exc()[-1500:])
    ctx.log('correspondence done (%d comparisons), starting metamorphic runs' % total)

    # ---- metamorphic validation in fresh subprocesses
    seeds = [0, 1, 2, 3] if ctx.quick() else list(range(16))
    # seeds are PYTHONHASHSEED values; rotate them with VERIF_SEED so that different runs see different hash orders
    seeds = [(s + 16 * ctx.seed) % 4294967295 for s in seeds]
    nperm = 3 if ctx.quick() else 6
    pool = Pool(ctx)
    chunk = 200
    n_eval = 0
    inputs_run = 0
    import time
    for i in range(0, len(inputs), chunk):
        # wall-clock guard (thorough must end within 15 min on a loaded machine too): a chunk takes
        # 2-5 min; no new chunk is started once 8 min have passed.  The corpus is in the first chunk.
        if i > 0 and time.time() - ctx.t0 > 480:
            ctx.log('time budget reached: %d of %d generated inputs were run' % (inputs_run, len(inputs)))
            break
        n_eval += metamorphic(ctx, cnt, pool, inputs[i:i + chunk], seeds, nperm, rng, samples)
        inputs_run = min(i + chunk, len(inputs))
        ctx.log('metamorphic: %d/%d inputs, %d scans compared, %d subprocesses' % (inputs_run, len(inputs), n_eval, pool.spawned))
    total += n_eval
    # ---- positions that tie on (base name, line, column): the choice among the members of the position
    # SET shows as a difference between hash seeds only when two seeds order the set differently (about
    # half of the seeds each way for two positions): the directed corpus cases and a few generated inputs
    # with such tags are scanned unpermuted under 8 further PYTHONHASHSEED values
    tie_inputs = [(k + '_t', inp) for k, inp in corpus if any(f.startswith('corpus:same-basename') for f in inp['features'])]
    for i in range(ctx.n(4, 40)):
        tie_inputs.append(('t%d' % i, gen_input(rng, tie=rng.choice([1, 1, 2]))))
    tie_seeds = [(100 + s + 16 * ctx.seed) % 4294967295 for s in range(8 if ctx.quick() else 16)]
    n_tie = metamorphic(ctx, cnt, pool, tie_inputs, tie_seeds, 0, rng, samples)
    total += n_tie
    ctx.log('same-base-name positions: %d inputs, %d scans compared under %d hash seeds' % (len(tie_inputs), n_tie, len(tie_seeds)))
    # ---- cache histories: several builds of one dependency, named by relative paths, cached one after the other
    n_rel = relcache(ctx, cnt, pool, rng, seeds, ctx.n(24, 160), samples)
    total += n_rel
    ctx.log('cache histories over relative dependency paths: %d scans compared with their cold scan' % n_rel)
    # the cold/warm comparison says nothing if the warm runs never got an answer from the cache
    if cnt.counts.get('variant:cache', 0) + cnt.counts.get('variant:xcache', 0) > 0 \
            and 'cache:warm-run-loads' in cnt.counts and cnt.counts.get('cache:warm-run-hits', 0) == 0:
        ctx.broken.append('cache transparency not exercised: no warm run was answered from the cache (CacheStore.load '
                          'returned None every time)')

    samples.append({'op': 'c16.parse', 'syms': [{'s': 'typedef', 'kind': 'record', 'ident': 'FooT', 'tag': '_FooT', 'file': 'a.h', 'line': 3},
                                               {'s': 'struct', 'kind': 'record', 'tag': '_FooT', 'fields': ['x'], 'file': 'b.h', 'line': 7}]})
    ctx.coverage.update({
        'evaluations': total,
        'distinct_nontrivial': cnt.n_distinct(),
        'rule': 'correspondence streams (model vs real code): random string pairs, sorted(set(list)), Include sets, position '
                'sets for get_main_position, typedef/struct symbol sequences through Transformer.parse, comment block lists '
                'through parse_comment_blocks, generated include DAGs through _parse_include/_resolve_type_from_ctype, live '
                'namespaces through GIRWriter, the loop of IntrospectablePass.validate (start flags and fixed type answers '
                'read off the real objects) on namespaces in declared / shuffled / reversed declaration order. Metamorphic stream (validated, not proved): corpus + seeded inputs (compounds '
                'in all typedef/struct orders incl. tags seen at several positions, two typedefs of a tag, methods/ctors/'
                'functions, enums, aliases, constants, callbacks, classes and interfaces with properties/signals/interfaces '
                'from a dump, GType-registered enumerations and flags with 2-6 paired static functions declared out of name '
                'order over several headers, boxed-registered records / unions with several constructors, a dump-only boxed '
                'type, static functions of classes and interfaces (every container kind gets >= 2 children of every sorted '
                'kind: distribution siblings>=2:*), comment blocks in several files, dependency GIR DAGs, a dependency GIR with a node of every '
                'kind (alias, bitfield, enumeration, callback, class, interface, record, union, glib:boxed, constant, '
                'function, function-macro, docsection; introspectable=0 / disguised / pointer / foreign / fundamental '
                'flavours) used by value, by pointer, as callback, as parent class and interface, alias chains up to 4 deep '
                'over introspectable and non-introspectable roots with the callables using them, doc text / string '
                'constants / package and c:include names with CR LF TAB quotes & < > non-ASCII, packages/c:includes with '
                'duplicates); each input is scanned by the REAL pipeline in fresh subprocesses under %d PYTHONHASHSEED '
                'values x (identity + %d permutation variants out of blocks/files/tagorder/tagmove/lists/cache/xcache/decls '
                '+ one of dump/decls-any/decls) and compared byte for byte with the baseline (cache: the cold storing run '
                'and the warm loading run, xcache: a cache written by a process with another hash seed); plus the '
                'statement oracle (sibling order = function of names and kinds, keys pairwise distinct) on every baseline '
                'output. Cache histories (relcache:*): 2-3 different builds of one dependency GIR (alias width, '
                'introspectable alias, record/boxed/enumeration, a missing record, a renamed record) in directories whose '
                'relative paths from the working directory differ only in leading . and / (x, ./x, ../x, ../../x, s/x, '
                '../s/x) with the SAME st_mtime_ns (3 of 4 scenarios; the rest any directories / differing mtimes), named '
                'by --include-uninstalled spellings or found through a relative include directory as the include of an '
                'include; the scans of a random history (which file is cached first varies) run from that working '
                'directory with the real CacheStore, each compared byte for byte with the cold scan of the same '
                'configuration; plus histories whose scans run from 2-3 different working directories, where ONE relative '
                'spelling (x, ../x, s/x, ../s/x, or a relative include directory) names a different build of the dependency '
                'from each directory (same st_mtime_ns in 3 of 4), followed by scans naming any of the builds by its relative '
                'path from any of the directories; hand-picked histories of corpus/C16/relcache run first. non-trivial = more than 3 declarations / more than one element; distinct by content hash.'
                % (len(seeds), nperm),
        'samples': samples,
        'distribution': cnt.counts,
        'corpus_cases': len(corpus),
        'inputs_planned': len(inputs),
        'inputs_run': inputs_run,
        'subprocesses': pool.spawned,
        'hash_seeds': seeds,
        'exhaustive': False,
        'validated_only': 'determinism across interpreter processes, PYTHONHASHSEED values and cold/warm cache histories is a '
                          'runtime fact: validated metamorphically on the real pipeline, not proved',
        'pending_findings': sorted(PENDING_FINDINGS),
        'element_group_orders': {k: sorted('%s<%s' % p for p in v) for k, v in metamorphic.precedence.items()},
        'outside_examples': list(metamorphic.outside_examples),
    })
    ctx.assumptions.extend([
        'the C lexer is not run: inputs start at the symbol stream (scanpipe builds the symbols the lexer would deliver)',
        'sort keys of siblings are pairwise distinct (checked on every baseline output by the statement oracle)',
        'comment blocks with duplicated identifiers are flagged by the parser ("multiple comment blocks") and counted '
        'outside the quantifier when both orders were warned about',
        'swapping two typedefs of ONE tag is not claimed symmetric (first typedef is the primary record by design)',
        'whole-declaration shuffles and dump shuffles are judged byte for byte as long as every typedef name is declared '
        'before it is used (struct tags may be used before their definition; the typedefs of one tag keep their relative '
        'order); a shuffled order that uses a typedef name before its typedef is a symbol stream no C front end delivers '
        '(the lexer knows a type name only after its typedef): there only the sibling order is judged, a content '
        'difference is counted as outside:use-before-declaration,content-differs',
        'Python `sorted` is modelled by a stable insertion sort (unique result for a total preorder); CPython set iteration '
        'order is modelled as an arbitrary permutation',
    ])


def replay(ctx, rep):
    r = rep['replay']
    for k, what in PENDING_FINDINGS.items():
        ctx.known.append({'key': k, 'status': 'known', 'what': what})
    if r.get('kind') == 'main_position':
        import itertools
        m = scanpipe.mods()
        outs = set()
        for order in itertools.islice(itertools.permutations(r['positions']), 720):
            node = m.ast.Node('x')
            node.file_positions = [m.message.Position(f or None, l or None, c or None, is_typedef=t) for f, l, c, t in order]
            p = node.get_main_position()
            outs.add(None if p is None else (p.filename, p.line, p.column))
        print('get_main_position over all iteration orders ->', sorted(outs, key=repr))
        return 1 if len(outs) > 1 else 0
    if r.get('kind') == 'oracle':
        girdir = write_deps(r['input'], os.path.join(ctx.scratch, 'gir'))
        out = scanpipe.scan(materialise(r['input'], girdir))['gir']
        bad = statement_oracle(out, {})
        print('\n'.join(bad) or 'oracle satisfied')
        return 1 if bad else 0
    if r.get('kind') == 'relcache':
        pool = Pool(ctx, workers=1)
        sc = r['scenario']
        job = rel_materialise(sc, os.path.join(ctx.scratch, 'relcache'))
        job['id'] = 'rel'
        res = pool.run([(r.get('seed', 0), [job])])['rel']
        if 'error' in res:
            print('runner failed: ' + res['error'])
            return 2
        bad = 0
        for i, (c, w) in enumerate(zip(res['cold'], res['warm'])):
            same = c == w
            print('scan %d from %-14s %-28r file %d  loads/hits %s  %s' % (i, sc['steps'][i].get('cwd') or sc['cwd'],
                                                              sc['steps'][i]['spelling'], sc['steps'][i]['file'],
                                                              (res.get('loads') or [None] * 99)[i],
                                                              'identical to the cold scan' if same else
                                                              'DIFFERENT from the cold scan: ' + first_diff(c, w)))
            bad += 0 if same else 1
        return 1 if bad else 0
    if r.get('kind') == 'meta':
        pool = Pool(ctx, workers=2)
        inp = r['input']
        girdir = write_deps(inp, os.path.join(ctx.scratch, 'gir'))
        v = r.get('variant_input') or inp
        jobs_a = [{'id': 'base', 'cfg': materialise(inp, girdir)}]
        jb = {'id': 'var', 'cfg': materialise(v, girdir, use_cache=r['variant'] in ('cache', 'xcache'))}
        if r['variant'] in ('cache', 'xcache'):
            jb['xdg'] = os.path.join(ctx.scratch, 'xdg')
            jb['runs'] = 2
        res = pool.run([(r['base_seed'], jobs_a), (r['seed'], [jb])])
        a = res['base'].get('gir') or res['base'].get('error')
        b = res['var'].get('gir') or res['var'].get('error')
        if a == b:
            print('outputs identical (seed %s vs %s, variant %s)' % (r['base_seed'], r['seed'], r['variant']))
            # hash-order effects: sweep a few more seeds
            for s in range(8):
                rr = pool.run([(s, [dict(jb, id='v%d' % s)])])
                c = rr['v%d' % s].get('gir') or rr['v%d' % s].get('error')
                if c != a:
                    print('differs under PYTHONHASHSEED=%d: %s' % (s, first_diff(a, c)))
                    return 1
            return 0
        print('DIFFERENT: ' + first_diff(a, b))
        return 1
    return 2
