"""C02 — Undocumented APIs get the documented default ownership, types and roles.

Proof: lean/GIVerif/Props/C02.lean over the models lean/GIVerif/Model/Types.lean (C type tree ->
GI type + c:type) and lean/GIVerif/Model/Defaults.lean (transfer defaults, callback / closure /
destroy / async pass, throws pass, nullable rules).
Tie: (1) translators gen_typenames / gen_defaults re-read ast.type_names, the literal names and the
control-flow skeletons of the modelled functions from /repo on every run; (2) correspondence:
un-annotated declarations through the REAL pipeline (scanpipe -> GIR -> ElementTree) against the
model's `scanCallable` / `createMember` / `plainType`, plus direct calls of
Transformer._canonicalize_ctype, create_type_from_ctype_string and
MainTransformer._get_transfer_default on real objects; (3) an oracle written from the property
statement and giannotations.rst, evaluated on the real GIR for every case (failing-input search).
"""
import itertools
import json
import os
import sys
import time

from core import Counter
import scanpipe
from scanpipe import Q_CONST, Q_VOLATILE, q as qn

HERE = os.path.dirname(os.path.abspath(__file__))

# Genuine deviations of the unchanged code from the statement, reported in the final message of the
# build; the integrator moves them to known_findings.json or commits a fix.
# (none at present: the qualified-void c:type finding was repaired by /repo 1f72dc6, the alias-of-alias
# return default by /repo 11a984f; both input classes are judged by the ordinary oracle, regression cases in
# corpus/C02/qualified_void.json and corpus/C02/alias_chains.json.)
PENDING_FINDINGS = {}

# ------------------------------------------------------------------ include GIRs (generated)
HDR = '''<?xml version="1.0"?>
<repository version="1.2" xmlns="http://www.gtk.org/introspection/core/1.0"
  xmlns:c="http://www.gtk.org/introspection/c/1.0" xmlns:glib="http://www.gtk.org/introspection/glib/1.0">
'''
GLIB_GIR = HDR + '''<namespace name="GLib" version="2.0" shared-library="libglib-2.0.so.0"
   c:identifier-prefixes="G" c:symbol-prefixes="g,glib">
 <callback name="DestroyNotify" c:type="GDestroyNotify">
  <return-value transfer-ownership="none"><type name="none" c:type="void"/></return-value>
  <parameters><parameter name="data" transfer-ownership="none" nullable="1" allow-none="1">
   <type name="gpointer" c:type="gpointer"/></parameter></parameters>
 </callback>
 <callback name="Func" c:type="GFunc">
  <return-value transfer-ownership="none"><type name="none" c:type="void"/></return-value>
  <parameters><parameter name="data" transfer-ownership="none" nullable="1" allow-none="1">
   <type name="gpointer" c:type="gpointer"/></parameter>
   <parameter name="user_data" transfer-ownership="none" nullable="1" allow-none="1" closure="1">
   <type name="gpointer" c:type="gpointer"/></parameter></parameters>
 </callback>
 <record name="Error" c:type="GError" glib:type-name="GError" glib:get-type="g_error_get_type" c:symbol-prefix="error">
  <field name="domain" writable="1"><type name="guint32" c:type="GQuark"/></field>
  <field name="code" writable="1"><type name="gint" c:type="gint"/></field>
  <field name="message" writable="1"><type name="utf8" c:type="gchar*"/></field>
 </record>
 <record name="Variant" c:type="GVariant" glib:type-name="GVariant" glib:get-type="intern" c:symbol-prefix="variant"/>
 <record name="Bytes" c:type="GBytes" glib:type-name="GBytes" glib:get-type="g_bytes_get_type" c:symbol-prefix="bytes"/>
 <record name="Mutex" c:type="GMutex"/>
 <alias name="Quark" c:type="GQuark"><type name="guint32" c:type="guint32"/></alias>
 <enumeration name="SeekType" c:type="GSeekType"><member name="cur" value="0" c:identifier="G_SEEK_CUR"/></enumeration>
 <bitfield name="IOCondition" c:type="GIOCondition" glib:type-name="GIOCondition" glib:get-type="g_io_condition_get_type"><member name="in" value="1" c:identifier="G_IO_IN"/></bitfield>
</namespace></repository>
'''
GOBJECT_GIR = HDR + '''<include name="GLib" version="2.0"/>
<namespace name="GObject" version="2.0" shared-library="libgobject-2.0.so.0"
   c:identifier-prefixes="G" c:symbol-prefixes="g">
 <class name="Object" c:symbol-prefix="object" c:type="GObject" glib:type-name="GObject" glib:get-type="g_object_get_type"/>
 <class name="InitiallyUnowned" c:symbol-prefix="initially_unowned" c:type="GInitiallyUnowned" parent="Object"
   glib:type-name="GInitiallyUnowned" glib:get-type="g_initially_unowned_get_type"/>
 <glib:boxed glib:name="Closure" c:symbol-prefix="closure" glib:type-name="GClosure" glib:get-type="g_closure_get_type"/>
 <record name="Value" c:type="GValue" glib:type-name="GValue" glib:get-type="g_value_get_type" c:symbol-prefix="value"/>
</namespace></repository>
'''
GIO_GIR = HDR + '''<include name="GObject" version="2.0"/>
<namespace name="Gio" version="2.0" shared-library="libgio-2.0.so.0"
   c:identifier-prefixes="G" c:symbol-prefixes="g">
 <interface name="AsyncResult" c:symbol-prefix="async_result" c:type="GAsyncResult" glib:type-name="GAsyncResult" glib:get-type="g_async_result_get_type"/>
 <class name="Cancellable" c:symbol-prefix="cancellable" c:type="GCancellable" parent="GObject.Object"
   glib:type-name="GCancellable" glib:get-type="g_cancellable_get_type"/>
 <class name="Floaty" c:symbol-prefix="floaty" c:type="GFloaty" parent="GObject.InitiallyUnowned"
   glib:type-name="GFloaty" glib:get-type="g_floaty_get_type"/>
 <callback name="AsyncReadyCallback" c:type="GAsyncReadyCallback">
  <return-value transfer-ownership="none"><type name="none" c:type="void"/></return-value>
  <parameters>
   <parameter name="source_object" transfer-ownership="none" nullable="1" allow-none="1"><type name="GObject.Object" c:type="GObject*"/></parameter>
   <parameter name="res" transfer-ownership="none"><type name="AsyncResult" c:type="GAsyncResult*"/></parameter>
   <parameter name="data" transfer-ownership="none" nullable="1" allow-none="1" closure="2"><type name="gpointer" c:type="gpointer"/></parameter>
  </parameters>
 </callback>
</namespace></repository>
'''


def write_includes(d):
    os.makedirs(d, exist_ok=True)
    for n, t in (('GLib-2.0.gir', GLIB_GIR), ('GObject-2.0.gir', GOBJECT_GIR), ('Gio-2.0.gir', GIO_GIR)):
        with open(os.path.join(d, n), 'w') as f:
            f.write(t)
    return [os.path.join(d, 'Gio-2.0.gir')]


# ------------------------------------------------------------------ C type trees
C_KEYWORDS = {'char', 'short', 'int', 'long', 'signed', 'unsigned', 'float', 'double', '_Bool', 'bool'}


def leaf(spelling):
    """leaf node for a base spelling (no stars)"""
    if isinstance(spelling, dict):
        return dict(spelling)
    if spelling == 'void':
        return {'k': 'void'}
    if all(w in C_KEYWORDS for w in spelling.split()):
        return {'k': 'basic', 'n': spelling}
    return {'k': 'typedef', 'n': spelling}


def mk(base, quals):
    """base leaf with quals[0]; then one pointer level per further entry (innermost first)"""
    t = dict(leaf(base), q=quals[0])
    for qq in quals[1:]:
        t = {'k': 'ptr', 'to': t, 'q': qq}
    return t


FUNC_LEAF = {'k': 'func', 'ret': {'k': 'void'}, 'params': []}

PRELUDE = [
    {'d': 'typedef', 'name': 'FooCb', 'type': {'k': 'ptr', 'to': {
        'k': 'func', 'ret': {'k': 'void'},
        'params': [{'name': 'x', 'type': {'k': 'basic', 'n': 'int'}},
                   {'name': 'user_data', 'type': {'k': 'typedef', 'n': 'gpointer'}}]}}},
    {'d': 'typedef', 'name': 'FooCbAlias', 'type': {'k': 'typedef', 'n': 'FooCb'}},
    {'d': 'typedef', 'name': 'FooRec', 'type': {'k': 'struct', 'n': '_FooRec'}},
    {'d': 'struct', 'name': '_FooRec', 'fields': [{'name': 'a', 'type': {'k': 'basic', 'n': 'int'}}]},
    {'d': 'typedef', 'name': 'FooUni', 'type': {'k': 'union', 'n': '_FooUni'}},
    {'d': 'union', 'name': '_FooUni', 'fields': [{'name': 'a', 'type': {'k': 'basic', 'n': 'int'}}]},
    {'d': 'typedef', 'name': 'FooEnum', 'type': {'k': 'enum', 'n': None, 'members': [
        {'name': 'FOO_ENUM_A', 'value': 0}, {'name': 'FOO_ENUM_B', 'value': 1}]}},
    {'d': 'typedef', 'name': 'FooFlags', 'type': {'k': 'enum', 'n': None, 'bitfield': True, 'members': [
        {'name': 'FOO_FLAGS_A', 'value': 1}, {'name': 'FOO_FLAGS_B', 'value': 2}]}},
    {'d': 'typedef', 'name': 'FooAlias', 'type': {'k': 'basic', 'n': 'int'}},
    {'d': 'typedef', 'name': 'FooStr', 'type': {'k': 'ptr', 'to': {'k': 'basic', 'n': 'char', 'q': Q_CONST}}},
    # typedef chains (alias, alias of alias) of const strings / non-const strings / basic types / const and
    # non-const record pointers / const untyped pointers
    {'d': 'typedef', 'name': 'FooBuf', 'type': {'k': 'ptr', 'to': {'k': 'basic', 'n': 'char', 'q': 0}}},
    {'d': 'typedef', 'name': 'FooStr2', 'type': {'k': 'typedef', 'n': 'FooStr'}},
    {'d': 'typedef', 'name': 'FooStr3', 'type': {'k': 'typedef', 'n': 'FooStr2'}},
    {'d': 'typedef', 'name': 'FooBuf2', 'type': {'k': 'typedef', 'n': 'FooBuf'}},
    {'d': 'typedef', 'name': 'FooAlias2', 'type': {'k': 'typedef', 'n': 'FooAlias'}},
    {'d': 'typedef', 'name': 'FooCRec', 'type': {'k': 'ptr', 'to': {'k': 'typedef', 'n': 'FooRec', 'q': Q_CONST}}},
    {'d': 'typedef', 'name': 'FooCRec2', 'type': {'k': 'typedef', 'n': 'FooCRec'}},
    {'d': 'typedef', 'name': 'FooRecP', 'type': {'k': 'ptr', 'to': {'k': 'typedef', 'n': 'FooRec', 'q': 0}}},
    {'d': 'typedef', 'name': 'FooRecP2', 'type': {'k': 'typedef', 'n': 'FooRecP'}},
    {'d': 'typedef', 'name': 'FooCvp', 'type': {'k': 'ptr', 'to': {'k': 'void', 'q': Q_CONST}}},
    {'d': 'typedef', 'name': 'FooCvp2', 'type': {'k': 'typedef', 'n': 'FooCvp'}},
]

ALIAS_NAMES = ['FooBuf', 'FooStr2', 'FooStr3', 'FooBuf2', 'FooAlias2', 'FooCRec', 'FooCRec2', 'FooRecP', 'FooRecP2',
               'FooCvp', 'FooCvp2']

# what the harness itself DECLARED for each typedef name of the prelude whose target is a plain type tree
# (void / basic / typedef / pointer): the oracle expands typedef names through this table, i.e. it judges
# from the declarations alone (never from what the scanner resolved)
LOCAL_TYPEDEFS = dict((d['name'], d['type']) for d in PRELUDE
                      if d['d'] == 'typedef' and d['type']['k'] in ('basic', 'typedef', 'ptr', 'void')
                      and not (d['type']['k'] == 'ptr' and d['type']['to']['k'] == 'func'))


def expand_typedefs(t, seen=()):
    """the declared type with every typedef name of LOCAL_TYPEDEFS replaced by its declaration (qualifiers
    of the use are added to the outermost level of the declaration); -> (expanded tree, chain length)"""
    if t['k'] == 'typedef' and t.get('n') in LOCAL_TYPEDEFS and t['n'] not in seen:
        u, n = expand_typedefs(LOCAL_TYPEDEFS[t['n']], seen + (t['n'], ))
        return dict(u, q=u.get('q', 0) | t.get('q', 0)), n + 1
    if t['k'] == 'ptr':
        u, n = expand_typedefs(t['to'], seen)
        return dict(t, to=u), n
    return t, 0

ENV_CANDIDATES = ['FooCb', 'FooCbAlias', 'FooRec', 'FooUni', 'FooEnum', 'FooFlags', 'FooAlias', 'FooStr',
                  'GDestroyNotify', 'GAsyncReadyCallback', 'GFunc', 'GError', 'GVariant', 'GBytes', 'GMutex',
                  'GQuark', 'GSeekType', 'GIOCondition', 'GObject', 'GInitiallyUnowned', 'GClosure', 'GValue',
                  'GAsyncResult', 'GCancellable', 'GFloaty', 'Unknown', 'FooMissing', 'FILE', 'long int', '_FooRec'] \
    + ALIAS_NAMES


def classify(m, tr, node):
    """what lookup_typenode returned, as the model's Target"""
    ast = m.ast
    if node is None:
        return None
    if isinstance(node, ast.Alias):
        # the target type of this alias and of every further alias lookup_typenode finds along the typedef
        # chain (namespace lookup is the model's parameter; the walk itself is the model's)
        links = []
        seen = set()
        cur = node
        while isinstance(cur, ast.Alias) and id(cur) not in seen:
            seen.add(id(cur))
            tt = cur.target
            links.append({'fundamental': tt.target_fundamental, 'giname': tt.target_giname, 'ctype': tt.ctype,
                          'is_const': bool(tt.is_const)})
            if not tt.target_giname:
                break
            cur = tr.lookup_typenode(tt)
        return {'t': 'alias', 'links': links}
    if isinstance(node, ast.Boxed):
        return {'t': 'boxed'}
    if isinstance(node, (ast.Record, ast.Union)):
        return {'t': 'compound', 'registered': node.gtype_name is not None or bool(node.foreign)}
    if isinstance(node, (ast.Enum, ast.Bitfield)):
        return {'t': 'enum'}
    if isinstance(node, ast.Class):
        # walk the parent chain by name (independent of MainTransformer._is_gi_subclass)
        unowned = False
        cur = node
        for _ in range(20):
            if cur is None:
                break
            if cur.gi_name == 'GObject.InitiallyUnowned':
                unowned = True
                break
            pt = cur.parent_type
            if pt is None or not pt.target_giname or pt.target_giname == 'GObject.Object':
                break
            cur = tr.lookup_giname(pt.target_giname)
        return {'t': 'class', 'unowned': unowned}
    if isinstance(node, ast.Interface):
        return {'t': 'interface'}
    if isinstance(node, ast.Callback):
        return {'t': 'callback'}
    return {'t': 'other'}


def compute_env(m, tr):
    """namespace lookup as the model's parameter: for every C name the generators use, what
    Transformer.resolve_type / lookup_typenode / resolve_aliases deliver on the real objects"""
    env = []
    for c in ENV_CANDIDATES:
        t = m.ast.Type(ctype=c)
        try:
            tr.resolve_type(t)
        except Exception:
            continue
        if not t.target_giname:
            continue
        node = tr.lookup_typenode(t)
        final = tr.resolve_aliases(node)
        env.append({'c': c, 'giname': t.target_giname, 'node': classify(m, tr, node),
                    'cb': final.gi_name if isinstance(final, m.ast.Callback) else None})
    return env


def names_in(t, acc):
    k = t['k']
    if k in ('typedef', 'basic', 'struct', 'union', 'enum'):
        if t.get('n'):
            acc.add(t['n'])
    elif k == 'ptr':
        names_in(t['to'], acc)
    elif k == 'array':
        names_in(t['of'], acc)
    return acc


def env_for(env, trees):
    """only the entries a request can look up (keeps the driver input small)"""
    acc = set()
    for t in trees:
        names_in(t, acc)
    return [e for e in env if e['c'] in acc]


# ------------------------------------------------------------------ GIR extraction
def lname(e):
    return e.tag.rsplit('}', 1)[-1]


def canon_type(e):
    tag = lname(e)
    kids = [canon_type(c) for c in e if lname(c) in ('type', 'array', 'varargs', 'callback')]
    if tag == 'type':
        return ['type', e.get('name'), e.get(qn('c:type')), kids]
    if tag == 'array':
        return ['array', e.get('name'), e.get(qn('c:type')), e.get('zero-terminated'), e.get('fixed-size'),
                e.get('length'), kids]
    if tag == 'varargs':
        return ['varargs']
    return ['callback']


def type_child(e):
    for c in e:
        if lname(c) in ('type', 'array', 'varargs', 'callback'):
            return canon_type(c)
    return None


def param_record(e):
    return {'name': e.get('name'), 'transfer': e.get('transfer-ownership'), 'nullable': e.get('nullable') == '1',
            'scope': e.get('scope'), 'closure': None if e.get('closure') is None else int(e.get('closure')),
            'destroy': None if e.get('destroy') is None else int(e.get('destroy')),
            'direction': e.get('direction'), 'caller_allocates': e.get('caller-allocates'),
            'type': type_child(e)}


def callable_record(e):
    ret = None
    params = []
    for c in e:
        if lname(c) == 'return-value':
            ret = {'transfer': c.get('transfer-ownership'), 'nullable': c.get('nullable') == '1', 'type': type_child(c)}
        elif lname(c) == 'parameters':
            params = [param_record(p) for p in c if lname(p) == 'parameter']
    return {'throws': e.get('throws') == '1', 'ret': ret, 'params': params}


def index_gir(gir_text):
    root = scanpipe.gir_tree(gir_text)
    ns = root.find(qn('namespace'))
    out = {'function': {}, 'callback': {}, 'record': {}, 'constant': {}, 'alias': {}, 'copies': {}}
    # EVERY emitted copy of a callable, keyed by its C symbol: the namespace-level <function> (possibly carrying
    # moved-to) and the <function>/<method>/<constructor> nested in <record>/<union>/<class>/<interface>/
    # <enumeration>/<bitfield>/<glib:boxed>.  -> [(where, element)]
    for parent in [ns] + list(ns):
        for e in parent:
            if lname(e) in ('function', 'method', 'constructor') and e.get(qn('c:identifier')):
                if parent is ns:
                    where = 'namespace function' + (' moved-to=%s' % e.get('moved-to') if e.get('moved-to') else '')
                else:
                    where = '%s of <%s %s>' % (lname(e), lname(parent), parent.get('name') or parent.get(qn('glib:name')))
                out['copies'].setdefault(e.get(qn('c:identifier')), []).append((where, e))
    for e in ns:
        t = lname(e)
        if t == 'function':
            out['function'][e.get(qn('c:identifier'))] = e
        elif t in ('callback', 'record', 'constant', 'alias'):
            out[t][e.get(qn('c:type'))] = e
    return out


# ------------------------------------------------------------------ model output -> the same canonical records
def strip_ns(g):
    if g is None:
        return None
    return g[4:] if g.startswith('Foo.') else g


def render_node(n):
    """model TypeNode JSON -> canonical type element"""
    k = n['kind']
    w = n['written'] or None
    if k == 'fundamental':
        return ['type', n['name'], w, []]
    if k == 'unresolved':
        return ['type', strip_ns(n.get('giname')), w, []]
    if k == 'strv':
        return ['array', None, w, None, None, None, [['type', 'utf8', None, []]]]
    if k == 'list':
        return ['type', n['name'], w, [['type', 'gpointer', 'gpointer', []]]]
    if k == 'array':
        return ['array', n['name'], w, None, None, None, [['type', n['elem'], n['elem'], []]]]
    if k == 'map':
        return ['type', 'GLib.HashTable', w, [['type', 'gpointer', 'gpointer', []], ['type', 'gpointer', 'gpointer', []]]]
    if k == 'varargs':
        return ['varargs']
    raise ValueError(k)


def render_field(f):
    if f['field'] == 'callback':
        return ['callback']
    if f['field'] == 'array':
        return ['array', None, None, '0', None if f['size'] is None else str(f['size']), None,
                [render_node(f['elem'])]]
    return render_node(f['type'])


def render_callable(c):
    if 'error' in c:
        return c
    return {'throws': c['throws'],
            'ret': {'transfer': c['ret']['transfer'], 'nullable': c['ret']['nullable'],
                    'type': render_node(c['ret']['type'])},
            'params': [{'name': p['name'], 'transfer': p['transfer'], 'nullable': p['nullable'], 'scope': p['scope'],
                        'closure': p['closure'], 'destroy': p['destroy'], 'direction': None,
                        'caller_allocates': None, 'type': render_node(p['type'])} for p in c['params']]}


# ------------------------------------------------------------------ oracle, written from the statement
# well-known C / stdint / GLib spellings and the introspection type the statement and the
# documentation ("Default Basic Types") give them.  Hand-written, NOT read from ast.type_names.
ORACLE_NAMES = {
    'char': 'gchar', 'signed char': 'gint8', 'unsigned char': 'guint8',
    'short': 'gshort', 'signed short': 'gshort', 'unsigned short': 'gushort', 'unsigned short int': 'gushort',
    'int': 'gint', 'signed int': 'gint', 'signed': 'gint', 'unsigned int': 'guint', 'unsigned': 'guint',
    'long': 'glong', 'signed long': 'glong', 'unsigned long': 'gulong', 'unsigned long int': 'gulong',
    'float': 'gfloat', 'double': 'gdouble', '_Bool': 'gboolean', 'bool': 'gboolean',
    'size_t': 'gsize', 'ssize_t': 'gssize', 'intptr_t': 'gintptr', 'uintptr_t': 'guintptr',
    'guchar': 'guint8', 'goffset': 'gint64', 'gunichar2': 'guint16', 'gconstpointer': 'gpointer',
    'gpointer': 'gpointer', 'grefcount': 'gint', 'gatomicrefcount': 'gint', 'gchararray': 'utf8',
}
for _n in (8, 16, 32, 64):
    ORACLE_NAMES['int%d_t' % _n] = 'gint%d' % _n
    ORACLE_NAMES['uint%d_t' % _n] = 'guint%d' % _n
    ORACLE_NAMES['gint%d' % _n] = 'gint%d' % _n
    ORACLE_NAMES['guint%d' % _n] = 'guint%d' % _n
for _n in ('gint', 'guint', 'glong', 'gulong', 'gshort', 'gushort', 'gchar', 'gboolean', 'gfloat', 'gdouble',
           'gsize', 'gssize', 'gintptr', 'guintptr', 'gunichar', 'GType'):
    ORACLE_NAMES[_n] = _n
# "basic types" of the documentation (numbers, booleans, GType): never transferred when returned
ORACLE_BASIC = set(v for v in ORACLE_NAMES.values() if v not in ('gpointer', 'utf8'))
STRING_BASES = ('char', 'gchar')


def flat(t, is_param):
    """(base leaf, [qualifier bits of each pointer level, innermost first]); the outermost array of a
    parameter decays to a pointer, every other array is transparent (its element is what is described)"""
    levels = []
    first = True
    while t['k'] in ('ptr', 'array'):
        if t['k'] == 'ptr':
            levels.append(t.get('q', 0))
            t = t['to']
        else:
            if is_param and first:
                levels.append(t.get('q', 0))
            t = t['of']
        first = False
    levels.reverse()
    return t, levels


def parse_ctype(s):
    """'volatile const char* const*' -> ('char', {'const','volatile'}, [{'const'}, set()])"""
    segs = s.split('*')
    words = segs[0].split()
    bq = set(w for w in words if w in ('const', 'volatile'))
    base = ' '.join(w for w in words if w not in ('const', 'volatile'))
    levels = []
    for seg in segs[1:]:
        ws = seg.split()
        if any(w not in ('const', 'volatile') for w in ws):
            return None
        levels.append(set(ws))
    return base, bq, levels


def qset(bits):
    s = set()
    if bits & Q_CONST:
        s.add('const')
    if bits & Q_VOLATILE:
        s.add('volatile')
    return s


def base_spelling(b):
    if b['k'] == 'void':
        return 'void'
    if b['k'] in ('basic', 'typedef'):
        return b['n']
    return None     # struct tags, function types: outside the statement's quantifier


def oracle_ctype(t, is_param, written):
    """'the original C spelling kept as c:type': the written c:type, read back as a C type, is the
    declared type.  Returns 'ok' | 'outside' | ('bad', why)"""
    b, levels = flat(t, is_param)
    name = base_spelling(b)
    if name is None:
        return 'outside'
    if written is None:
        return ('bad', 'no c:type written')
    got = parse_ctype(written)
    if got is None:
        return ('bad', 'c:type %r is not a C type spelling' % written)
    want = (name, qset(b.get('q', 0)), [qset(x) for x in levels])
    if got == want:
        return 'ok'
    return ('bad', 'c:type %r reads back as %r, declared %r' % (written, got, want))


def oracle_name(t, pos, is_param):
    """expected GI type for a declared type: ('type', name) | ('strv',) | None when the statement is silent"""
    b, levels = flat(t, is_param)
    name = base_spelling(b)
    d = len(levels)
    if name is None:
        return None
    if name in STRING_BASES and d >= 1:
        if d == 1:
            return ('type', 'utf8')
        if d == 2 and pos == 'return':
            return ('strv', )
        return None
    if name == 'void':
        if d == 0:
            return ('type', 'none')
        if d == 1:
            return ('type', 'gpointer')
        return None
    if name in ORACLE_NAMES:
        if ORACLE_NAMES[name] == 'utf8' and d > 0:
            return None
        if name in ('_Bool', 'bool') and d > 0:
            # the statement maps the VALUE spelling _Bool to gboolean; a pointer to a 1-byte _Bool is not a
            # pointer to a 4-byte gboolean and the scanner deliberately leaves it unresolved
            return None
        return ('type', ORACLE_NAMES[name])
    return None


def pointee_const(t):
    return t['k'] == 'ptr' and bool(t['to'].get('q', 0) & Q_CONST)


def oracle_return_transfer(t, exp):
    """statement: 'returned const values and basic types are not transferred while returned non-const
    strings are'.  -> 'none' | 'full' | None (statement silent).
    A return type that IS a typedef name (alias, alias of alias, ...) declared by the harness is judged as
    the type it was declared to be: `typedef const char *FooStr; FooStr f(void)` returns a const value,
    `typedef char *FooBuf; FooBuf f(void)` a non-const string, `typedef int FooAlias` a basic type."""
    if exp == ('type', 'none'):
        return 'none'
    if pointee_const(t):
        return 'none'
    if exp is not None and exp[0] == 'type' and exp[1] in ORACLE_BASIC:
        return 'none'
    if exp == ('type', 'utf8'):
        return 'full'
    if t['k'] == 'typedef' and t.get('n') in LOCAL_TYPEDEFS:
        u, _n = expand_typedefs(t)
        if u['k'] == 'typedef' and u.get('n') in LOCAL_TYPEDEFS:
            return None
        return oracle_return_transfer(u, oracle_name(u, 'return', False))
    return None


def alias_chain(t):
    """0 when the type is not a harness-declared typedef name, else the length of its typedef chain"""
    if t['k'] == 'typedef' and t.get('n') in LOCAL_TYPEDEFS:
        return expand_typedefs(t)[1]
    return 0


def got_kind(ty):
    """canonical type element -> ('type', name) | ('strv',) | other"""
    if ty is None:
        return None
    if ty[0] == 'type':
        return ('type', ty[1])
    if ty[0] == 'array' and ty[1] is None and ty[6] == [['type', 'utf8', None, []]]:
        return ('strv', )
    return (ty[0], )


class Judge(object):
    """Evaluates the statement oracle on real GIR records; routes failures to ctx.report_failure."""

    def __init__(self, ctx, cnt):
        self.ctx = ctx
        self.cnt = cnt

    def fail(self, key, what, replay):
        self.ctx.report_failure(key, what, replay)

    def type_case(self, case, rec):
        """case: {'pos','t'}; rec: what the real pipeline wrote ({'type':..., 'transfer':..., 'nullable':...})"""
        pos, t = case['pos'], case['t']
        is_param = pos == 'param'
        ty = rec['type']
        if pos == 'field' and ty is not None and ty[0] == 'array' and t['k'] == 'array':
            ty_for_ctype = ty[6][0] if ty[6] else None
        else:
            ty_for_ctype = ty
        kkey = json.dumps([pos, t], sort_keys=True)
        # ---- c:type keeps the original spelling
        if ty_for_ctype is not None and ty_for_ctype[0] in ('type', 'array'):
            v = oracle_ctype(t, is_param, ty_for_ctype[2])
            if v == 'outside':
                self.cnt.hit('oracle:ctype:outside')
            elif v == 'ok':
                self.cnt.hit('oracle:ctype:ok')
                if flat(t, is_param)[0]['k'] == 'void' and flat(t, is_param)[0].get('q', 0):
                    self.cnt.hit('oracle:ctype:ok:qualified-void')
            else:
                self.fail('ctype:' + kkey, '%s: %s (declared %s)' % (pos, v[1], json.dumps(t)),
                          {'kind': 'type', 'case': case})
        # ---- spelling -> canonical introspection type
        exp = oracle_name(t, pos, is_param)
        if pos == 'field' and t['k'] == 'array':
            got = got_kind(ty[6][0]) if ty is not None and ty[0] == 'array' and ty[6] else None
        else:
            got = got_kind(ty)
        if exp is None:
            self.cnt.hit('oracle:name:outside')
        else:
            self.cnt.hit('oracle:name:judged')
            if got != exp:
                self.fail('name:' + kkey, '%s type %s is written as %r; the statement requires %r'
                          % (pos, json.dumps(t), got, exp), {'kind': 'type', 'case': case})
        # ---- ownership / nullability
        if pos == 'param':
            self.cnt.hit('oracle:transfer:param')
            if rec['transfer'] != 'none':
                self.fail('transfer:' + kkey, 'un-annotated (in) parameter of type %s has transfer-ownership=%r, '
                          'documented default: none' % (json.dumps(t), rec['transfer']), {'kind': 'type', 'case': case})
        elif pos == 'return':
            want = oracle_return_transfer(t, exp)
            if want is None:
                self.cnt.hit('oracle:transfer:return:outside')
            else:
                self.cnt.hit('oracle:transfer:return:' + want)
                if alias_chain(t):
                    self.cnt.hit('oracle:transfer:return:alias-depth%d:%s' % (alias_chain(t), want))
                if rec['transfer'] != want:
                    self.fail('transfer:' + kkey, 'returned %s has transfer-ownership=%r; the statement requires %r'
                              % (json.dumps(t), rec['transfer'], want), {'kind': 'type', 'case': case})
        if pos in ('param', 'return') and exp == ('type', 'gpointer'):
            self.cnt.hit('oracle:nullable:gpointer')
            if not rec['nullable']:
                self.fail('nullable:' + kkey, 'untyped pointer %s in %s position is not nullable' % (json.dumps(t), pos),
                          {'kind': 'type', 'case': case})

    def arrangement(self, case, rec, where=None):
        """case: {'params': [{'kind','name'}...], 'owner': None|'rec'|'uni'}; rec: callable_record of ONE emitted
        copy of the callable in the real GIR (`where` says which copy when the scanner wrote several)"""
        ps = case['params']
        kinds = [p['kind'] for p in ps]
        akey = 'arr:' + json.dumps([[p['kind'], p['name'], p.get('v', 0)] for p in ps]) + (':cb' if case.get('callback') else '') \
            + (':owner=%s' % case['owner'] if case.get('owner') else '')
        rp = {'kind': 'arr', 'case': case}
        if where is not None:
            real_fail = self.fail
            self.fail = lambda k, w, r: real_fail(k, '%s [emitted copy: %s]' % (w, where), r)
            try:
                return self.arrangement(case, rec)
            finally:
                del self.fail
        n = len(ps)
        throws = n > 0 and kinds[-1] == 'err'
        if rec['throws'] != throws:
            self.fail(akey, 'throws=%r for parameter kinds %r (trailing GError** %s)' % (rec['throws'], kinds,
                      'present' if throws else 'absent'), rp)
            return
        want_names = [p['name'] for p in (ps[:-1] if throws else ps)]
        if [p['name'] for p in rec['params']] != want_names:
            self.fail(akey, 'parameters written %r, expected %r (only a trailing GError** is removed)'
                      % ([p['name'] for p in rec['params']], want_names), rp)
            return
        self.cnt.hit('oracle:arr:throws=%s' % throws)
        plain = [i for i, k in enumerate(kinds) if k in ('cb', 'ar')]
        for j, i in enumerate(plain):
            end = plain[j + 1] if j + 1 < len(plain) else n
            seg = range(i + 1, end)
            D = [x for x in seg if kinds[x] == 'ud']
            N = [x for x in seg if kinds[x] == 'dn']
            got = rec['params'][i]
            if D:
                self.cnt.hit('oracle:arr:closure')
                if got['closure'] not in D:
                    self.fail(akey, 'callback %r: closure=%r, but the user-data pointers following it are at %r (%r)'
                              % (ps[i]['name'], got['closure'], D, kinds), rp)
            elif got['closure'] is not None:
                self.fail(akey, 'callback %r has closure=%r although no user-data pointer follows it (%r)'
                          % (ps[i]['name'], got['closure'], kinds), rp)
            if N:
                self.cnt.hit('oracle:arr:destroy')
                if got['destroy'] not in N or got['scope'] != 'notified':
                    self.fail(akey, 'callback %r: destroy=%r scope=%r, but destroy notifies following it are at %r (%r)'
                              % (ps[i]['name'], got['destroy'], got['scope'], N, kinds), rp)
            else:
                if got['destroy'] is not None:
                    self.fail(akey, 'callback %r has destroy=%r although no destroy notify follows it' %
                              (ps[i]['name'], got['destroy']), rp)
                if kinds[i] == 'ar':
                    self.cnt.hit('oracle:arr:async')
                    if got['scope'] != 'async':
                        self.fail(akey, 'async-ready callback %r has scope=%r' % (ps[i]['name'], got['scope']), rp)
                elif got['scope'] is not None:
                    self.fail(akey, 'callback %r has scope=%r without destroy notify' % (ps[i]['name'], got['scope']), rp)
        for i, p in enumerate(rec['params']):
            if p['transfer'] != 'none':
                self.fail(akey, 'parameter %r has transfer-ownership=%r' % (p['name'], p['transfer']), rp)
            if kinds[i] in ('ud', 'op') and not p['nullable']:
                self.fail(akey, 'untyped pointer %r is not nullable' % (p['name'], ), rp)
            if kinds[i] not in ('cb', 'ar') and (p['closure'] is not None and not
                                               (case.get('callback') and p['name'] == 'user_data')):
                self.fail(akey, 'non-callback parameter %r has closure=%r' % (p['name'], p['closure']), rp)


# ------------------------------------------------------------------ case generators
def type_spellings(m):
    keys = []
    for k in sorted(m.ast.type_names):
        b = k.replace('*', '')
        if b not in keys:
            keys.append(b)
    extra = ['_Bool', 'bool', 'GStrv', 'GList', 'GSList', 'GByteArray', 'GArray', 'GPtrArray', 'GHashTable',
             'FooRec', 'FooUni', 'FooEnum', 'FooFlags', 'FooCb', 'FooCbAlias', 'FooAlias', 'FooStr', 'GError',
             'FooBuf', 'FooStr2', 'FooStr3', 'FooBuf2', 'FooAlias2', 'FooCRec', 'FooCRec2', 'FooRecP', 'FooRecP2',
             'FooCvp', 'FooCvp2', 'GCancellable', 'GQuark', 'GDestroyNotify', 'GAsyncReadyCallback', 'GVariant', 'GClosure', 'GMutex',
             'GSeekType', 'GIOCondition', 'GObject', 'Unknown', 'FooMissing', 'long int', 'FILE']
    for e in extra:
        if e not in keys:
            keys.append(e)
    return keys


def all_quals(depth, bits):
    return itertools.product(bits, repeat=depth + 1)


def type_cases(m, ctx):
    """every base spelling x depth 0-3 x const placements x position; arrays and volatile on a subset"""
    cases = []
    rng = ctx.rng
    for sp in type_spellings(m):
        for depth in range(4):
            for quals in all_quals(depth, (0, Q_CONST)):
                t = mk(sp, quals)
                for pos in ('param', 'return', 'field', 'const'):
                    cases.append({'pos': pos, 't': t, 'sp': sp})
    # struct tags and function pointers (outside the statement's quantifier, inside the model's)
    for lf, name in (({'k': 'struct', 'n': '_FooRec'}, 'struct _FooRec'), (FUNC_LEAF, 'fn')):
        for depth in range(1 if lf is FUNC_LEAF else 0, 3):
            for quals in all_quals(depth, (0, Q_CONST)):
                t = mk(lf, quals)
                for pos in ('param', 'return', 'field'):
                    cases.append({'pos': pos, 't': t, 'sp': name})
    # volatile / const volatile, arrays
    sub = ['int', 'char', 'void', 'gpointer', 'FooRec', 'guint8', 'gchar', 'unsigned long', 'GList', 'Unknown']
    if ctx.tier == 'thorough':
        sub = type_spellings(m)
    for sp in sub:
        for depth in range(3):
            for quals in all_quals(depth, (0, Q_CONST, Q_VOLATILE, Q_CONST | Q_VOLATILE)):
                if not any(x & Q_VOLATILE for x in quals):
                    continue
                for pos in ('param', 'return', 'field', 'const'):
                    cases.append({'pos': pos, 't': mk(sp, quals), 'sp': sp})
        for depth in range(3):
            for quals in all_quals(depth, (0, Q_CONST)):
                el = mk(sp, quals)
                if el['k'] == 'void':
                    continue
                for dims in ([None], [4], [2, 3], [None, 3], [0]):
                    t = el
                    for n_ in reversed(dims):
                        t = {'k': 'array', 'of': t, 'n': n_}
                    for pos in ('param', 'field', 'return'):
                        cases.append({'pos': pos, 't': t, 'sp': sp + '[]'})
                # pointer to array element stays a pointer: arrays below a pointer
                cases.append({'pos': 'param', 't': {'k': 'ptr', 'to': {'k': 'array', 'of': el, 'n': 2}}, 'sp': sp + '(*)[]'})
    if ctx.tier == 'quick':
        # the full const product is exhaustive; thin out nothing.  (kept as a hook for budget control)
        pass
    rng.random()
    return cases


KINDS = ['cb', 'ud', 'op', 'dn', 'ar', 'err', 'int']
UD_NAMES = ['user_data', 'data', 'my_data', 'userdata', 'cb_data', 'xdata']
OP_NAMES = ['other', 'dataptr', 'DATA', 'data_', 'udata2', 'ptr']


def kind_type(kind, v):
    """C type of a parameter kind; v selects an alternative spelling (thorough / 'more spellings')"""
    T, P = scanpipe.T, scanpipe.P
    if kind == 'cb':
        return [T('FooCb'), T('FooCbAlias'), T('GFunc')][v % 3]
    if kind in ('ud', 'op'):
        return [T('gpointer'), P(T('void')), T('gconstpointer'), P(T('void', Q_CONST))][v % 4]
    if kind == 'dn':
        return T('GDestroyNotify')
    if kind == 'ar':
        return T('GAsyncReadyCallback')
    if kind == 'err':
        return [P(T('GError'), 2), {'k': 'ptr', 'to': P(T('GError', Q_CONST))}][v % 2]
    return [T('int'), T('guint'), P(T('char', Q_CONST))][v % 3]


# un-annotated functions whose symbol is prefixed by the name of a plain (non-GObject) record / union of the
# namespace while neither a method (first parameter is never FooRec*/FooUni*: no parameter kind has that type) nor a
# constructor (they return void): MainTransformer._pair_static_method emits them TWICE, as a namespace-level
# <function moved-to=...> and as a static <function> inside the <record>/<union>.  The statement speaks about the
# declaration, so every emitted copy is judged.
OWNERS = {'rec': 'FooRec', 'uni': 'FooUni'}


def arrangement_symbol(i, case):
    if case.get('callback'):
        return 'FooZc%d' % i
    if case.get('owner'):
        return 'foo_%s_za_%d' % (case['owner'], i)
    return 'foo_za_%d' % i


def arrangement_case(kinds, rot, variants, callback=False, owner=None):
    ps = []
    nud = nop = 0
    for i, k in enumerate(kinds):
        v = variants[i] if variants else 0
        if k == 'ud':
            name = UD_NAMES[(nud + rot) % len(UD_NAMES)]
            nud += 1
        elif k == 'op':
            name = OP_NAMES[(nop + rot) % len(OP_NAMES)]
            nop += 1
        elif k == 'int':
            name = ['n%d' % i, 'idata%d' % i, 'n%d_data' % i][rot % 3] if v else 'n%d' % i
        else:
            name = '%s%d' % (k, i)
        ps.append({'kind': k, 'name': name, 'v': v})
    c = {'params': ps, 'callback': callback}
    if owner:
        c['owner'] = owner
    return c


def arrangement_cases(ctx):
    """quick: every arrangement of <= 4 parameters + a seeded sample of the 16807 arrangements of
    length 5; thorough: every arrangement of <= 6.  Callback typedefs: <= 3 (thorough <= 4)."""
    rng = ctx.rng
    cases = []
    full = ctx.n(4, 6)
    for L in range(0, full + 1):
        for kinds in itertools.product(KINDS, repeat=L):
            variants = None
            if rng.random() < ctx.n(0.15, 0.5):
                variants = [rng.randrange(12) for _ in kinds]
            cases.append(arrangement_case(kinds, rng.randrange(6), variants))
    if ctx.tier == 'quick':
        for _ in range(4500):
            kinds = tuple(rng.choice(KINDS) for _ in range(5))
            variants = [rng.randrange(12) for _ in kinds] if rng.random() < 0.15 else None
            cases.append(arrangement_case(kinds, rng.randrange(6), variants))
    # functions named after a plain record / union (static function + moved-to twin): every arrangement of <= 3
    # (thorough 4) parameters for both owners (deterministic), + a seeded sample of longer ones, mostly ending in GError**
    for owner in sorted(OWNERS):
        for L in range(0, ctx.n(3, 4) + 1):
            for kinds in itertools.product(KINDS, repeat=L):
                variants = [rng.randrange(12) for _ in kinds] if rng.random() < 0.15 else None
                cases.append(arrangement_case(kinds, rng.randrange(6), variants, owner=owner))
    for _ in range(ctx.n(600, 6000)):
        kinds = [rng.choice(KINDS) for _ in range(rng.randint(4, 6))]
        if rng.random() < 0.6:
            kinds[-1] = 'err'
        variants = [rng.randrange(12) for _ in kinds] if rng.random() < 0.3 else None
        cases.append(arrangement_case(tuple(kinds), rng.randrange(6), variants, owner=rng.choice(sorted(OWNERS))))
    # callback typedefs (the user_data rule of _create_callback + pass 3 on callbacks)
    for L in range(0, ctx.n(3, 4) + 1):
        for kinds in itertools.product(KINDS, repeat=L):
            cases.append(arrangement_case(kinds, rng.randrange(6), None, callback=True))
    return cases


def arrangement_decl(i, case):
    params = [{'name': p['name'], 'type': kind_type(p['kind'], p.get('v', 0))} for p in case['params']]
    if case.get('callback'):
        return {'d': 'typedef', 'name': arrangement_symbol(i, case),
                'type': {'k': 'ptr', 'to': {'k': 'func', 'ret': {'k': 'void'}, 'params': params}}}
    return {'d': 'function', 'name': arrangement_symbol(i, case), 'ret': {'k': 'void'}, 'params': params}


def arrangement_copies(idx, i, case):
    """every copy of the callable of arrangement case i that the real pipeline wrote -> [(where or None, element)]"""
    sym = arrangement_symbol(i, case)
    if case.get('callback'):
        e = idx['callback'].get(sym)
        return [] if e is None else [(None, e)]
    copies = idx['copies'].get(sym, [])
    if len(copies) == 1 and not case.get('owner'):
        return [(None, copies[0][1])]
    return list(copies)


# ------------------------------------------------------------------ running the real pipeline
def run_scan(ctx, decls, comments=()):
    cfg = {'namespace': 'Foo', 'decls': PRELUDE + decls, 'includes': ctx.c02_includes,
           'include_paths': [ctx.c02_incdir], 'comments': list(comments)}
    return scanpipe.scan(cfg)


class PipelineCrash(Exception):
    pass


def scan_cases(ctx, judge, cases, make_decls, describe, replay_of):
    """run the real pipeline on the declarations of `cases`; when it raises, isolate a single failing
    case (bisection), report it as a failing input and return None for this chunk"""
    try:
        return run_scan(ctx, make_decls(0, cases))
    except SystemExit as e:
        err = e
    except Exception as e:      # noqa  (the code under test raised: that is a finding, not a harness fault)
        err = e
    lo = list(cases)
    while len(lo) > 1:
        half = lo[:len(lo) // 2]
        try:
            run_scan(ctx, make_decls(0, half))
            lo = lo[len(lo) // 2:]
        except (SystemExit, Exception):   # noqa
            lo = half
    try:
        run_scan(ctx, make_decls(0, lo))
        what = 'the scanner raised %s: %s on a chunk of %d un-annotated declarations (not reproducible on a single one)' \
            % (type(err).__name__, err, len(cases))
        judge.fail('crash:chunk', what, {'kind': 'crash'})
    except (SystemExit, Exception) as e2:   # noqa
        judge.fail('crash:' + describe(lo[0]), 'the scanner raised %s: %s on the un-annotated declaration %s'
                   % (type(e2).__name__, e2, describe(lo[0])), replay_of(lo[0]))
    return None


def chunks(lst, n):
    for i in range(0, len(lst), n):
        yield i, lst[i:i + n]


def type_decls(base_index, cases):
    """declarations for a chunk of type cases; returns (decls, locator) where locator(i, idx) finds the record"""
    decls = []
    fields = []
    for j, c in enumerate(cases):
        i = base_index + j
        if c['pos'] == 'param':
            decls.append({'d': 'function', 'name': 'foo_zp_%d' % i, 'ret': {'k': 'void'},
                          'params': [{'name': 'x', 'type': c['t']}]})
        elif c['pos'] == 'return':
            decls.append({'d': 'function', 'name': 'foo_zr_%d' % i, 'ret': c['t'], 'params': []})
        elif c['pos'] == 'const':
            decls.append({'d': 'const', 'name': 'FOO_K%d' % i, 'int': 1, 'type': c['t']})
        else:
            fields.append((i, c))
    for k, grp in chunks(fields, 25):
        tag = '_FooZs%d' % (base_index + k)
        decls.append({'d': 'typedef', 'name': tag[1:], 'type': {'k': 'struct', 'n': tag}})
        decls.append({'d': 'struct', 'name': tag, 'fields': [{'name': 'f%d' % i, 'type': c['t']} for i, c in grp]})
    return decls


def find_type_record(idx, fieldmap, i, c):
    """-> (record to judge or None, whole record to compare with the model)"""
    if c['pos'] == 'param':
        e = idx['function'].get('foo_zp_%d' % i)
        if e is None:
            return None, None
        r = callable_record(e)
        return (r['params'][0] if r['params'] else None), r
    if c['pos'] == 'return':
        e = idx['function'].get('foo_zr_%d' % i)
        if e is None:
            return None, None
        r = callable_record(e)
        return r['ret'], r
    if c['pos'] == 'const':
        e = idx['constant'].get('FOO_K%d' % i)
    else:
        e = fieldmap.get('f%d' % i)
    if e is None:
        return None, None
    r = {'type': type_child(e), 'transfer': None, 'nullable': False}
    return r, r


def field_map(idx):
    fm = {}
    for name, rec in idx['record'].items():
        if name and name.startswith('FooZs'):
            for f in rec:
                if lname(f) == 'field':
                    fm[f.get('name')] = f
    return fm


# ------------------------------------------------------------------ guarded access to /repo internals
class Gone(Exception):
    pass


def internal(ctx, obj, name, op):
    """a private / internal function of /repo used for direct-call correspondence; when it no longer
    exists the correspondence is reported as broken and the caller falls back to the public pipeline"""
    fn = getattr(obj, name, None)
    if fn is None or not callable(fn):
        msg = 'correspondence %s: %s.%s no longer exists' % (op, type(obj).__name__, name)
        if msg not in ctx.broken:
            ctx.broken.append(msg)
        raise Gone(msg)
    return fn


def guarded(ctx, op, what, fn, *a, **k):
    """run one direct-call correspondence section; signature changes / missing attributes inside /repo's
    internals are reported through ctx.broken, never as a harness error"""
    try:
        return fn(*a, **k)
    except Gone:
        return 0
    except (TypeError, AttributeError, KeyError, NotImplementedError) as e:
        import traceback
        tb = traceback.extract_tb(e.__traceback__)
        where = '%s:%d' % (os.path.basename(tb[-1].filename), tb[-1].lineno) if tb else '?'
        ctx.broken.append('correspondence %s: %s has changed (%s: %s at %s)' % (op, what, type(e).__name__, e, where))
        return 0


# ------------------------------------------------------------------ the check
def load_corpus():
    out = []
    cpath = os.path.join(os.path.dirname(HERE), 'corpus', 'C02')
    if os.path.isdir(cpath):
        for fn in sorted(os.listdir(cpath)):
            if fn.endswith('.json'):
                with open(os.path.join(cpath, fn)) as f:
                    out.extend(json.load(f))
    return out


def setup(ctx):
    ctx.c02_incdir = os.path.join(ctx.scratch, 'gir')
    ctx.c02_includes = write_includes(ctx.c02_incdir)
    for k, what in PENDING_FINDINGS.items():
        if not any(e.get('key') == k for e in ctx.known):
            ctx.known.append({'property': 'C02', 'status': 'known', 'key': k, 'what': what})


def check_types(ctx, cnt, judge, cases, env, samples, label):
    """type cases through the real pipeline vs model vs oracle"""
    ndis = 0
    disagree = []
    for base, chunk in chunks(cases, 3000):
        res = scan_cases(ctx, judge, chunk, lambda _b, cs, base=base: type_decls(base, cs) if cs is chunk else type_decls(0, cs),
                         lambda c: '%s %s' % (c['pos'], json.dumps(c['t'])),
                         lambda c: {'kind': 'type', 'case': c})
        if res is None:
            continue
        idx = index_gir(res['gir'])
        fm = field_map(idx)
        reqs = []
        for c in chunk:
            if c['pos'] == 'param':
                reqs.append({'op': 'c02.callable', 'env': env_for(env, [c['t']]),
                             'params': [{'name': 'x', 'type': c['t']}], 'ret': {'k': 'void'}})
            elif c['pos'] == 'return':
                reqs.append({'op': 'c02.callable', 'env': env_for(env, [c['t']]), 'params': [], 'ret': c['t']})
            elif c['pos'] == 'const':
                reqs.append({'op': 'c02.type', 'pos': 'plain', 'env': env_for(env, [c['t']]), 't': c['t']})
            else:
                reqs.append({'op': 'c02.field', 'env': env_for(env, [c['t']]), 't': c['t']})
        model = ctx.driver.batch(reqs)
        for j, (c, mo) in enumerate(zip(chunk, model)):
            i = base + j
            rec, whole = find_type_record(idx, fm, i, c)
            b, lv = flat(c['t'], c['pos'] == 'param')
            cnt.hit('%s:%s:depth%d' % (label, c['pos'], len(lv)))
            cnt.case(['t', c['pos'], c['t']], nontrivial=True)
            if whole is None:
                ctx.broken.append('pipeline wrote nothing for type case %s %s' % (c['pos'], json.dumps(c['t'])))
                continue
            # model in the same shape
            if c['pos'] in ('param', 'return'):
                mwhole = render_callable(mo)
            elif c['pos'] == 'const':
                mwhole = {'type': render_node(mo), 'transfer': None, 'nullable': False}
            else:
                mwhole = {'type': render_field(mo), 'transfer': None, 'nullable': False}
            if whole != mwhole:
                ndis += 1
                disagree.append(c)
                if ndis <= 3:
                    ctx.broken.append('correspondence c02.%s differs: t=%s impl=%s model=%s'
                                      % (c['pos'], json.dumps(c['t']), json.dumps(whole), json.dumps(mwhole)))
            if rec is None:
                cnt.hit('%s:param-removed-as-error' % label)
                continue
            judge.type_case(c, rec)
            if ty_kind(rec) is not None:
                cnt.hit('%s:kind:%s' % (label, ty_kind(rec)))
        samples.append({'kind': 'type', 'pos': chunk[-1]['pos'], 't': chunk[-1]['t']})
    return disagree


def ty_kind(rec):
    ty = rec.get('type')
    if ty is None:
        return None
    if ty[0] == 'type':
        if ty[3]:
            return 'container'
        return 'named' if ty[1] else 'unresolved'
    return ty[0]


def check_arrangements(ctx, cnt, judge, cases, env, samples):
    ndis = 0
    disagree = []
    for base, chunk in chunks(cases, 4000):
        res = scan_cases(ctx, judge, chunk,
                         lambda _b, cs, base=base: [arrangement_decl((base if cs is chunk else 0) + j, c) for j, c in enumerate(cs)],
                         lambda c: 'arrangement %s' % json.dumps([[p['kind'], p['name']] for p in c['params']]),
                         lambda c: {'kind': 'arr', 'case': c})
        if res is None:
            continue
        idx = index_gir(res['gir'])
        reqs = []
        for c in chunk:
            ps = [{'name': p['name'], 'type': kind_type(p['kind'], p.get('v', 0))} for p in c['params']]
            reqs.append({'op': 'c02.callable', 'env': env_for(env, [p['type'] for p in ps]),
                         'callback': bool(c.get('callback')), 'params': ps, 'ret': {'k': 'void'}})
        model = ctx.driver.batch(reqs)
        for j, (c, mo) in enumerate(zip(chunk, model)):
            i = base + j
            copies = arrangement_copies(idx, i, c)
            kinds = [p['kind'] for p in c['params']]
            cnt.hit('arr:%s:len%d' % ('callback' if c.get('callback') else
                                      ('function-of-' + c['owner'] if c.get('owner') else 'function'), len(kinds)))
            cnt.case(['a', c], nontrivial=any(k in ('cb', 'ar') for k in kinds) or 'err' in kinds)
            if not copies:
                ctx.broken.append('pipeline wrote nothing for arrangement %r' % (kinds, ))
                continue
            if c.get('owner'):
                # how the scanner exposed the type-prefixed function (not judged: the statement does not say where a
                # function is placed; it is the generator's reach that is measured here)
                cnt.hit('arr:owner:%s:copies=%d' % (c['owner'], len(copies)))
                if len(copies) > 1 and kinds and kinds[-1] == 'err':
                    cnt.hit('arr:owner:twin-with-trailing-error')
            mr = render_callable(mo)
            differs = False
            for where, e in copies:
                # the model's output is a function of the declaration alone, hence the same for every copy
                rec = callable_record(e)
                if rec != mr and not differs:
                    differs = True
                    ndis += 1
                    disagree.append(c)
                    if ndis <= 3:
                        ctx.broken.append('correspondence c02.callable differs: case=%s%s impl=%s model=%s'
                                          % (json.dumps(c), ' copy=%s' % where if where else '', json.dumps(rec), json.dumps(mr)))
                judge.arrangement(c, rec, where)
                for p in rec['params']:
                    if p['closure'] is not None:
                        cnt.hit('arr:closure-assigned')
                    if p['destroy'] is not None:
                        cnt.hit('arr:destroy-assigned')
                    if p['scope']:
                        cnt.hit('arr:scope:' + p['scope'])
                if rec['throws']:
                    cnt.hit('arr:throws')
        samples.append({'kind': 'arr', 'case': chunk[-1]})
    return disagree


def tyinfo_of(m, tr, t):
    node = tr.lookup_typenode(t) if t.target_giname else None
    final = tr.resolve_aliases(node) if node is not None else None
    return {'fundamental': t.target_fundamental, 'giname': t.target_giname, 'node': classify(m, tr, node),
            'cb': final.gi_name if isinstance(final, m.ast.Callback) else None,
            'ctype': t.ctype, 'is_const': bool(t.is_const), 'varargs': isinstance(t, m.ast.Varargs)}


def doc_transfer(pos, direction, ca, info, ctor):
    """giannotations.rst 'Default Annotations' + the statement, as far as they speak.
    -> 'none' | 'full' | None (no documented default / silent)"""
    f = info['fundamental']
    if f == 'none' or info['varargs']:
        return 'none'
    if pos == 'parameter':
        if direction in ('out', 'inout'):
            return 'none' if ca else 'full'
        return 'none'
    if pos in ('field', 'property'):
        return 'none'
    if info['is_const']:
        return 'none'
    if f in ORACLE_BASIC or f == 'gpointer':
        return 'none'
    if f == 'utf8':
        return 'full'
    return None


def check_transfer_direct(ctx, cnt, judge, res, samples):
    """MainTransformer._get_transfer_default on real objects for the whole finite product
    position x direction x caller-allocates x type class x const x constructor"""
    m = scanpipe.mods()
    ast = m.ast
    tr = res['transformer']
    main = m.maintransformer.MainTransformer(tr, res['blocks'])
    get_default = internal(ctx, main, '_get_transfer_default', 'c02.transfer')
    types = []
    for t in ast.GIR_TYPES:
        types.append(lambda c, t=t: ast.Type(target_fundamental=t.target_fundamental, ctype=t.ctype, is_const=c))
    for g in ('Foo.Rec', 'Foo.Uni', 'Foo.Enum', 'Foo.Flags', 'Foo.Cb', 'Foo.CbAlias', 'Foo.Alias', 'Foo.Str',
              'Foo.Buf', 'Foo.Str2', 'Foo.Str3', 'Foo.Buf2', 'Foo.Alias2', 'Foo.CRec', 'Foo.CRec2', 'Foo.RecP',
              'Foo.RecP2', 'Foo.Cvp', 'Foo.Cvp2',
              'GLib.Error', 'GLib.Mutex', 'GLib.Quark', 'GLib.SeekType', 'GLib.IOCondition', 'GLib.DestroyNotify',
              'GObject.Closure', 'GObject.Object', 'GObject.InitiallyUnowned', 'GObject.Value', 'Gio.Cancellable',
              'Gio.Floaty', 'Gio.AsyncResult', 'Gio.AsyncReadyCallback'):
        types.append(lambda c, g=g: ast.Type(target_giname=g, ctype='X*', is_const=c))
    types.append(lambda c: ast.Type(ctype='Unknown*', is_const=c))
    types.append(lambda c: ast.Type(ctype='gpointer', is_const=c))       # unresolved with a fundamental's ctype
    types.append(lambda c: ast.Type(ctype='gchar*', is_const=c))
    types.append(lambda c: ast.Array(None, ast.TYPE_STRING, ctype='char**', is_const=c))
    types.append(lambda c: ast.List('GLib.List', ast.TYPE_ANY, ctype='GList*', is_const=c))
    types.append(lambda c: ast.Map(ast.TYPE_ANY, ast.TYPE_ANY, ctype='GHashTable*', is_const=c))
    types.append(lambda c: ast.Varargs())
    reqs = []
    impl = []
    metas = []
    for mk_t in types:
        for c in (False, True):
            for ctor in (False, True):
                nodes = []
                for d in (None, 'in', 'out', 'inout'):
                    for ca in (False, True):
                        nodes.append(('parameter', d, ca))
                nodes += [('return', None, False), ('field', None, False), ('property', None, False)]
                for pos, d, ca in nodes:
                    t = mk_t(c)
                    parent = ast.Function('f', None, [], False, 'foo_f')
                    parent.is_constructor = ctor
                    if pos == 'parameter':
                        node = ast.Parameter('x', t, direction=d, caller_allocates=ca)
                    elif pos == 'return':
                        node = ast.Return(t)
                    elif pos == 'field':
                        node = ast.Field('x', t, True, True)
                    else:
                        node = ast.Property('x', t, True, True, False, False)
                    try:
                        got = get_default(parent, node)
                    except AssertionError:
                        got = {'error': 'AssertionError'}
                    info = tyinfo_of(m, tr, t)
                    reqs.append({'op': 'c02.transfer', 'pos': pos, 'ctor': ctor, 'dir': d, 'ca': ca, 'ty': info})
                    impl.append(got)
                    metas.append((pos, d, ca, info, ctor))
                    # TypeContainer const rule
                    if pos in ('parameter', 'return'):
                        want_tc = 'none' if t.is_const else None
                        if node.transfer != want_tc:
                            judge.fail('typecontainer:%s' % pos, 'TypeContainer.__init__ set transfer=%r for is_const=%r'
                                       % (node.transfer, t.is_const), {'kind': 'typecontainer'})
    model = ctx.driver.batch(reqs)
    ndis = 0
    for rq, got, mo, meta in zip(reqs, impl, model, metas):
        pos, d, ca, info, ctor = meta
        cnt.hit('transfer-direct:%s:%s' % (pos, d))
        cnt.case(['x', rq], nontrivial=True)
        g = got if not isinstance(got, dict) else {'error': got['error']}
        mm = mo if not isinstance(mo, dict) else {'error': mo['error']}
        if g != mm:
            ndis += 1
            if ndis <= 3:
                ctx.broken.append('correspondence c02.transfer differs: %s impl=%r model=%r' % (json.dumps(rq), got, mo))
        want = doc_transfer(pos, d, ca, info, ctor)
        if want is None or isinstance(got, dict):
            cnt.hit('oracle:transfer-direct:outside')
        else:
            cnt.hit('oracle:transfer-direct:judged')
            if got != want:
                judge.fail('transfer-default:' + json.dumps([pos, d, ca, info['fundamental'], info['giname'],
                                                               info['is_const'], ctor]),
                           '_get_transfer_default gives %r for %s direction=%r caller_allocates=%r type=%s; documented: %r'
                           % (got, pos, d, ca, json.dumps(info), want), {'kind': 'transfer', 'req': rq})
    samples.append({'kind': 'transfer', 'req': reqs[len(reqs) // 2]})
    return len(reqs)


OUT_CASES = [
    # (name, C type, annotation on @x, expected direction, caller-allocates, documented transfer)
    ('o1', scanpipe.P(scanpipe.T('char'), 2), '(out)', 'out', '0', 'full'),
    ('o2', scanpipe.P(scanpipe.T('int')), '(out)', 'out', '0', 'full'),
    ('o3', scanpipe.P(scanpipe.T('FooRec')), '(out)', 'out', '1', 'none'),
    ('o4', scanpipe.P(scanpipe.T('FooRec'), 2), '(out)', 'out', '0', 'full'),
    ('o5', scanpipe.P(scanpipe.T('int')), '(inout)', 'inout', '0', 'full'),
    ('o6', scanpipe.P(scanpipe.T('char'), 2), '(inout)', 'inout', '0', 'full'),
    ('o7', scanpipe.P(scanpipe.T('FooRec')), '(out caller-allocates)', 'out', '1', 'none'),
    ('o8', scanpipe.P(scanpipe.T('FooRec')), '(out callee-allocates)', 'out', '0', 'full'),
    ('o9', scanpipe.P(scanpipe.T('char', Q_CONST), 2), '(out)', 'out', '0', 'full'),
    ('o10', scanpipe.P(scanpipe.T('gpointer')), '(out)', 'out', '0', 'full'),
    ('o11', scanpipe.P(scanpipe.T('int')), '(in)', None, None, 'none'),
    # out parameters whose pointee is a typedef chain: a pointer to (an alias of) a string / number is filled
    # by the callee -> full, also when the aliased string is const (as for o9)
    ('o12', scanpipe.P(scanpipe.T('FooStr')), '(out)', 'out', '0', 'full'),
    ('o13', scanpipe.P(scanpipe.T('FooStr2')), '(out)', 'out', '0', 'full'),
    ('o14', scanpipe.P(scanpipe.T('FooBuf')), '(out)', 'out', '0', 'full'),
    ('o15', scanpipe.P(scanpipe.T('FooBuf2')), '(out)', 'out', '0', 'full'),
    ('o16', scanpipe.P(scanpipe.T('FooAlias')), '(out)', 'out', '0', 'full'),
    ('o17', scanpipe.P(scanpipe.T('FooAlias2')), '(inout)', 'inout', '0', 'full'),
    ('o18', scanpipe.P(scanpipe.T('FooStr3')), '(inout)', 'inout', '0', 'full'),
    ('o19', scanpipe.P(scanpipe.T('FooCvp')), '(out)', 'out', '0', 'full'),
    # aliases of record pointers: whether the scanner takes them as caller-allocated is not C02's business
    # (ca None = judge 'full unless caller-allocated' on the caller-allocates attribute that was written)
    ('o20', scanpipe.P(scanpipe.T('FooCRec')), '(out)', 'out', None, None),
    ('o21', scanpipe.P(scanpipe.T('FooRecP2')), '(out)', 'out', None, None),
    ('o22', scanpipe.P(scanpipe.T('FooRecP')), '(out callee-allocates)', 'out', '0', 'full'),
]


def check_out_params(ctx, cnt, judge, samples):
    """direction can only come from an annotation: the minimal (out)/(inout) cases that make the
    documented out-default observable in the GIR"""
    decls = []
    comments = []
    for i, (nm, t, ann, d, ca, tr) in enumerate(OUT_CASES):
        decls.append({'d': 'function', 'name': 'foo_zo_%s' % nm, 'ret': {'k': 'void'},
                      'params': [{'name': 'x', 'type': t}], 'line': 10 + i})
        comments.append(('/**\n * foo_zo_%s:\n * @x: %s: a value\n */' % (nm, ann), '/src/foo.c', 100 + 10 * i))
    res = run_scan(ctx, decls, comments)
    idx = index_gir(res['gir'])
    reqs = []
    resolved = []
    for nm, t, ann, d, ca, tr in OUT_CASES:
        e = idx['function'].get('foo_zo_%s' % nm)
        rec = callable_record(e)['params'][0]
        cnt.hit('out-param:%s' % ann)
        cnt.case(['o', nm], nontrivial=True)
        if tr is None:
            ca = rec['caller_allocates']
            tr = 'none' if ca == '1' else 'full'
        resolved.append((nm, t, ann, d, ca, tr))
        if rec['direction'] != d or rec['caller_allocates'] != ca:
            ctx.notes.append('out case %s: direction=%r caller-allocates=%r' % (nm, rec['direction'], rec['caller_allocates']))
        if rec['transfer'] != tr:
            judge.fail('out-default:' + nm, 'parameter annotated %s of type %s has transfer-ownership=%r; documented default %r'
                       % (ann, json.dumps(t), rec['transfer'], tr), {'kind': 'out', 'case': nm})
        reqs.append({'op': 'c02.transfer', 'pos': 'parameter', 'ctor': False, 'dir': d, 'ca': ca == '1',
                     'ty': {'fundamental': 'gint', 'ctype': 'int*'}})
    model = ctx.driver.batch(reqs)
    for (nm, t, ann, d, ca, tr), mo in zip(resolved, model):
        if mo != tr:
            ctx.broken.append('correspondence c02.transfer (annotated direction) differs: %s model=%r documented=%r' % (nm, mo, tr))
    samples.append({'kind': 'out', 'case': OUT_CASES[0][0]})
    return len(OUT_CASES)


def check_strings(ctx, cnt, judge, tr, samples):
    """direct calls: _canonicalize_ctype and create_type_from_ctype_string on spellings (valid and malformed)"""
    m = scanpipe.mods()
    rng = ctx.rng
    canonicalize = internal(ctx, tr, '_canonicalize_ctype', 'c02.canon')
    from_string = internal(ctx, tr, 'create_type_from_ctype_string', 'c02.ctype_string')
    keys = sorted(m.ast.type_names)
    pool = []
    for k in keys + ['_Bool', 'bool', 'GStrv', 'GList', 'GSList', 'GLib.List', 'GLib.SList', 'GByteArray', 'GLib.ByteArray',
                     'GObject.ByteArray', 'GArray', 'GPtrArray', 'GLib.Array', 'GLib.PtrArray', 'GObject.Array',
                     'GObject.PtrArray', 'GHashTable', 'GLib.HashTable', 'GObject.HashTable', 'FooRec', 'Unknown', '',
                     'G', 'GLib.', '.', 'GList2', 'gList']:
        for d in range(4):
            pool.append(k + '*' * d)
    n = ctx.n(1500, 40000)
    alphabet = '* cghintrauf8_.'
    while len(pool) < n:
        k = rng.choice(keys)
        r = rng.random()
        if r < 0.3:
            i = rng.randint(0, len(k))
            s = k[:i] + rng.choice(alphabet) + k[i:]
        elif r < 0.5:
            s = k + rng.choice(['* *', ' *', '**', '*' * 5, '*x', '* '])
        elif r < 0.7:
            s = ''.join(rng.choice(alphabet) for _ in range(rng.randint(0, 8)))
        else:
            s = rng.choice(['const ', 'volatile ', '']) + k + '*' * rng.randint(0, 3)
        pool.append(s)
    model = ctx.driver.batch([{'op': 'c02.canon', 'ctype': s} for s in pool])
    nd = 0
    for s, mo in zip(pool, model):
        got = canonicalize(s)
        cnt.hit('canon:%s' % ('changed' if got != s else 'same'))
        cnt.case(['c', s], nontrivial=got != s)
        if got != mo:
            nd += 1
            if nd <= 3:
                ctx.broken.append('correspondence c02.canon differs: %r impl=%r model=%r' % (s, got, mo))
        # statement-level: canonical form of a known spelling is a GIR type name + the same stars
        b = s.rstrip('*')
        if b in ORACLE_NAMES and b not in ('_Bool', 'bool') and s in (b, b + '*', b + '**') \
                and not (b in STRING_BASES and s != b) and b + '*' not in m.ast.type_names:
            want = ORACLE_NAMES[b] + s[len(b):]
            if got != want:
                judge.fail('canon:' + s, '_canonicalize_ctype(%r) = %r, expected %r' % (s, got, want),
                           {'kind': 'canon', 's': s})
    reqs = []
    impl = []
    for s in pool[:ctx.n(1200, 12000)]:
        for is_ret in (False, True):
            for is_const in (False, True):
                reqs.append({'op': 'c02.ctype_string', 'ctype': s, 'is_return': is_ret, 'is_const': is_const,
                             'complete': 'const ' + s if is_const else None})
                t = from_string(s, is_const=is_const, is_return=is_ret,
                                complete_ctype='const ' + s if is_const else None)
                impl.append(t)
    model = ctx.driver.batch(reqs)
    nd = 0
    ast = m.ast
    for rq, t, mo in zip(reqs, impl, model):
        if isinstance(t, ast.Array):
            if t.array_type == ast.Array.C:
                got = {'kind': 'strv'} if (t.element_type.target_fundamental == 'utf8' and t.element_type.ctype is None) \
                    else {'kind': 'array?', 'name': None}
            else:
                got = {'kind': 'array', 'name': t.array_type, 'elem': t.element_type.target_fundamental}
        elif isinstance(t, ast.List):
            got = {'kind': 'list', 'name': t.name}
        elif isinstance(t, ast.Map):
            got = {'kind': 'map'}
        elif t.target_fundamental:
            got = {'kind': 'fundamental', 'name': t.target_fundamental}
        else:
            got = {'kind': 'unresolved'}
        got.update({'ctype': t.ctype or '', 'is_const': bool(t.is_const), 'complete': t.complete_ctype or ''})
        mm = {k: mo.get(k) for k in got}
        cnt.hit('ctype_string:' + got['kind'])
        if got != mm:
            nd += 1
            if nd <= 3:
                ctx.broken.append('correspondence c02.ctype_string differs: %s impl=%r model=%r' % (json.dumps(rq), got, mm))
    samples.append({'kind': 'canon', 's': pool[-1]})
    return len(pool) + len(reqs)


def run(ctx):
    t0 = time.time()
    cnt = Counter()
    ctx.prove(['gen_typenames', 'gen_defaults'], ['GIVerif.Props.C02'], 'GIVerif.Props.C02')
    setup(ctx)
    m = scanpipe.mods()
    judge = Judge(ctx, cnt)
    samples = []
    evaluations = 0

    base = run_scan(ctx, [])
    env = compute_env(m, base['transformer'])
    ctx.log('env: %d resolvable names; proofs/build %.1fs' % (len(env), time.time() - t0))

    # ---- corpus first
    corpus = load_corpus()
    ctypes = [c for c in corpus if c.get('kind') == 'type']
    carrs = [c['case'] for c in corpus if c.get('kind') == 'arr']
    if ctypes:
        check_types(ctx, cnt, judge, ctypes, env, samples, 'corpus')
    if carrs:
        check_arrangements(ctx, cnt, judge, carrs, env, samples)
    evaluations += len(ctypes) + len(carrs)

    # ---- direct calls (finite products, malformed strings)
    evaluations += guarded(ctx, 'c02.transfer', 'MainTransformer._get_transfer_default / ast node constructors',
                           check_transfer_direct, ctx, cnt, judge, base, samples)
    evaluations += guarded(ctx, 'c02.transfer', 'the (out)/(inout) annotation path', check_out_params, ctx, cnt, judge, samples)
    evaluations += guarded(ctx, 'c02.canon', 'Transformer._canonicalize_ctype / create_type_from_ctype_string',
                           check_strings, ctx, cnt, judge, base['transformer'], samples)
    ctx.log('direct-call correspondence done')

    # ---- every type spelling x depth x const placement x position
    tcases = type_cases(m, ctx)
    dis_t = check_types(ctx, cnt, judge, tcases, env, samples, 'type')
    evaluations += len(tcases)
    ctx.log('%d type cases done' % len(tcases))

    # ---- every arrangement of parameter roles
    acases = arrangement_cases(ctx)
    dis_a = check_arrangements(ctx, cnt, judge, acases, env, samples)
    evaluations += len(acases)
    ctx.log('%d arrangements done' % len(acases))

    # ---- failing-input search around disagreements: one-edit neighbours through the oracle
    for c in dis_a[:5]:
        ps = c['params']
        neigh = []
        for i in range(len(ps)):
            neigh.append(dict(c, params=ps[:i] + ps[i + 1:]))
            for k in KINDS:
                if k != ps[i]['kind']:
                    kinds = [p['kind'] for p in ps]
                    kinds[i] = k
                    neigh.append(arrangement_case(kinds, 0, None, callback=c.get('callback', False), owner=c.get('owner')))
        check_arrangements(ctx, cnt, judge, neigh, env, [])
        cnt.hit('search:neighbours', len(neigh))
        evaluations += len(neigh)
    for c in dis_t[:5]:
        neigh = []
        b, lv = flat(c['t'], False)
        for pos in ('param', 'return', 'field', 'const'):
            for d in range(len(lv) + 2):
                for quals in all_quals(d, (0, Q_CONST)):
                    if b['k'] in ('void', 'basic', 'typedef'):
                        neigh.append({'pos': pos, 't': mk(b, quals), 'sp': 'search'})
        check_types(ctx, cnt, judge, neigh[:400], env, [], 'search')
        evaluations += len(neigh[:400])

    ctx.coverage.update({
        'evaluations': evaluations,
        'distinct_nontrivial': cnt.n_distinct(),
        'rule': 'exhaustive small scope, no sampling for the two main products: (1) every base spelling of '
                'ast.type_names (+ _Bool/bool, GStrv, bare containers, typedef\'d record/union/enum/flags/callback/'
                'alias of the namespace, included GLib/GObject/Gio types, unknown names) x pointer depth 0-3 x every '
                'const placement x {parameter, return, field, constant}; volatile and array forms on a subset '
                '(all spellings in thorough); (2) every arrangement of <= 4 parameters + 4500 seeded ones of length 5 '
                '(thorough: every arrangement of <= 6) over {callback, '
                'user-data-like gpointer, other gpointer, GDestroyNotify, GAsyncReadyCallback, GError**, int} as '
                'functions, <= 3 (4) as callback typedefs, with seeded alternative spellings/names; the same arrangements '
                '(every one of <= 3 (4) parameters + 600 (6000) seeded longer ones, mostly ending in GError**) as functions '
                'named after the plain record FooRec / union FooUni (foo_rec_*, foo_uni_*: static function + moved-to '
                'twin), EVERY emitted copy of the callable being compared with the model and judged; (3) '
                '_get_transfer_default on real ast objects for position x direction x caller-allocates x 60 type '
                'classes x const x constructor; (4) seeded valid/malformed ctype strings through _canonicalize_ctype '
                'and create_type_from_ctype_string.  Every case: real pipeline output vs model, and the statement '
                'oracle on the real output.  distinct = content hash; non-trivial = arrangement has a callback or a '
                'GError**, canonicalisation changed the string, every type case.',
        'samples': samples[:12],
        'distribution': cnt.counts,
        'corpus_cases': len(corpus),
        'exhaustive': True,
        'type_cases': len(tcases),
        'arrangements': len(acases),
    })
    ctx.assumptions.extend([
        'inputs start at the parsed symbol stream (scanpipe): the C lexer/parser is not exercised',
        'namespace lookup (Transformer.resolve_type / lookup_typenode / resolve_aliases) is a parameter of the '
        'model (Env); the harness fills it from the real transformer objects',
        'anonymous struct/union/enum types in parameter/return/field position are outside the model (named tags only)',
        'struct-tag spellings (struct _Foo *) and inline function pointers are modelled and compared but not judged by '
        'the c:type oracle: the statement quantifies over basic/typedef\'d/pointer/const-qualified spellings',
        'direction out/inout only arises from annotations (C01); here: the default-transfer function on real objects '
        'for all directions + 11 minimal annotated declarations',
        'constructor / GObject.InitiallyUnowned chain: compared on real objects by direct calls of _get_transfer_default, '
        'not through generated class hierarchies',
    ])


def replay(ctx, rep):
    setup(ctx)
    m = scanpipe.mods()
    cnt = Counter()
    judge = Judge(ctx, cnt)
    r = rep['replay']
    base = run_scan(ctx, [])
    env = compute_env(m, base['transformer'])
    if r['kind'] == 'type':
        c = r['case']
        res = run_scan(ctx, type_decls(0, [c]))
        idx = index_gir(res['gir'])
        rec, _whole = find_type_record(idx, field_map(idx), 0, c)
        print('declared %s in %s position -> %s' % (json.dumps(c['t']), c['pos'], json.dumps(rec)))
        if rec is not None:
            judge.type_case(c, rec)
    elif r['kind'] == 'arr':
        c = r['case']
        res = run_scan(ctx, [arrangement_decl(0, c)])
        idx = index_gir(res['gir'])
        for where, e in arrangement_copies(idx, 0, c):
            rec = callable_record(e)
            print('arrangement %s%s -> %s' % (json.dumps(c), ' [copy: %s]' % where if where else '', json.dumps(rec)))
            judge.arrangement(c, rec, where)
    elif r['kind'] in ('transfer', 'typecontainer'):
        check_transfer_direct(ctx, cnt, judge, base, [])
    elif r['kind'] == 'out':
        check_out_params(ctx, cnt, judge, [])
    elif r['kind'] == 'canon':
        check_strings(ctx, cnt, judge, base['transformer'], [])
    else:
        return 2
    for v in ctx.violations:
        print('VIOLATION: ' + v['what'])
    for h in ctx.known_hits:
        print('KNOWN-FINDING: ' + h['what'])
    return 1 if ctx.violations else 0
