"""C04 — Each public C symbol is described once, under the right name and owner.

Proof: lean/GIVerif/Props/C04.lean over the model lean/GIVerif/Model/Naming.lean.
Tie:   (1) translators/gen_naming.py re-reads the three regexes / substitution steps / literals;
       (2) correspondence of every string-level function (to_underscores*, namespace splitter,
           strip_identifier, _strip_symbol, _split_uscored_by_type, prefix defaults, str.find,
           constructor-name guess) with the real giscanner code on generated identifiers;
       (3) correspondence of the whole pipeline model (`describe`) with the live namespace the real
           Transformer.parse -> GDumpParser -> MainTransformer leave behind, on generated declaration
           sets x prefix configurations;
       (4) an oracle written from the property statement, evaluated on the GIR the REAL pipeline
           writes for every generated configuration (the failing-input search).
Private functions of /repo are only called guarded: when one disappears or changes its signature the
correspondence is reported in ctx.broken and the pipeline-level oracle (public entry points) still runs.
"""
import json
import os
import re
import sys
import traceback

from core import REPO, Counter
import scanpipe
from scanpipe import T, P, q

HERE = os.path.dirname(os.path.abspath(__file__))
CORPUS = os.path.join(os.path.dirname(HERE), 'corpus', 'C04')

# Genuine defects of the unchanged tree found by this check (see final report / known_findings.json).
# The key names the call site and the exact input class; any OTHER violation is still reported.
PENDING_FINDINGS = {
    'maintransformer._setup_method/_get_constructor_name:str.find(subsymbol)-leftmost-occurrence':
        'the GIR name of a method/constructor is cut at symbol.find(subsymbol); when the text of the '
        'stripped symbol also occurs earlier in the symbol (foo_foo_foo on Foo.Foo) too little is cut: '
        'method name="foo_foo" instead of "foo"',
}
# Repaired in /repo (their corpus cases are regressions that must pass unsuppressed):
#   5ba500c ancestor walk of _is_constructor stopped at GObject.Object; 11d283b AttributeError when a *_new
#   function of a boxed record returns a class; f0089a0 top-level callback written without c:type;
#   54063d6 annotated constructor named by a cut that assumed a leading type prefix.

# ---------------------------------------------------------------------------------------------
# vocabulary
# ---------------------------------------------------------------------------------------------
# (CamelCase base name, its underscored form) — written by hand, independent of utils.to_underscores
TYPE_POOL = [('Text', 'text'), ('TextBuffer', 'text_buffer'), ('TextBufferIter', 'text_buffer_iter'),
             ('TextTag', 'text_tag'), ('Widget', 'widget'), ('Button', 'button'), ('Label', 'label'),
             ('HTMLView', 'html_view'), ('X', 'x'), ('Obj2', 'obj2'), ('Window', 'window'),
             ('WindowObject', 'window_object'), ('Tex', 'tex'),
             # type names with Get / GetType / Set words in inner and final positions: the symbol prefix of a
             # registered type is its get-type symbol minus the FINAL _get_type / _get_gtype only
             ('Http', 'http'), ('HttpGetRequest', 'http_get_request'), ('Getter', 'getter'),
             ('TargetGet', 'target_get'), ('WidgetGetTypeHelper', 'widget_get_type_helper'),
             ('NoGetSetFunc', 'no_get_set_func'), ('GetGtypeInfo', 'get_gtype_info')]
GET_WORD_TYPES = [t for t in TYPE_POOL if 'Get' in t[0] or t[0] == 'Http']
ENUM_POOL = [('Mode', 'mode'), ('TargetGetKind', 'target_get_kind'), ('GetFlags', 'get_flags'), ('TextStyle', 'text_style')]
WORDS = ['Foo', 'Bar', 'Text', 'Buffer', 'X', 'HTML', 'DBus', 'A', 'Ab', 'ABC', 'Gtk', 'G', 'Iter', 'V2', 'x11', 'Io',
         'IO', 'UInt8', '3D', 'b', 'Z9z']
NS_POOL = ['Foo', 'Gtk', 'GFoo', 'FooBar', 'Abc', 'G', 'Gdk']


def hand_uscore(p):
    """generator-side guess of the default symbol prefix of an identifier prefix (only used to build
    interesting symbols; nothing is judged with it)"""
    out = []
    for i, ch in enumerate(p):
        if ch.isupper() and i > 0 and (not p[i - 1].isupper() or i == 1):
            out.append('_')
        out.append(ch.lower())
    return ''.join(out)


def spec_squash(s):
    return s.replace('_', '').lower()


# ---------------------------------------------------------------------------------------------
# include GIR files (written into ctx.scratch)
# ---------------------------------------------------------------------------------------------
GIR_HEAD = ('<?xml version="1.0"?>\n<repository version="1.2" xmlns="http://www.gtk.org/introspection/core/1.0" '
            'xmlns:c="http://www.gtk.org/introspection/c/1.0" xmlns:glib="http://www.gtk.org/introspection/glib/1.0">\n')

INCLUDES = {
    # name: (version, id prefixes attr, sym prefixes attr, deps, nodes)
    # node: (kind, name, ctype, gtype|None, parent giname|None[, c:symbol-prefix attribute])
    # (a type without the attribute is known to the pairing under its underscored GIR name)
    'GObject': ('2.0', 'G', 'g', [], [
        ('class', 'Object', 'GObject', 'GObject', None),
        ('class', 'InitiallyUnowned', 'GInitiallyUnowned', 'GInitiallyUnowned', 'Object'),
        ('record', 'Value', 'GValue', 'GValue', None),
        ('record', 'tkLookalike', 'GtkLookalike', None, None),
        ('record', 'Closure', 'GClosure', 'GClosure', None, 'closure'),
        ('class', 'Binding', 'GBinding', 'GBinding', 'Object', 'bnd'),
    ]),
    'Foo': ('1.0', 'Foo', 'foo', ['GObject'], [
        ('class', 'Base', 'FooBase', 'FooBase', 'GObject.Object'),
        ('record', 'Thing', 'FooThing', None, None),
        ('class', 'Widget', 'FooWidget', 'FooWidget', 'Base', 'wdg'),
        ('interface', 'Iface', 'FooIface', 'FooIface', None, 'iface'),
        ('union', 'Event', 'FooEvent', None, None, 'event'),
    ]),
    'Plain': ('1.0', '', '', [], [
        ('record', 'plain_t', 'plain_t', None, None),
        ('record', 'PlainRec', 'PlainRec', None, None),
    ]),
    'Ab': ('1.0', 'Ab', 'ab', [], [
        ('record', 'cThing', 'AbcThing', None, None),
        ('record', 'Rec', 'AbRec', None, None),
        ('record', 'Rect', 'AbRect', 'AbRect', None, 'rect'),
    ]),
}


def inc_node(node):
    """(kind, name, ctype, gtype, parent, symbol prefix attribute or None)"""
    return tuple(node) + (None, ) * (6 - len(node))


# hand-written underscored GIR names of the include types (what a symbol would call them)
INC_USCORED = {'Object': 'object', 'InitiallyUnowned': 'initially_unowned', 'Value': 'value',
               'tkLookalike': 'tk_lookalike', 'Closure': 'closure', 'Binding': 'binding', 'Base': 'base',
               'Thing': 'thing', 'Widget': 'widget', 'Iface': 'iface', 'Event': 'event', 'plain_t': 'plain_t',
               'PlainRec': 'plain_rec', 'cThing': 'c_thing', 'Rec': 'rec', 'Rect': 'rect'}

_written = {}


def write_include(scratch, name):
    ver, idp, symp, deps, nodes = INCLUDES[name]
    if (scratch, name) in _written:
        return _written[(scratch, name)]
    out = [GIR_HEAD]
    for d in deps:
        out.append('  <include name="%s" version="%s"/>\n' % (d, INCLUDES[d][0]))
    out.append('  <namespace name="%s" version="%s" c:identifier-prefixes="%s" c:symbol-prefixes="%s">\n'
               % (name, ver, idp, symp))
    for kind, nm, ctype, gtype, parent, symprefix in map(inc_node, nodes):
        attrs = 'name="%s" c:type="%s"' % (nm, ctype)
        if symprefix is not None:
            attrs += ' c:symbol-prefix="%s"' % symprefix
        if gtype:
            attrs += ' glib:type-name="%s" glib:get-type="intern"' % gtype
        if parent:
            attrs += ' parent="%s"' % parent
        out.append('    <%s %s/>\n' % (kind, attrs))
    out.append('  </namespace>\n</repository>\n')
    path = os.path.join(scratch, '%s-%s.gir' % (name, ver))
    with open(path, 'w') as f:
        f.write(''.join(out))
    _written[(scratch, name)] = path
    return path


def include_order(names):
    """order of Transformer._parsed_includes: dependencies are registered before their dependant"""
    order = []

    def visit(n):
        if n in order:
            return
        for d in INCLUDES[n][3]:
            visit(d)
        order.append(n)
    for n in names:
        visit(n)
    return order


# ---------------------------------------------------------------------------------------------
# model-side environment (built from the configuration, NOT from the implementation's objects)
# ---------------------------------------------------------------------------------------------
def model_cfg(case, m):
    order = include_order(case['includes'])
    ns = case['namespace']
    idp = case['id_prefixes'] if case['id_prefixes'] is not None else [ns]
    if case['sym_prefixes'] is not None:
        symp = case['sym_prefixes']
    else:
        symp = None     # filled from the model's own defaultSymPrefixes by the caller
    incs = []
    inc_nodes = []
    for n in order:
        ver, idattr, symattr, deps, nodes = INCLUDES[n]
        ids = idattr.split(',') if idattr else []
        syms = symattr.split(',') if symattr else []
        incs.append({'name': n, 'id': ids, 'sym': syms, 'names': [x[1] for x in nodes]})
        lst = []
        for kind, nm, ctype, gtype, parent, symprefix in map(inc_node, nodes):
            pref = None
            if parent:
                if '.' in parent:
                    pns, pn = parent.split('.', 1)
                    pref = [order.index(pns), pn]
                else:
                    pref = [order.index(n), parent]
            lst.append({'name': nm, 'ctype': ctype, 'kind': kind, 'gtype': gtype, 'parent': pref,
                        'sym_prefix': symprefix})
        inc_nodes.append(lst)
    return {'cur': {'name': ns, 'id': idp, 'sym': symp, 'names': []}, 'incs': incs,
            'accept': bool(case.get('accept_unprefixed')), 'inc_nodes': inc_nodes}, order


def ct_of(t, type_names):
    """scanpipe type JSON -> model CT"""
    stars = 0
    while t['k'] == 'ptr':
        stars += 1
        t = t['to']
    if t['k'] == 'void':
        base = 'void'
    else:
        base = t['n']
    return {'base': base, 'stars': stars, 'fund': base in type_names}


def model_decls(case, type_names):
    """the declaration list in the model's vocabulary (same order as the symbols)"""
    ann = case.get('annotations', {})
    out = []
    for d in case['decls']:
        k = d['d']
        if k == 'function':
            a = ann.get(d['name'], [])
            out.append({'d': 'function', 'name': d['name'], 'ret': ct_of(d['ret'], type_names),
                        'params': [ct_of(p['type'], type_names) for p in d.get('params', [])],
                        'method': 'method' in a, 'ctor': 'constructor' in a})
        elif k == 'const':
            out.append({'d': 'const', 'name': d['name']})
        elif k == 'enum':
            out.append({'d': 'enum', 'name': d['name']})
        elif k in ('struct', 'union'):
            out.append({'d': 'tag_compound', 'name': d['name'], 'union': k == 'union'})
        elif k == 'typedef':
            t = d['type']
            if t['k'] in ('struct', 'union'):
                out.append({'d': 'typedef_compound', 'name': d['name'], 'tag': t.get('n'),
                            'union': t['k'] == 'union'})
            elif t['k'] == 'enum':
                out.append({'d': 'enum', 'name': d['name']})
            elif t['k'] == 'ptr' and t['to']['k'] == 'func' or t['k'] == 'func':
                out.append({'d': 'callback', 'name': d['name']})
            else:
                out.append({'d': 'alias', 'name': d['name']})
        else:
            raise ValueError(k)
    return out


def model_dump(case):
    if case.get('dump') is None:
        return None
    return [{'kind': e['kind'], 'name': e['name'], 'get_type': e['get_type'], 'parents': e.get('parents', [])}
            for e in case['dump']]


def dump_xml(entries):
    out = ['<?xml version="1.0"?><dump>']
    for e in entries:
        attrs = 'name="%s" get-type="%s"' % (e['name'], e['get_type'])
        if e['kind'] == 'class':
            attrs += ' parents="%s"' % ','.join(e.get('parents', []))
        out.append('<%s %s/>' % (e['kind'], attrs))
    out.append('</dump>')
    return '\n'.join(out)


def comments_of(case):
    out = []
    line = 1
    for name, anns in sorted(case.get('annotations', {}).items()):
        out.append(('/**\n * %s: %s\n */' % (name, ' '.join('(%s)' % a for a in anns)), '/src/ann.h', line))
        line += 10
    return out


def scan_cfg(case, scratch, stop_after=None):
    paths = [write_include(scratch, n) for n in include_order(case['includes'])]
    by = dict(zip(include_order(case['includes']), paths))
    cfg = {'namespace': case['namespace'], 'id_prefixes': case['id_prefixes'], 'sym_prefixes': case['sym_prefixes'],
           'decls': case['decls'], 'includes': [by[n] for n in case['includes']], 'include_paths': [scratch],
           'accept_unprefixed': bool(case.get('accept_unprefixed')), 'comments': comments_of(case),
           'stop_after': stop_after}
    if case.get('dump') is not None:
        cfg['dump'] = dump_xml(case['dump'])
    return cfg


# ---------------------------------------------------------------------------------------------
# canonical forms
# ---------------------------------------------------------------------------------------------
def impl_kind(m, node):
    a = m.ast
    if isinstance(node, a.Function):
        return 'function'
    for cls, k in ((a.Constant, 'constant'), (a.Alias, 'alias'), (a.Callback, 'callback'), (a.Enum, 'enum'),
                   (a.Bitfield, 'enum'), (a.Class, 'class'), (a.Interface, 'interface'), (a.Boxed, 'boxed'),
                   (a.Union, 'union'), (a.Record, 'record')):
        if isinstance(node, cls):
            return k
    return type(node).__name__


def canon_impl(m, res, order):
    ns = res['namespace']
    tr = res['transformer']
    top = []
    owned = []

    def ref(t):
        if t is None or not t.target_giname:
            return None
        nsn, nm = t.target_giname.split('.', 1)
        return [-1 if nsn == ns.name else order.index(nsn), nm]
    for name, node in ns.names.items():
        k = impl_kind(m, node)
        cid = node.symbol if k == 'function' else getattr(node, 'ctype', None)
        ent = {'kind': k, 'name': node.name, 'cid': cid, 'moved_to': getattr(node, 'moved_to', None)}
        if k != 'function':
            ent['get_type'] = getattr(node, 'get_type', None)
            ent['sym_prefix'] = getattr(node, 'c_symbol_prefix', None)
            ent['parent'] = ref(getattr(node, 'parent_type', None)) if k == 'class' else None
        top.append(ent)
        for role, attr in (('method', 'methods'), ('constructor', 'constructors'), ('function', 'static_methods')):
            for fn in getattr(node, attr, []) or []:
                owned.append({'owner': node.name, 'role': role, 'name': fn.name, 'cid': fn.symbol,
                              'moved_to': fn.moved_to})
    return {'top': sorted(top, key=lambda e: json.dumps(e, sort_keys=True)),
            'owned': sorted(owned, key=lambda e: json.dumps(e, sort_keys=True))}


def canon_model(r):
    if 'err' in r:
        return {'abort': 'crash' if r['err'] == 'crash' else 'fatal', 'detail': r}
    top = []
    for e in r['top']:
        ent = {'kind': e['kind'], 'name': e['name'], 'cid': e['cid'], 'moved_to': e['moved_to']}
        if e['kind'] != 'function':
            ent['get_type'] = e['get_type']
            ent['sym_prefix'] = e['sym_prefix']
            ent['parent'] = e['parent'] if e['kind'] == 'class' else None
        top.append(ent)
    return {'top': sorted(top, key=lambda e: json.dumps(e, sort_keys=True)),
            'owned': sorted(r['owned'], key=lambda e: json.dumps(e, sort_keys=True))}


def run_impl(m, case, scratch, stop_after):
    """the real pipeline; returns (outcome, result) with outcome in ok / fatal / crash"""
    try:
        res = scanpipe.scan(scan_cfg(case, scratch, stop_after))
        return 'ok', res
    except SystemExit as e:
        return 'fatal', str(e)
    except Exception as e:  # noqa
        return 'crash', '%s: %s' % (type(e).__name__, e)


# ---------------------------------------------------------------------------------------------
# the oracle, written from the property statement, evaluated on the real GIR
# ---------------------------------------------------------------------------------------------
TOP_TYPE_TAGS = ['record', 'union', 'class', 'interface', 'alias', 'callback', 'enumeration', 'bitfield', 'constant',
                 'glib:boxed']


def gir_elements(gir_text):
    """every described element: (where, tag, attrs, element, parent element)"""
    root = scanpipe.gir_tree(gir_text)
    nsel = root.find(q('namespace'))
    out = []
    for el in nsel:
        tag = el.tag.split('}')[1]
        out.append(('top', tag, el, None))
        for sub in el:
            stag = sub.tag.split('}')[1]
            if stag in ('method', 'constructor', 'function'):
                out.append(('owned', stag, sub, el))
    return nsel, out


def spec_symbol_strips(name, sym_prefixes):
    """what is left of a symbol after removing a namespace symbol prefix and its '_' separator
    (upper-case spelling of the prefix for names starting upper-case)"""
    out = []
    for p in sym_prefixes:
        p = p if p.endswith('_') else p + '_'
        if name[:1].isupper():
            p = p.upper()
        if name.startswith(p):
            out.append(name[len(p):])
    return out


def spec_ident_strips(name, id_prefixes):
    return [name[len(p):] for p in id_prefixes if name.startswith(p)]


def spec_include_match(name, case, is_ident):
    """does some INCLUDED namespace claim the name by prefix?"""
    for n in include_order(case['includes']):
        ver, idattr, symattr, deps, nodes = INCLUDES[n]
        if is_ident:
            if spec_ident_strips(name, idattr.split(',') if idattr else []):
                return True
        else:
            if spec_symbol_strips(name, symattr.split(',') if symattr else []):
                return True
    return False


def base_of_ctype(ct):
    return (ct or '').replace('*', '').replace('const ', '').strip()


def owner_prefixes(type_el, reg):
    """spellings of the owning type's symbol prefix: for a GType-registered type what its get-type function
    says (`reg`, computed in oracle() from the dump; <enumeration>/<bitfield> carry no attribute at all),
    otherwise the c:symbol-prefix attribute"""
    fromreg = sorted((reg or {}).get(type_el.get(q('glib:get-type')), ()))
    if fromreg:
        return fromreg
    sp = type_el.get(q('c:symbol-prefix'))
    return [sp] if sp else []


def type_prefix_strips(sub, type_el, reg=None):
    """names obtainable from `sub` by removing the owning type's symbol prefix and the separator"""
    out = set()
    tname = type_el.get('name')
    for sp in owner_prefixes(type_el, reg):
        if sub.startswith(sp + '_'):
            out.add(sub[len(sp) + 1:])
    want = spec_squash(tname)
    for k in range(1, len(sub)):
        if sub[k] == '_' and spec_squash(sub[:k]) == want:
            out.add(sub[k + 1:])
    return out


def type_prefix_lengths(sub, type_el, reg=None):
    """lengths of the spellings of the owning type's symbol prefix that lead `sub`"""
    out = set()
    for sp in owner_prefixes(type_el, reg):
        if sub.startswith(sp):
            out.add(len(sp))
    want = spec_squash(type_el.get('name'))
    for k in range(1, len(sub) + 1):
        if spec_squash(sub[:k]) == want and not sub[:k].endswith('_'):
            out.add(k)
    return out


def carries_type_prefix(sub, type_el, reg=None):
    if any(sub.startswith(sp) for sp in owner_prefixes(type_el, reg)):
        return True
    want = spec_squash(type_el.get('name'))
    return any(spec_squash(sub[:k]) == want for k in range(1, len(sub) + 1))


def oracle(ctx, case, outcome, res, cnt, type_names):
    """judge the real GIR against the statement; returns a verdict label"""
    ns = case['namespace']
    idp = case['id_prefixes'] if case['id_prefixes'] is not None else [ns]
    if outcome == 'fatal':
        return 'outside:scanner-refused'          # fail-loud namespace conflict: no GIR to judge
    if outcome == 'crash':
        fail(ctx, case, 'crash', None, 'the scanner crashed (%s) on declarations the property covers' % res)
        return 'violation'
    nsel, els = gir_elements(res['gir'])
    symp = (nsel.get(q('c:symbol-prefixes')) or '').split(',')
    symp = [p for p in symp if p != ''] if case['sym_prefixes'] is None else case['sym_prefixes']
    ann = case.get('annotations', {})
    accept = bool(case.get('accept_unprefixed'))
    dump = {e['name']: e for e in (case.get('dump') or [])}
    get_types = set(e['get_type'] for e in (case.get('dump') or []))

    # declared names by class
    funcs = {}
    types = {}
    consts = {}
    for d in case['decls']:
        k = d['d']
        if k == 'function':
            funcs[d['name']] = d
        elif k == 'const':
            consts[d['name']] = d
        elif k == 'typedef':
            types[d['name']] = d
        elif k == 'enum' and d.get('name'):
            types[d['name']] = d
        elif k in ('struct', 'union'):
            # a tag that is typedef'd is described under the typedef name
            if not any(x['d'] == 'typedef' and x['type'].get('n') == d['name'] and x['type']['k'] in ('struct', 'union')
                       for x in case['decls']):
                types[d['name']] = d

    by_cid = {}
    no_ctype = set()
    for where, tag, el, parent in els:
        cid = el.get(q('c:identifier')) if tag in ('function', 'method', 'constructor') else el.get(q('c:type'))
        if where == 'top' and tag == 'callback' and cid is None:
            cid = el.get('name')
            no_ctype.add(cid)
        if where == 'top' and tag not in ('function', ) + tuple(t.split(':')[-1] for t in TOP_TYPE_TAGS):
            continue
        if cid is None:
            continue
        by_cid.setdefault(cid, []).append((where, tag, el, parent))

    verdict = 'ok'

    def bad(key, what):
        nonlocal verdict
        verdict = 'violation'
        fail(ctx, case, key, None, what)

    # ---- the symbol prefix of a GType-registered type: its get-type function (folded into the type) minus the
    # namespace prefix and minus the final _get_type / _get_gtype
    reg = {}
    for e in (case.get('dump') or []):
        gt = e['get_type']
        expected = reg.setdefault(gt, set())
        for st in spec_symbol_strips(gt, symp):
            for suf in ('_get_type', '_get_gtype'):
                if st.endswith(suf):
                    expected.add(st[:-len(suf)])
                    break
        if any(st in ('get_type', 'get_gtype') for st in spec_symbol_strips(gt, symp)):
            # under one of the namespace prefixes nothing but the suffix is left: a type named by a prefix
            cnt.hit('registered:type-named-by-a-prefix(outside)')
            continue
        for where, tag, el, parent in els:
            if where == 'top' and el.get(q('glib:get-type')) == gt:
                cnt.hit('registered:%s:%s' % (tag, 'gtype' if gt.endswith('_get_gtype') else 'type'))
                if '_get_' in gt[:-len('_get_gtype' if gt.endswith('_get_gtype') else '_get_type')]:
                    cnt.hit('registered:inner-get-word')
                # (<enumeration> / <bitfield> carry no c:symbol-prefix attribute in the GIR format: their prefix
                # is only judged through the names of the functions hung on them)
                if expected and el.get(q('c:symbol-prefix')) is not None and \
                        el.get(q('c:symbol-prefix')) not in expected:
                    bad('symbol-prefix', '%s %s registered by %s has c:symbol-prefix %r; the get-type symbol minus '
                        'namespace prefix and final suffix gives %r'
                        % (tag, el.get('name'), gt, el.get(q('c:symbol-prefix')), sorted(expected)))

    def ancestors(ctype):
        """C names of the type and its ancestors, from the dump's parent lists and the includes"""
        out = [ctype]
        seen = set()
        cur = ctype
        while cur and cur not in seen:
            seen.add(cur)
            e = dump.get(cur)
            if e is not None and e.get('parents'):
                out.extend(e['parents'])
                cur = e['parents'][-1]
                continue
            nxt = None
            for n in include_order(case['includes']):
                for kind, nm, ct, gt, par, _sp in map(inc_node, INCLUDES[n][4]):
                    if ct == cur and par:
                        pn = par.split('.')[-1]
                        pns = par.split('.')[0] if '.' in par else n
                        for kind2, nm2, ct2, gt2, par2, _sp2 in map(inc_node, INCLUDES[pns][4]):
                            if nm2 == pn:
                                nxt = ct2
            if nxt:
                out.append(nxt)
            cur = nxt
        return out

    # ---- (a) every public prefixed declaration is described exactly once, correctly named
    for name, d in funcs.items():
        strips = spec_symbol_strips(name, symp)
        inc = spec_include_match(name, case, False)
        found = by_cid.get(name, [])
        if name.startswith('_'):
            cnt.hit('decl:function:underscore')
            if found:
                bad('underscore-function-described', 'function %s starts with an underscore but is described' % name)
            continue
        if not strips:
            if accept and not inc:
                strips = [name]
            else:
                cnt.hit('decl:function:foreign' if inc else 'decl:function:unprefixed')
                if found:
                    bad('foreign-function-described', 'function %s carries no prefix of the namespace but is described'
                        % name)
                continue
        if name in get_types and name.endswith(('_get_type', '_get_gtype')) and not d.get('params'):
            cnt.hit('decl:function:get_type')
            holders = [el for w, t, el, p in els if el.get(q('glib:get-type')) == name]
            if found or len(holders) != 1:
                bad('get-type-not-folded', 'get-type function %s: described %d times as a function, named by %d types'
                    % (name, len(found), len(holders)))
            continue
        if '' in strips:
            cnt.hit('decl:function:name-is-prefix(outside)')
            continue
        cnt.hit('decl:function:public')
        plain = [f for f in found if f[2].get('moved-to') is None]
        copies = [f for f in found if f[2].get('moved-to') is not None]
        if len(plain) != 1 or len(copies) > 1:
            bad('function-count', 'function %s is described %d times (+%d moved-to copies); exactly once is required'
                % (name, len(plain), len(copies)))
            continue
        where, tag, el, parent = plain[0]
        got = el.get('name')
        annotated = bool(ann.get(name))
        if where == 'top':
            cnt.hit('owner:toplevel')
            if got not in strips:
                bad('toplevel-name', 'function %s is named %r; stripping the namespace prefix gives %r'
                    % (name, got, strips))
        elif parent.get(q('c:type')) is None or parent.get('name') in ('', '_') or \
                '' in spec_ident_strips(parent.get(q('c:type')), idp):
            cnt.hit('owner:type-named-by-a-prefix(outside)')
        else:
            cnt.hit('owner:' + tag)
            ok_names = set()
            for s in strips:
                ok_names |= type_prefix_strips(s, parent, reg)
            carries = any(carries_type_prefix(s, parent, reg) for s in strips)
            if annotated:
                ok_names |= set(strips)            # an annotated function may keep its namespace-stripped name
            if got not in ok_names:
                key = 'owned-name'
                # the remaining known defect, exactly: the stripped symbol st also occurs EARLIER in the C symbol
                # and the name is the C symbol cut at (that leftmost position + type prefix + 1)
                sub_cut = [st for st in strips if name.find(st) != len(name) - len(st) and any(
                    got == name[name.find(st) + L + 1:] for L in type_prefix_lengths(st, parent, reg))]
                if sub_cut:
                    key = 'maintransformer._setup_method/_get_constructor_name:str.find(subsymbol)-leftmost-occurrence'
                bad(key, '%s %s of %s is named %r; stripping namespace and type prefix gives %r'
                    % (tag, name, parent.get('name'), got, sorted(ok_names)))
            if tag == 'method':
                # first parameter is the owning type, which is of this namespace
                ip = el.find(q('parameters') + '/' + q('instance-parameter') + '/' + q('type'))
                first = d['params'][0]['type'] if d.get('params') else None
                first_base = ct_of(first, type_names)['base'] if first else None
                if first_base is not None and first_base not in types:
                    cnt.hit('method:first-parameter-type-undeclared(outside)')
                elif ip is None or first_base != parent.get(q('c:type')):
                    bad('method-owner', 'method %s hangs on %s (%s) but its first parameter is %s'
                        % (name, parent.get('name'), parent.get(q('c:type')), first_base))
                if not ('method' in ann.get(name, [])) and not carries:
                    bad('method-prefix', 'method %s of %s does not carry the type prefix and is not annotated'
                        % (name, parent.get('name')))
            elif tag == 'constructor':
                if 'constructor' in ann.get(name, []):
                    cnt.hit('ctor:annotated(outside prefix rule)')
                elif not carries:
                    bad('ctor-prefix', 'constructor %s of %s does not carry the type prefix' % (name, parent.get('name')))
                rb = ct_of(d['ret'], type_names)['base']
                anc = ancestors(parent.get(q('c:type')))
                if rb not in anc:
                    key = 'ctor-return'
                    bad(key, 'constructor %s of %s returns %s which is neither that type nor an ancestor (%s)'
                        % (name, parent.get('name'), rb, anc))
        for where2, tag2, el2, parent2 in copies:
            cnt.hit('copy:' + where2 + ':' + tag2)

    for name, d in consts.items():
        strips = spec_symbol_strips(name, symp)
        inc = spec_include_match(name, case, False)
        found = by_cid.get(name, [])
        if name.startswith('_'):
            if found:
                bad('underscore-constant-described', 'constant %s starts with an underscore but is described' % name)
            continue
        if not strips:
            if accept and not inc:
                strips = [name]
            else:
                if found:
                    bad('foreign-constant-described', 'constant %s carries no prefix of the namespace but is described'
                        % name)
                continue
        cnt.hit('decl:constant:public')
        if len(found) != 1 or found[0][2].get('name') not in strips:
            bad('constant', 'constant %s: described %d times, named %r, expected one of %r'
                % (name, len(found), [f[2].get('name') for f in found], strips))

    for name, d in types.items():
        found = [f for f in by_cid.get(name, []) if f[0] == 'top' and f[1] != 'function' and f[1] != 'constant']
        is_cb = d['d'] == 'typedef' and (d['type']['k'] == 'func' or (d['type']['k'] == 'ptr' and d['type']['to']['k'] == 'func'))
        if name.startswith('_'):
            cnt.hit('decl:type:underscore(outside)')
            continue
        if is_cb and name.find('_') > 0:
            # symbol-style callback name: judged by the symbol prefixes; mixed styles are outside
            strips = spec_symbol_strips(name, symp)
            inc = spec_include_match(name, case, False)
            if not strips and spec_ident_strips(name, idp):
                cnt.hit('decl:callback:mixed-style(outside)')
                continue
        else:
            strips = spec_ident_strips(name, idp)
            inc = spec_include_match(name, case, True)
        if not strips:
            if accept and not inc:
                strips = [name]
            else:
                cnt.hit('decl:type:foreign' if inc else 'decl:type:unprefixed')
                if found:
                    bad('foreign-type-described', 'type %s carries no prefix of the namespace but is described' % name)
                continue
        if '' in strips:
            cnt.hit('decl:type:name-is-prefix(outside)')
            continue
        if d['d'] == 'typedef' and d['type']['k'] not in ('struct', 'union', 'enum') and not is_cb:
            if any(s in type_names or s.endswith('_autoptr') for s in strips):
                cnt.hit('decl:alias:fundamental-name(outside)')
                continue
        cnt.hit('decl:type:public')
        if name in no_ctype:
            bad('callback-without-ctype', 'callback %s is written without c:type' % name)
        if len(found) != 1 or found[0][2].get('name') not in strips:
            bad('type', 'type %s: described %d times, named %r, expected one of %r'
                % (name, len(found), [f[2].get('name') for f in found], strips))

    # ---- (b) nothing foreign or underscore-prefixed, no duplicate C identifiers
    for cid, lst in by_cid.items():
        tags = set(t for w, t, e, p in lst)
        if tags <= {'function', 'method', 'constructor'}:
            known = cid in funcs
            plain = [f for f in lst if f[2].get('moved-to') is None]
            if len(plain) > 1 or len(lst) > 2:
                bad('duplicate-identifier', 'C identifier %s is carried by %d elements (%d without moved-to)'
                    % (cid, len(lst), len(plain)))
        else:
            known = cid in types or cid in consts
            if len(lst) > 1:
                bad('duplicate-ctype', 'C type %s is carried by %d elements' % (cid, len(lst)))
        if not known:
            bad('undeclared-element', 'the GIR describes %s which no declaration introduced' % cid)
        elif cid.startswith('_') and (tags & {'function', 'method', 'constructor', 'constant'}):
            bad('underscore-element', 'the GIR describes the underscore symbol %s' % cid)
    names = [el.get('name') for where, tag, el, parent in els if where == 'top']
    if len(names) != len(set(names)):
        bad('duplicate-name', 'two top-level elements share a GIR name: %r' % sorted(n for n in names if names.count(n) > 1))
    return verdict


def fail(ctx, case, key, _unused, what):
    if key in PENDING_FINDINGS:
        ctx.report_failure(key, PENDING_FINDINGS[key] + ' — e.g. ' + what, {'kind': 'pipeline', 'case': case})
    else:
        full = 'pipeline:%s:%s' % (key, json.dumps(case, sort_keys=True))
        ctx.report_failure(full, what, {'kind': 'pipeline', 'case': case})


# ---------------------------------------------------------------------------------------------
# generators
# ---------------------------------------------------------------------------------------------
def gen_ident(rng):
    """identifiers for the string-level functions"""
    r = rng.random()
    if r < 0.55:
        s = ''.join(rng.choice(WORDS) for _ in range(rng.randint(1, 5)))
    elif r < 0.75:
        s = ''.join(rng.choice('AaBbXxZz09_') for _ in range(rng.randint(0, 9)))
    elif r < 0.9:
        s = '_'.join(rng.choice(WORDS) for _ in range(rng.randint(1, 4)))
        if rng.random() < 0.3:
            s = rng.choice(['_', '__', '']) + s + rng.choice(['_', '', ''])
    else:
        s = ''.join(rng.choice(['É', 'é', 'ß', 'Ω', 'ω', '中', 'A', 'b', 'C', '1', '_', '\n', 'İ', 'Ǆ']) for _ in range(rng.randint(1, 7)))
    return s


FUNC_PTR = P({'k': 'func', 'ret': T('void'), 'params': []})


def rec_decls(cname, form, union=False, fields=True, extra=()):
    """`extra`: further members — function pointers (anonymous callbacks named after the field, which the
    writer emits WITHOUT c:type) and anonymous nested compounds; none of them is a declared C symbol"""
    k = 'union' if union else 'struct'
    body = ([{'name': 'x', 'type': T('int')}] if fields else []) + list(extra)
    tag = '_' + cname
    if form == 'typedef_first':
        return [{'d': 'typedef', 'name': cname, 'type': {'k': k, 'n': tag}}, {'d': k, 'name': tag, 'fields': body}]
    if form == 'tag_first':
        return [{'d': k, 'name': tag, 'fields': body}, {'d': 'typedef', 'name': cname, 'type': {'k': k, 'n': tag}}]
    if form == 'typedef_only':
        return [{'d': 'typedef', 'name': cname, 'type': {'k': k, 'n': tag}}]
    if form == 'anon':
        return [{'d': 'typedef', 'name': cname, 'type': {'k': k, 'n': None, 'fields': body}}]
    if form == 'tag_only':
        return [{'d': k, 'name': cname, 'fields': body}]
    if form == 'utag_only':
        return [{'d': k, 'name': tag, 'fields': body}]
    if form == 'same_tag':
        return [{'d': 'typedef', 'name': cname, 'type': {'k': k, 'n': cname}}, {'d': k, 'name': cname, 'fields': body}]
    raise ValueError(form)


def fn(name, ret, *params):
    return {'d': 'function', 'name': name, 'ret': ret,
            'params': [{'name': 'a%d' % i, 'type': p} for i, p in enumerate(params)]}


def foreign_first_param_functions(rng, includes, sp, ann, own_types):
    """functions of the scanned namespace whose FIRST parameter is a type of an INCLUDED namespace, named after
    that type: <ns prefix>_<the include type's c:symbol-prefix or underscored name>_<verb>.  The statement lets a
    function become a method only of a type of the SAME namespace, so every one of them stays a function of the
    scanned namespace (described once, at top level or as a static function of an own type)."""
    out = []
    cands = []
    for n in include_order(includes):
        for kind, nm, ctype, gtype, parent, symprefix in map(inc_node, INCLUDES[n][4]):
            cands.append((n, kind, nm, ctype, symprefix))
    for n, kind, nm, ctype, symprefix in rng.sample(cands, min(len(cands), rng.randint(1, 3))):
        spell = [INC_USCORED.get(nm, nm.lower())]
        if symprefix:
            spell.append(symprefix)
        w = rng.choice(spell)
        t = T(ctype)
        ptr = P(t)
        menu = [
            lambda: fn('%s_%s_frob' % (sp, w), T('void'), ptr),
            lambda: fn('%s_%s_get_x' % (sp, w), T('int'), ptr),
            lambda: fn('%s_%s_set_x' % (sp, w), T('void'), ptr, T('int')),
            lambda: fn('%s_%s_frob' % (sp, w), T('void'), ptr),
            lambda: fn('%s_%s' % (sp, w), T('void'), ptr),                    # nothing after the type prefix
            lambda: fn('%s_%s_' % (sp, w), T('void'), ptr),
            lambda: fn('%s_%ss_register' % (sp, w), T('void'), ptr),         # continues the prefix without '_'
            lambda: fn('%s_%s_by_value' % (sp, w), T('void'), t),
            lambda: fn('%s_%s_pp' % (sp, w), T('void'), P(t, 2)),
            lambda: fn('%s_%s_second' % (sp, w), T('void'), T('int'), ptr),   # foreign type NOT first
            lambda: fn('%s_%s_dup' % (sp, w), ptr, ptr),
            lambda: fn('%s_%s_with_own' % (sp, w), T('void'), ptr, P(T(rng.choice(own_types)))),
            lambda: fn('%s_frob_%s' % (sp, w), T('void'), ptr),               # foreign first parameter, other name
            lambda: fn('%s_%s_annotated' % (sp, w), T('void'), ptr),
        ]
        for _ in range(rng.randint(1, 3)):
            f = rng.choice(menu)()
            if any(x['name'] == f['name'] for x in out):
                continue
            out.append(f)
            if f['name'].endswith('_annotated'):
                ann[f['name']] = ['method']       # refused with a warning: methods belong to the type's namespace
    return out


def has_foreign_first_param(case):
    """generator-side classification (coverage only): some function's first parameter is a single pointer to a
    type of an included namespace and its name carries that type's prefix after some '_'"""
    inc = {}
    for n in include_order(case['includes']):
        for kind, nm, ctype, gtype, parent, symprefix in map(inc_node, INCLUDES[n][4]):
            inc[ctype] = [INC_USCORED.get(nm, nm.lower())] + ([symprefix] if symprefix else [])
    declared = set(d.get('name') for d in case['decls'] if d['d'] != 'function')
    for d in case['decls']:
        if d['d'] == 'function' and d.get('params') and not case.get('annotations', {}).get(d['name']):
            t = d['params'][0]['type']
            if t['k'] == 'ptr' and t['to'].get('k') != 'ptr' and t['to'].get('n') in inc and \
                    t['to']['n'] not in declared:
                if any(('_' + w + '_') in d['name'] or d['name'].endswith('_' + w) for w in inc[t['to']['n']]):
                    return True
    return False


def gen_case(rng, directed=False):
    """`directed`: the configuration includes at least one namespace and declares functions named after the
    included types with such a type as first parameter (generated on every run, see run())"""
    ns = rng.choice(NS_POOL)
    low = hand_uscore(ns)
    # identifier prefixes: 1-3, possibly prefixes of each other, possibly not containing the namespace name
    r = rng.random()
    extra = [ns + 'X', ns[:2] if len(ns) > 2 else ns + 'Q', 'Bar', ns + 'Ext']
    if r < 0.3:
        idp = None
    elif r < 0.6:
        idp = [ns]
    elif r < 0.85:
        idp = [ns, rng.choice(extra)]
        rng.shuffle(idp)
    else:
        idp = [ns] + rng.sample(extra, 2)
        rng.shuffle(idp)
    eff_id = idp if idp is not None else [ns]
    lows = dict((p, hand_uscore(p)) for p in [ns] + extra)
    r = rng.random()
    if r < 0.4:
        symp = None
        eff_sym = None                # whatever Namespace derives; read back from the GIR / the model
    else:
        symp = []
        for p in eff_id:
            s = lows.get(p, p.lower())
            if rng.random() < 0.3:
                s = s + '_'
            symp.append(s)
        if rng.random() < 0.2:
            symp.append(low + '_z')
        if rng.random() < 0.3:
            rng.shuffle(symp)
        eff_sym = symp
    includes = []
    if rng.random() < 0.65:
        includes.append('GObject')
    if ns in ('FooBar', ) and rng.random() < 0.7:
        includes.append('Foo')
    if ns == 'Abc' and rng.random() < 0.7:
        includes.append('Ab')
    if rng.random() < 0.2:
        includes.append('Plain')
    if directed:
        if rng.random() < 0.4 and ns != 'Foo' and 'Foo' not in includes:
            includes.append('Foo')
        if rng.random() < 0.25 and 'Ab' not in includes:
            includes.append('Ab')
        if not includes:
            includes.append(rng.choice(['GObject', 'GObject', 'Ab'] + ([] if ns == 'Foo' else ['Foo'])))
    rng.shuffle(includes)
    accept = rng.random() < 0.15
    # the symbol prefix the generated functions use (without trailing '_')
    sym_choices = [s.rstrip('_') for s in eff_sym] if eff_sym else [lows.get(p, p.lower()) for p in eff_id]
    use_dump = ('GObject' in includes or 'Foo' in includes) and rng.random() < 0.6
    decls = []
    ann = {}
    dump = []
    k = rng.randint(1, 5)
    pool = list(TYPE_POOL) + [(ns, low)]
    chosen = rng.sample(pool, k)
    if rng.random() < 0.5:
        # force look-alike prefixes: text vs text_buffer
        for t in (('Text', 'text'), ('TextBuffer', 'text_buffer')):
            if t not in chosen:
                chosen.append(t)
    if rng.random() < 0.35:
        # force Get-word type names, often together with the type owning the truncated prefix (Http vs HttpGetRequest)
        for t in rng.sample(GET_WORD_TYPES, rng.randint(1, 3)) + ([('Http', 'http'), ('HttpGetRequest', 'http_get_request')]
                                                                  if rng.random() < 0.4 else []):
            if t not in chosen:
                chosen.append(t)
    classes = []          # (cname, uscored, sp)
    records = []
    for base, usc in chosen:
        idpre = rng.choice(eff_id)
        cname = idpre + base
        sp = rng.choice(sym_choices)
        form = rng.choice(['typedef_first', 'typedef_first', 'tag_first', 'tag_first', 'typedef_only', 'anon',
                           'tag_only', 'utag_only', 'same_tag'])
        union = rng.random() < 0.12
        reg = None
        if use_dump and 'Get' in base and form in ('anon', 'tag_only', 'utag_only') and rng.random() < 0.7:
            form = 'typedef_first'
        if use_dump and form in ('typedef_first', 'tag_first', 'typedef_only', 'same_tag') and rng.random() < 0.7:
            reg = rng.choice(['class', 'class', 'class', 'boxed', 'interface'])
            if reg in ('class', 'interface'):
                union = False
        extra = []
        if rng.random() < 0.25:
            # a member named like a top-level callback / an unprefixed name must stay an anonymous callback
            extra.append({'name': rng.choice(['cb', 'notify', idpre + 'Func', 'OtherFunc']), 'type': FUNC_PTR})
        if rng.random() < 0.1:
            extra.append({'name': 'u', 'type': {'k': rng.choice(['struct', 'union']), 'n': None, 'fields': [
                {'name': 'i', 'type': T('int')}, {'name': 'cb', 'type': FUNC_PTR}]}})
        decls.extend(rec_decls(cname, form, union, fields=rng.random() < 0.8, extra=extra))
        if rng.random() < 0.08:
            decls.append({'d': 'typedef', 'name': cname + 'Alt', 'type': {'k': 'union' if union else 'struct',
                                                                        'n': '_' + cname}})
        if reg is None and rng.random() < 0.1:
            ann[cname] = ['foreign']
        gt_suffix = '_get_gtype' if rng.random() < 0.25 else '_get_type'
        gt = '%s_%s%s' % (sp, usc, gt_suffix)
        if reg:
            odd = rng.random() < 0.1
            if odd:
                gt = '%s_%s_object%s' % (sp, usc, gt_suffix)      # gdk_window_object_get_type
            decls.append(fn(gt, T('GType')))
            ent = {'kind': reg, 'name': cname, 'get_type': gt}
            if reg == 'class':
                r2 = rng.random()
                if classes and r2 < 0.45:
                    par = rng.choice(classes)
                    ent['parents'] = [par[0]] + par[3]
                elif 'Foo' in includes and r2 < 0.6:
                    ent['parents'] = ['FooBase', 'GObject']
                elif 'GObject' in includes and r2 < 0.9:
                    ent['parents'] = rng.choice([['GObject'], ['GInitiallyUnowned', 'GObject']])
                else:
                    ent['parents'] = rng.choice([[], ['GUnknownBase']])
                classes.append((cname, usc, sp, ent['parents']))
            dump.append(ent)
        records.append((cname, usc, sp, reg, form))
    # functions around every type
    allc = [r[0] for r in records]
    for cname, usc, sp, reg, form in records:
        me = P(T(cname))
        other = P(T(rng.choice(allc)))
        menu = [
            lambda: fn('%s_%s_get_x' % (sp, usc), T('int'), me),
            lambda: fn('%s_%s_set_x' % (sp, usc), T('void'), me, T('int')),
            lambda: fn('%s_%s_new' % (sp, usc), me),
            lambda: fn('%s_%s_new' % (sp, usc), other),
            lambda: fn('%s_%s_new_with_x' % (sp, usc), rng.choice([me, other, T('int'), P(T('GObject')),
                                                                    P(T('FooBase')), P(T('GInitiallyUnowned'))]), T('int')),
            lambda: fn('%s_%s_newv' % (sp, usc), me, me),
            lambda: fn('%s_%s_static' % (sp, usc), T('int'), T('int')),
            lambda: fn('%s_%s_create' % (sp, usc), me),
            lambda: fn('%s_%ss_register' % (sp, usc), T('void'), me),
            lambda: fn('%s_%sure_x' % (sp, usc), T('void'), me),
            lambda: fn('%s_%s_frob' % (sp, usc), T('void'), other),
            lambda: fn('%s_frob_%s' % (sp, usc), T('void'), me),
            lambda: fn('%s_%s_pp' % (sp, usc), T('void'), P(T(cname), 2)),
            lambda: fn('%s_%s' % (sp, usc), T('void'), me),
            lambda: fn('%s_%s_' % (sp, usc), T('void'), me),
            lambda: fn('%s_%s_on_g' % (sp, usc), T('void'), P(T('GObject'))),
            lambda: fn('%s_%s_%s' % (sp, sp, sp), T('int'), me),
            lambda: fn('%s_%s_%s_x' % (sp, usc, usc), T('int'), me),
            lambda: fn('%s_make_%s' % (sp, usc), me),
            lambda: fn('%s_%s_from_other' % (sp, usc), me, other),
            # near-miss prefixes: only the first word(s) of the type prefix, or the part before an inner _get_
            lambda: fn('%s_%s_cancel' % (sp, usc.split('_')[0]), T('void'), me),
            lambda: fn('%s_%s_new' % (sp, usc.split('_get_')[0].split('_')[0]), me),
            lambda: fn('%s_%s_send' % (sp, usc), T('void'), me),
            lambda: fn('%s_%s_get_types' % (sp, usc), T('int')),
            lambda: fn('%s_%s_get_type_name' % (sp, usc), T('int'), me),
        ]
        for _ in range(rng.randint(0, 5)):
            f = rng.choice(menu)()
            if any(x['d'] == 'function' and x['name'] == f['name'] for x in decls):
                continue
            decls.append(f)
            if f['name'] == '%s_frob_%s' % (sp, usc) and rng.random() < 0.6:
                ann[f['name']] = ['method']
            elif f['name'] == '%s_make_%s' % (sp, usc) and rng.random() < 0.7:
                ann[f['name']] = ['constructor']
            elif rng.random() < 0.04:
                ann[f['name']] = [rng.choice(['method', 'constructor'])]
    # functions named after types of the INCLUDED namespaces, taking such a type first
    if includes and (directed or rng.random() < 0.25):
        for f in foreign_first_param_functions(rng, includes, rng.choice(sym_choices), ann, allc):
            if not any(x.get('name') == f['name'] for x in decls):
                decls.append(f)
    # enumerations, GType-registered through the dump (<enum> / <flags>) or plain
    for base, usc in rng.sample(ENUM_POOL, rng.choice([0, 0, 1, 1, 2])):
        idpre = rng.choice(eff_id)
        cname = idpre + base
        sp = rng.choice(sym_choices)
        if any(x.get('name') == cname for x in decls):
            continue
        members = [{'name': '%s_%s_A' % (sp.upper(), usc.upper()), 'value': 0},
                   {'name': '%s_%s_B' % (sp.upper(), usc.upper()), 'value': 1}]
        decls.append({'d': 'typedef', 'name': cname, 'type': {'k': 'enum', 'n': None, 'members': members}})
        registered = use_dump and rng.random() < 0.7
        if registered:
            gt = '%s_%s%s' % (sp, usc, '_get_gtype' if rng.random() < 0.25 else '_get_type')
            decls.append(fn(gt, T('GType')))
            dump.append({'kind': rng.choice(['enum', 'flags']), 'name': cname, 'get_type': gt})
        for f in rng.sample([fn('%s_%s_to_string' % (sp, usc), T('int'), T('int')),
                             fn('%s_%s_get_nick' % (sp, usc), T('int'), T(cname)),
                             fn('%s_%s_to_string' % (sp, usc.split('_')[0]), T('int'), T('int')),
                             fn('%s_%s_new' % (sp, usc), T(cname)),
                             fn('%s_%s' % (sp, usc), T('int'))], rng.randint(0, 3)):
            if not any(x['d'] == 'function' and x['name'] == f['name'] for x in decls):
                decls.append(f)
    # free-standing declarations
    sp = rng.choice(sym_choices)
    idpre = rng.choice(eff_id)
    misc = [
        lambda: fn('%s_init' % sp, T('void')),
        lambda: fn('_%s_hidden' % sp, T('void')),
        lambda: fn('g_thing_do', T('void')),
        lambda: fn('bar_do', T('void')),
        lambda: fn('other_fn', T('void')),
        lambda: fn('%sx_nosep' % sp, T('void')),
        lambda: fn('%s_UPPER_FN' % sp.upper(), T('void')),
        lambda: fn('%s_mixed' % sp.capitalize(), T('void')),
        lambda: fn('plain_t', T('void')),
        lambda: fn('%s_takes_g' % sp, T('void'), P(T('GObject'))),
        lambda: fn('%s_takes_thing' % sp, T('void'), P(T('FooThing'))),
        lambda: fn('%s_new' % sp, P(T(allc[0]))),
        lambda: {'d': 'const', 'name': '%s_CONST_A' % sp.upper(), 'int': 1},
        lambda: {'d': 'const', 'name': '_%s_HIDDEN' % sp.upper(), 'int': 1},
        lambda: {'d': 'const', 'name': 'OTHER_CONST', 'int': 1},
        lambda: {'d': 'const', 'name': 'G_FOREIGN_CONST', 'int': 1},
        lambda: {'d': 'const', 'name': '%s_lower_const' % sp, 'int': 1},
        lambda: {'d': 'const', 'name': '%sCONST_NOSEP' % sp.upper(), 'int': 1},
        lambda: {'d': 'typedef', 'name': idpre + 'Mode', 'type': {'k': 'enum', 'n': None, 'members': [
            {'name': '%s_MODE_A' % sp.upper(), 'value': 0}, {'name': '%s_MODE_B' % sp.upper(), 'value': 1}]}},
        lambda: {'d': 'enum', 'name': idpre + 'Kind', 'members': [
            {'name': '%s_KIND_A' % sp.upper(), 'value': 0}, {'name': '%s_KIND_B' % sp.upper(), 'value': 1}]},
        lambda: {'d': 'typedef', 'name': idpre + 'Func', 'type': P({'k': 'func', 'ret': T('void'), 'params': []})},
        lambda: {'d': 'typedef', 'name': '%s_cb_func' % sp, 'type': P({'k': 'func', 'ret': T('void'), 'params': []})},
        lambda: {'d': 'typedef', 'name': idpre + 'Mixed_cb', 'type': P({'k': 'func', 'ret': T('void'), 'params': []})},
        lambda: {'d': 'typedef', 'name': 'GForeignFunc', 'type': P({'k': 'func', 'ret': T('void'), 'params': []})},
        # function type (not pointer) typedefs are callbacks too
        lambda: {'d': 'typedef', 'name': idpre + 'PlainFunc', 'type': {'k': 'func', 'ret': T('void'), 'params': []}},
        lambda: {'d': 'typedef', 'name': 'OtherFunc', 'type': P({'k': 'func', 'ret': T('void'), 'params': []})},
        lambda: {'d': 'typedef', 'name': idpre + 'Int', 'type': T('int')},
        lambda: {'d': 'typedef', 'name': idpre + 'Handle', 'type': P(T('void'))},
        lambda: {'d': 'typedef', 'name': 'OtherInt', 'type': T('int')},
        lambda: {'d': 'typedef', 'name': 'GtkLookalike', 'type': {'k': 'struct', 'n': '_GtkLookalike'}},
        lambda: {'d': 'typedef', 'name': 'AbcThing', 'type': {'k': 'struct', 'n': '_AbcThing'}},
        lambda: {'d': 'typedef', 'name': 'PlainRec', 'type': {'k': 'struct', 'n': '_PlainRec'}},
        lambda: {'d': 'typedef', 'name': 'myplain', 'type': T('int')},
        lambda: {'d': 'typedef', 'name': idpre + 'Thing_autoptr', 'type': P(T('void'))},
        lambda: {'d': 'typedef', 'name': idpre, 'type': {'k': 'struct', 'n': '_' + idpre}},
    ]
    for _ in range(rng.randint(1, 8)):
        d = rng.choice(misc)()
        if any(x.get('name') == d['name'] for x in decls):
            continue
        decls.append(d)
    if rng.random() < 0.35:
        rng.shuffle(decls)
    elif rng.random() < 0.3:
        # functions first (typedefs after their users)
        decls.sort(key=lambda d: 0 if d['d'] == 'function' else 1)
    for i, d in enumerate(decls):
        d['line'] = i + 1
    return {'namespace': ns, 'id_prefixes': idp, 'sym_prefixes': symp, 'includes': includes,
            'accept_unprefixed': accept, 'decls': decls, 'annotations': ann, 'dump': dump if use_dump else None}


def shrink_candidates(case):
    """one-declaration-removed neighbours of a case"""
    out = []
    for i in range(len(case['decls'])):
        c = dict(case)
        c['decls'] = case['decls'][:i] + case['decls'][i + 1:]
        names = set(d.get('name') for d in c['decls'])
        if c.get('dump') is not None:
            c['dump'] = [e for e in case['dump'] if e['get_type'] in names]
        out.append(c)
    return out


# ---------------------------------------------------------------------------------------------
# string-level correspondence (guarded calls into private functions)
# ---------------------------------------------------------------------------------------------
class Guard(object):
    """calls into internals of /repo: a missing / changed function is a broken correspondence,
    not a harness error"""

    def __init__(self, ctx):
        self.ctx = ctx
        self.dead = set()

    def call(self, op, what, f, *a):
        if op in self.dead:
            return ('dead', None)
        try:
            return ('ok', f(*a))
        except (AttributeError, TypeError, NameError, ImportError) as e:
            self.dead.add(op)
            self.ctx.broken.append('correspondence %s: %s no longer exists/has changed (%s: %s)'
                                   % (op, what, type(e).__name__, e))
            return ('dead', None)


def make_transformer(m, cfgj):
    """a real Transformer over real Namespace objects built from a model configuration"""
    a = m.ast
    cur = cfgj['cur']
    ns = a.Namespace(cur['name'], '1.0', identifier_prefixes=cur['id'], symbol_prefixes=cur['sym'])
    scanpipe.install_logger(ns)
    tr = m.transformer.Transformer(ns, accept_unprefixed=cfgj.get('accept', False))
    tr.disable_cache()
    for inc in cfgj['incs']:
        n = a.Namespace(inc['name'], '1.0', identifier_prefixes=inc['id'], symbol_prefixes=inc['sym'])
        for nm in inc.get('names', []):
            n.names[nm] = object()
        tr._parsed_includes[inc['name']] = n
    return tr


def gen_prefix_cfg(rng):
    def plist(kind):
        k = rng.choice([0, 1, 1, 1, 2, 3])
        if kind == 'id':
            pool = ['Foo', 'FooBar', 'Fo', 'F', 'G', 'Gtk', 'Bar', '', 'FOO', 'foo']
        else:
            pool = ['foo', 'foo_', 'foo_bar', 'fo', 'g', 'gtk', 'bar_', '', '_', 'f']
        return [rng.choice(pool) for _ in range(k)]
    cur = {'name': 'Cur', 'id': plist('id'), 'sym': plist('sym'), 'names': []}
    incs = []
    for i in range(rng.choice([0, 0, 1, 1, 2, 3])):
        incs.append({'name': 'Inc%d' % i, 'id': plist('id'), 'sym': plist('sym'),
                     'names': rng.sample(['foo_bar', 'FooBar', 'x', 'Bar', 'bar', 'plain_t', 'F'], rng.randint(0, 3))})
    return {'cur': cur, 'incs': incs, 'accept': rng.random() < 0.2}


def gen_name_for_cfg(rng, cfgj, ident):
    prefs = []
    for n in [cfgj['cur']] + cfgj['incs']:
        prefs.extend(n['id'] if ident else n['sym'])
    r = rng.random()
    if prefs and r < 0.7:
        p = rng.choice(prefs)
        if not ident:
            if rng.random() < 0.8 and not p.endswith('_'):
                p = p + '_'
            if rng.random() < 0.25:
                p = p.upper()
        s = p + rng.choice(['bar', 'Bar', 'bar_baz', 'BarBaz', '', 'x', '_x', 'B', 'foo_bar', 'Foo'])
    elif r < 0.85:
        s = rng.choice(['foo_bar', 'FooBar', 'x', 'Bar', 'bar', 'plain_t', 'F', 'other', 'Other', ''])
    else:
        s = gen_ident(rng)
    if rng.random() < 0.12:
        s = '_' + s
    return s


def string_level(ctx, m, cnt, samples):
    rng = ctx.rng
    g = Guard(ctx)
    utils = m.utils
    # ---- to_underscores / to_underscores_noprefix
    n = ctx.n(3000, 60000)
    idents = [c['s'] for c in load_corpus('ident')]
    while len(idents) < n:
        idents.append(gen_ident(rng))
    if ctx.tier == 'thorough':
        # small-scope exhaustive: every string of length <= 7 over {A, B, b, 1, _}
        import itertools
        for L in range(0, 8):
            for t in itertools.product('ABb1_', repeat=L):
                idents.append(''.join(t))
    for op, fname in (('c04.to_underscores', 'to_underscores'), ('c04.to_underscores_noprefix', 'to_underscores_noprefix')):
        model = ctx.driver.batch([{'op': op, 's': s} for s in idents])
        nd = 0
        for s, mo in zip(idents, model):
            st, impl = g.call(op, 'giscanner.utils.' + fname, lambda s=s: getattr(utils, fname)(s))
            if st != 'ok':
                break
            cnt.hit('%s:%s' % (fname, 'changed' if impl != s else 'same'))
            cnt.case([fname, s], nontrivial=any(ch.isupper() for ch in s))
            if impl != mo:
                nd += 1
                if nd <= 3:
                    ctx.broken.append('correspondence %s differs: s=%r impl=%r model=%r' % (op, s, impl, mo))
    # statement-level oracle: CamelCase words -> words joined by '_'; acronym rule
    for _ in range(ctx.n(1500, 30000)):
        nw = rng.randint(1, 5)
        words = []
        for _w in range(nw):
            words.append(rng.choice('ABCDEFGHIJKLMNOPQRSTUVWXYZ') +
                         ''.join(rng.choice('abcxyz0189') for _c in range(rng.randint(1, 4))))
        acr = ''.join(rng.choice('ABCXYZ') for _c in range(rng.choice([0, 0, 1, 2, 3, 5])))
        s = acr + ''.join(words)
        if len(acr) >= 2:
            want = acr + '_' + '_'.join(words)
        elif len(acr) == 1:
            want = acr + '_'.join(words)
        else:
            want = '_'.join(words)
        st, impl = g.call('c04.to_underscores_noprefix', 'giscanner.utils.to_underscores_noprefix',
                          lambda: utils.to_underscores_noprefix(s))
        if st != 'ok':
            break
        cnt.hit('camel:acr%d' % min(len(acr), 3))
        if impl != want:
            ctx.report_failure('to_underscores_noprefix:' + s,
                               'to_underscores_noprefix(%r) = %r; CamelCase words joined by "_" is %r' % (s, impl, want),
                               {'kind': 'uscore', 's': s, 'required': want})
    samples.append({'op': 'to_underscores', 's': idents[-1]})

    # ---- prefix defaults of Namespace.__init__
    idlists = [[gen_ident(rng) for _ in range(rng.randint(1, 3))] for _ in range(ctx.n(300, 5000))]
    model = ctx.driver.batch([{'op': 'c04.default_sym_prefixes', 'ids': l} for l in idlists])
    nd = 0
    for l, mo in zip(idlists, model):
        if any(ord(ch) > 127 for s in l for ch in s):
            cnt.hit('defaults:non-ascii(outside)')
            continue
        st, impl = g.call('c04.default_sym_prefixes', 'giscanner.ast.Namespace',
                          lambda l=l: m.ast.Namespace('N', '1', identifier_prefixes=l).symbol_prefixes)
        if st != 'ok':
            break
        cnt.hit('defaults')
        if impl != mo:
            nd += 1
            if nd <= 3:
                ctx.broken.append('correspondence c04.default_sym_prefixes differs: ids=%r impl=%r model=%r' % (l, impl, mo))

    # ---- the namespace splitter, strip_identifier, _strip_symbol
    ncfg = ctx.n(500, 8000)
    reqs = []
    meta = []
    for c in load_corpus('split'):
        reqs.append({'op': 'c04.split', 'cfg': c['cfg'], 'ident': c['ident'], 'name': c['name']})
        meta.append((c['cfg'], c['ident'], c['name']))
    for _ in range(ncfg):
        cfgj = gen_prefix_cfg(rng)
        for _k in range(6):
            ident = rng.random() < 0.5
            name = gen_name_for_cfg(rng, cfgj, ident)
            if name and ord(name[0]) > 127:
                continue
            reqs.append({'op': 'c04.split', 'cfg': cfgj, 'ident': ident, 'name': name})
            meta.append((cfgj, ident, name))
    model_split = ctx.driver.batch(reqs)
    model_strip = ctx.driver.batch([{'op': 'c04.strip_identifier' if ident else 'c04.strip_symbol', 'cfg': cfgj, 'name': name}
                                    for cfgj, ident, name in meta])
    model_pub = ctx.driver.batch([{'op': 'c04.public_symbol_name', 'cfg': cfgj, 'name': name}
                                  for cfgj, ident, name in meta])
    nd = 0
    last_cfg = None
    tr = None
    TE = m.transformer.TransformerException
    for (cfgj, ident, name), ms, mst, mpub in zip(meta, model_split, model_strip, model_pub):
        if cfgj is not last_cfg:
            st, tr = g.call('c04.split', 'Transformer/Namespace construction', lambda: make_transformer(m, cfgj))
            if st != 'ok':
                break
            last_cfg = cfgj
        nsobjs = [tr._namespace] + list(tr._parsed_includes.values())

        def idx(nsobj):
            return -1 if nsobj is tr._namespace else nsobjs.index(nsobj) - 1

        def do_split():
            try:
                r = tr._split_c_string_for_namespace_matches(name, is_identifier=ident)
                return {'ok': [[idx(a), b] for a, b in r]}
            except ValueError:
                return {'err': 'unknown'}
            except IndexError:
                return {'err': 'empty'}
        st, impl = g.call('c04.split', 'Transformer._split_c_string_for_namespace_matches', do_split)
        if st == 'ok':
            cnt.hit('split:%s:%s' % ('ident' if ident else 'symbol', 'ok%d' % min(len(impl['ok']), 3) if 'ok' in impl else impl['err']))
            cnt.case(['split', cfgj, ident, name], nontrivial='ok' in impl)
            if impl != ms:
                nd += 1
                if nd <= 3:
                    ctx.broken.append('correspondence c04.split differs: cfg=%r ident=%r name=%r impl=%r model=%r'
                                      % (cfgj, ident, name, impl, ms))

        def do_strip():
            try:
                if ident:
                    return {'ok': tr.strip_identifier(name)}
                sym = type('S', (), {'ident': name})()
                return {'ok': tr._strip_symbol(sym)}
            except TE as e:
                if 'foreign' in str(e):
                    return {'err': 'foreign'}
                return {'err': 'unknown'}
            except IndexError:
                return {'err': 'crash'}
        op = 'c04.strip_identifier' if ident else 'c04.strip_symbol'
        st, impl = g.call(op, 'Transformer.strip_identifier/_strip_symbol', do_strip)
        if st == 'ok':
            mo = dict(mst)
            mo.pop('ns', None)
            cnt.hit('strip:%s:%s' % ('ident' if ident else 'symbol', 'ok' if 'ok' in impl else impl['err']))
            if impl != mo:
                nd += 1
                if nd <= 3:
                    ctx.broken.append('correspondence %s differs: cfg=%r name=%r impl=%r model=%r' % (op, cfgj, name, impl, mst))
            # ---- statement oracle on the real result
            cur = cfgj['cur']
            if ident:
                body = name[1:] if name.startswith('_') else name
                mine = [body[len(p):] for p in cur['id'] if body.startswith(p)]
                theirs = any(body.startswith(p) for i in cfgj['incs'] for p in i['id'])
            else:
                body = name[1:] if name.startswith('_') else name
                mine = spec_symbol_strips(body, cur['sym']) if body else []
                theirs = any(spec_symbol_strips(body, i['sym']) for i in cfgj['incs']) if body else False
            hid = '_' if name.startswith('_') else ''
            if mine:
                if 'ok' not in impl or impl['ok'] not in [hid + x for x in mine]:
                    ctx.report_failure('strip:' + json.dumps([cfgj, ident, name], sort_keys=True),
                                       '%s(%r) = %r although the current namespace prefix matches (expected one of %r)'
                                       % (op, name, impl, [hid + x for x in mine]),
                                       {'kind': 'strip', 'cfg': cfgj, 'ident': ident, 'name': name})
            elif theirs:
                if 'ok' in impl:
                    ctx.report_failure('strip:' + json.dumps([cfgj, ident, name], sort_keys=True),
                                       '%s(%r) = %r although only an included namespace claims the name' % (op, name, impl),
                                       {'kind': 'strip', 'cfg': cfgj, 'ident': ident, 'name': name})
            if not ident and name.startswith('_') and mpub is not None:
                ctx.broken.append('model c04.public_symbol_name keeps an underscore symbol: %r' % name)
    samples.append({'op': 'split', 'cfg': meta[-1][0], 'ident': meta[-1][1], 'name': meta[-1][2]})

    # ---- _split_uscored_by_type
    reqs = []
    for c in load_corpus('uscored'):
        reqs.append({'op': 'c04.split_uscored', 'keys': c['keys'], 's': c['s']})
    comp = ['text', 'buffer', 'iter', 'x', '', 'a', 'new', 'tex', 'ture']
    for _ in range(ctx.n(2500, 60000)):
        parts = [rng.choice(comp) for _k in range(rng.randint(0, 5))]
        s = '_'.join(parts)
        keys = set()
        for _k in range(rng.randint(0, 4)):
            j = rng.randint(0, len(parts))
            keys.add('_'.join(parts[:j]) if rng.random() < 0.8 else '_'.join(rng.choice(comp) for _q in range(rng.randint(1, 2))))
        if rng.random() < 0.1:
            keys.add(s[:rng.randint(0, len(s))])
        reqs.append({'op': 'c04.split_uscored', 'keys': sorted(keys), 's': s})
    model = ctx.driver.batch(reqs)
    nd = 0
    mt = None
    for rq, mo in zip(reqs, model):
        def do():
            nonlocal mt
            if mt is None:
                mt = m.maintransformer.MainTransformer.__new__(m.maintransformer.MainTransformer)
            mt._uscore_type_names = dict((k, (k, )) for k in rq['keys'])
            r = mt._split_uscored_by_type(rq['s'])
            return None if r is None else [r[0][0], r[1]]
        st, impl = g.call('c04.split_uscored', 'MainTransformer._split_uscored_by_type', do)
        if st != 'ok':
            break
        cnt.hit('uscored:%s' % ('none' if impl is None else 'some'))
        cnt.case(['usc', rq['keys'], rq['s']], nontrivial=impl is not None)
        if impl != mo:
            nd += 1
            if nd <= 3:
                ctx.broken.append('correspondence c04.split_uscored differs: keys=%r s=%r impl=%r model=%r'
                                  % (rq['keys'], rq['s'], impl, mo))
        # statement oracle: the longest '_'-boundary prefix that names a type wins
        s = rq['s']
        cands = [(s, '')] + [(s[:i], s[i + 1:]) for i in range(len(s)) if s[i] == '_']
        cands = [c for c in cands if c[0] in rq['keys']]
        want = None
        if cands:
            want = list(max(cands, key=lambda c: len(c[0])))
        if impl != want:
            ctx.report_failure('uscored:' + json.dumps([rq['keys'], s]),
                               '_split_uscored_by_type(%r) over %r = %r; the longest type prefix gives %r'
                               % (s, rq['keys'], impl, want), {'kind': 'uscored', 'keys': rq['keys'], 's': s})
    samples.append({'op': 'split_uscored', 'keys': reqs[-1]['keys'], 's': reqs[-1]['s']})

    # ---- str.find and the constructor-name guess
    reqs = []
    for _ in range(ctx.n(600, 10000)):
        a = ''.join(rng.choice(['foo', '_', 'new', 'v', 'x']) for _k in range(rng.randint(0, 6)))
        b = a[rng.randint(0, len(a)):] if rng.random() < 0.7 else ''.join(rng.choice(['foo', '_', 'x']) for _k in range(rng.randint(0, 3)))
        reqs.append((a, b))
    model = ctx.driver.batch([{'op': 'c04.find', 's': a, 'sub': b} for a, b in reqs])
    modelg = ctx.driver.batch([{'op': 'c04.guess_ctor', 's': a} for a, b in reqs])
    nd = 0
    mt = m.maintransformer.MainTransformer.__new__(m.maintransformer.MainTransformer)
    for (a, b), mo, mg in zip(reqs, model, modelg):
        cnt.hit('find')
        if a.find(b) != mo:
            nd += 1
            if nd <= 3:
                ctx.broken.append('correspondence c04.find differs: %r.find(%r)=%r model=%r' % (a, b, a.find(b), mo))
        st, impl = g.call('c04.guess_ctor', 'MainTransformer._guess_constructor_by_name',
                          lambda: mt._guess_constructor_by_name(a))
        if st == 'ok' and impl != mg:
            nd += 1
            if nd <= 3:
                ctx.broken.append('correspondence c04.guess_ctor differs: %r impl=%r model=%r' % (a, impl, mg))
    return len(idents) * 2 + len(idlists) + len(meta) * 2 + len(reqs) * 2


# ---------------------------------------------------------------------------------------------
# pipeline level
# ---------------------------------------------------------------------------------------------
def model_batch(ctx, m, cases, type_names):
    """the model's description of many configurations in one driver run -> [(canonical model, include order)]"""
    reqs = []
    orders = []
    for case in cases:
        mcfg, order = model_cfg(case, m)
        orders.append(order)
        reqs.append({'op': 'c04.describe', 'env': mcfg, 'decls': model_decls(case, type_names),
                     'dump': model_dump(case),
                     'foreign': sorted(k for k, v in case.get('annotations', {}).items() if 'foreign' in v)})
    # default symbol prefixes come from the model's own defaultSymPrefixes (compared with
    # Namespace.__init__ at the string level)
    need = [r for r in reqs if r['env']['cur']['sym'] is None]
    if need:
        syms = ctx.driver.batch([{'op': 'c04.default_sym_prefixes', 'ids': r['env']['cur']['id']} for r in need])
        for r, sy in zip(need, syms):
            r['env']['cur']['sym'] = sy
    models = ctx.driver.batch(reqs)
    return [(canon_model(mo), order) for mo, order in zip(models, orders)]


def pipeline_compare(ctx, m, case, mo, order, cnt, type_names, judge=True, record_broken=True):
    """one configuration: the live namespace of the real pipeline against the model's description,
    then the statement oracle on the GIR the real pipeline writes"""
    scratch = os.path.join(ctx.scratch, 'inc')
    os.makedirs(scratch, exist_ok=True)
    out1, res1 = run_impl(m, case, scratch, 'main')
    agree = True
    if out1 == 'ok':
        got_order = list(getattr(res1['transformer'], '_parsed_includes', None) or order)
        if got_order != order:
            raise RuntimeError('include order %r differs from the harness rule %r' % (got_order, order))
        try:
            ci = canon_impl(m, res1, order)
        except (AttributeError, TypeError) as e:
            ci = {'abort': 'canon', 'detail': repr(e)}
    else:
        ci = {'abort': out1, 'detail': res1}
    a = {k: v for k, v in ci.items() if k != 'detail'}
    b = {k: v for k, v in mo.items() if k != 'detail'}
    if a != b:
        agree = False
        if record_broken and sum(1 for x in ctx.broken if x.startswith('correspondence c04.describe')) < 3:
            ctx.broken.append('correspondence c04.describe differs: case=%s impl=%s model=%s'
                              % (json.dumps(case, sort_keys=True), json.dumps(ci, sort_keys=True, default=str)[:1500],
                                 json.dumps(mo, sort_keys=True, default=str)[:1500]))
    verdict = None
    if judge:
        out2, res2 = run_impl(m, case, scratch, None)
        verdict = oracle(ctx, case, out2, res2, cnt, type_names)
        cnt.hit('verdict:' + verdict)
    cnt.hit('outcome:' + ('ok' if out1 == 'ok' else out1))
    return agree, verdict


def load_corpus(kind):
    out = []
    if os.path.isdir(CORPUS):
        for fnm in sorted(os.listdir(CORPUS)):
            if fnm.endswith('.json'):
                with open(os.path.join(CORPUS, fnm)) as f:
                    for c in json.load(f):
                        if c.get('kind') == kind:
                            out.append(c)
    return out


def run(ctx):
    cnt = Counter()
    for k, what in PENDING_FINDINGS.items():
        ctx.known.append({'key': k, 'status': 'known', 'what': what, 'property': 'C04'})
    ctx.prove(['gen_naming'], ['GIVerif.Props.C04'], 'GIVerif.Props.C04')
    m = scanpipe.mods()
    rng = ctx.rng
    samples = []
    type_names = set(m.ast.type_names.keys())
    n_string = 0
    ctx.log('string level')
    try:
        n_string = string_level(ctx, m, cnt, samples)
    except Exception as e:  # noqa — a changed internal must not hide the pipeline-level search
        from core import HarnessError
        if isinstance(e, HarnessError):
            raise
        ctx.broken.append('string-level correspondence aborted: %s: %s' % (type(e).__name__, e))
        ctx.notes.append(traceback.format_exc()[-1500:])

    # ---- pipeline level: corpus first, then generated configurations
    ctx.log('pipeline level')
    cases = [c['case'] for c in load_corpus('pipeline')]
    ncorpus = len(cases)
    n = ctx.n(900, 20000)
    while len(cases) < ncorpus + n:
        # every 6th configuration is directed at functions taking a type of an included namespace first
        cases.append(gen_case(rng, directed=(len(cases) - ncorpus) % 6 == 5))
    models = model_batch(ctx, m, cases, type_names)
    ctx.log('model done for %d configurations' % len(cases))
    disagree = []
    for case, (mo, order) in zip(cases, models):
        agree, verdict = pipeline_compare(ctx, m, case, mo, order, cnt, type_names)
        nfun = sum(1 for d in case['decls'] if d['d'] == 'function')
        cnt.hit('cfg:idp=%s' % (len(case['id_prefixes']) if case['id_prefixes'] is not None else 'default'))
        cnt.hit('cfg:symp=%s' % ('explicit' if case['sym_prefixes'] is not None else 'default'))
        cnt.hit('cfg:includes=%d' % len(case['includes']))
        cnt.hit('cfg:accept' if case.get('accept_unprefixed') else 'cfg:strict')
        cnt.hit('cfg:dump' if case.get('dump') is not None else 'cfg:nodump')
        members = [f for d in case['decls'] for f in (d.get('fields') or (d.get('type') or {}).get('fields') or [])]
        if any(f['type'].get('k') == 'ptr' and f['type']['to'].get('k') == 'func' for f in members):
            cnt.hit('cfg:callback-member')
        if any(f['type'].get('k') in ('struct', 'union') for f in members):
            cnt.hit('cfg:anonymous-compound-member')
        if has_foreign_first_param(case):
            cnt.hit('cfg:function-named-after-included-type-taking-it-first')
        cnt.case(['p', case], nontrivial=nfun > 0 and verdict not in (None, 'outside:scanner-refused'))
        if not agree:
            disagree.append(case)
    samples.append({'op': 'describe', 'case': cases[-1]})
    ctx.log('pipeline compared; %d disagreements' % len(disagree))
    # failing-input search around the first disagreements: shrink, judge every neighbour
    searched = 0
    for case in disagree[:3]:
        cur = case
        progress = True
        while progress and searched < 600:
            progress = False
            cands = shrink_candidates(cur)
            for c, (mo, order) in zip(cands, model_batch(ctx, m, cands, type_names)):
                searched += 1
                agree, verdict = pipeline_compare(ctx, m, c, mo, order, cnt, type_names, judge=True,
                                                  record_broken=False)
                if not agree:
                    cur = c
                    progress = True
                    break
        ctx.notes.append('shrunk disagreement: %s' % json.dumps(cur, sort_keys=True)[:3000])
        ctx.broken.append('correspondence c04.describe (shrunk): case=%s' % json.dumps(cur, sort_keys=True)[:2500])
        cnt.hit('search:shrunk')

    ctx.coverage.update({
        'evaluations': n_string + len(cases) + searched,
        'distinct_nontrivial': cnt.n_distinct(),
        'rule': 'string level: identifiers built from CamelCase words / acronyms / digits / single letters / '
                'underscores / non-ASCII; prefix configurations (0-3 identifier and symbol prefixes per namespace, '
                'empty prefixes, prefixes of each other, 0-3 includes, accept-unprefixed) x names built around them; '
                'underscored strings x key sets for the type splitter. pipeline level: declaration sets (records in all '
                'typedef/tag orders, function-pointer and anonymous-compound members, unions, classes/interfaces/boxed/'
                'enums/flags via a minimal dump registered through *_get_type and *_get_gtype, type names with Get/'
                'GetType/Set words in inner and final positions, look-alike and truncated type prefixes, '
                'method/constructor/static look-alikes, annotated functions, functions named after a type of an INCLUDED '
                'namespace (its c:symbol-prefix or underscored name) with that type as first parameter (every 6th '
                'configuration), foreign / underscore / upper-case symbols, '
                'constants, enums, callbacks, aliases) x prefix configurations (1-3 identifier prefixes, explicit or '
                'default symbol prefixes with/without trailing "_", includes whose prefix is a prefix of ours, '
                'unprefixed include, accept-unprefixed). non-trivial = contains an upper-case letter / splitter finds a '
                'namespace / a type matches / configuration has functions and produced a GIR; distinct by content hash. '
                'Every case: model vs real code AND the statement oracle on the real output.',
        'samples': samples,
        'distribution': cnt.counts,
        'corpus_cases': ncorpus + len(load_corpus('split')) + len(load_corpus('uscored')) + len(load_corpus('ident')),
        'pipeline_configurations': len(cases),
        'exhaustive': False,
        'notes': ctx.notes,
    })
    ctx.assumptions.extend([
        'identifiers are ASCII where str.lower/upper/isupper matter (symbol prefixes, first character of a symbol); '
        'the regex scanners themselves are compared on non-ASCII input too',
        'the C lexer/parser is not exercised: inputs start at the symbol stream (scanpipe)',
        'two declarations never share a C identifier (C forbids it for ordinary identifiers); the model flags it as dupCid',
        'function macros, (rename-to), (skip), out-parameters as first argument and error-quark functions are not modelled',
        'the runtime dump is restricted to class / interface / boxed / enum / flags entries without members '
        '(C12 covers the dump)',
        'type lookup of parameters is modelled for typedef names (pointer depth 0-2); container types (GList...) are not generated',
        'cyclic parent chains do not occur (GType); the model walks with fuel',
        'aliases whose stripped name is a fundamental type name or ends in _autoptr, types whose name equals a prefix, '
        'mixed-style callback names (FooBar_cb), tag-only structs with an underscore tag and the prefix rule for '
        'annotated constructors are outside the oracle (counted, not judged); the NAME of an annotated constructor '
        'is judged (type-prefix-stripped or namespace-stripped)',
        'a class whose first resolvable parent GType is a boxed type (GType forbids it) is not generated: the '
        'ancestor walk of _is_constructor raises AttributeError there (Walk.noParentAttr in the model)',
    ])


def replay(ctx, rep):
    m = scanpipe.mods()
    for k, what in PENDING_FINDINGS.items():
        ctx.known.append({'key': k, 'status': 'known', 'what': what, 'property': 'C04'})
    r = rep['replay']
    cnt = Counter()
    type_names = set(m.ast.type_names.keys())
    if r['kind'] == 'pipeline':
        scratch = os.path.join(ctx.scratch, 'inc')
        os.makedirs(scratch, exist_ok=True)
        out, res = run_impl(m, r['case'], scratch, None)
        if out == 'ok':
            for line in res['gir'].splitlines():
                if 'c:identifier' in line or 'c:type=' in line and '<type' not in line:
                    print(line)
        else:
            print(out, res)
        v = oracle(ctx, r['case'], out, res, cnt, type_names)
        print('verdict:', v)
        for h in ctx.known_hits:
            print('KNOWN-FINDING: property=C04 %s [%s]' % (h['what'], h['key']))
        for x in ctx.violations:
            print('VIOLATION:', x['what'])
        return 1 if (ctx.violations or ctx.known_hits) else 0
    if r['kind'] == 'uscore':
        got = m.utils.to_underscores_noprefix(r['s'])
        print('impl=%r required=%r' % (got, r['required']))
        return 0 if got == r['required'] else 1
    if r['kind'] == 'uscored':
        mt = m.maintransformer.MainTransformer.__new__(m.maintransformer.MainTransformer)
        mt._uscore_type_names = dict((k, k) for k in r['keys'])
        print('impl=%r' % (mt._split_uscored_by_type(r['s']), ))
        return 1
    if r['kind'] == 'strip':
        tr = make_transformer(m, r['cfg'])
        try:
            if r['ident']:
                print('impl=%r' % tr.strip_identifier(r['name']))
            else:
                print('impl=%r' % tr._strip_symbol(type('S', (), {'ident': r['name']})()))
        except Exception as e:  # noqa
            print('impl raised %r' % e)
        return 1
    return 2
