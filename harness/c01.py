"""C01 — Parameter and return annotations are reflected exactly in the GIR.

Proof: lean/GIVerif/Props/C01.lean over the model lean/GIVerif/Model/ParamAnn.lean and the
documented rule table lean/GIVerif/Spec/ParamAnn.lean.
Tie: (1) translators gen_paramann / gen_typenames re-read the annotation vocabulary, arity
table, type tables and the literals the mirrored functions compare against; (2) correspondence:
every generated callable is pushed through /repo's REAL pipeline (scanpipe) and through the
model (`c01.run`), attributes of <parameter>/<instance-parameter>/<return-value>/<array>/<type>/
<attribute> and warnings (bucketed by comment line, texts not compared) are diffed; (3) an oracle
written from docs/website/annotations/giannotations.rst and the property statement, evaluated on
the REAL output only (metamorphic for the "invalid => warning and unchanged" half: the same
declaration is scanned again with that one annotation erased).
"""
import copy
import json
import os
import re
import sys
import time
from collections import Counter as PyCounter

from core import REPO, Counter, HarnessError
import scanpipe
from scanpipe import T, P

HERE = os.path.dirname(os.path.abspath(__file__))
CORPUS = os.path.join(os.path.dirname(HERE), 'corpus', 'C01')

# --------------------------------------------------------------------------- environment
GLIB_GIR = '''<?xml version="1.0"?>
<repository version="1.2" xmlns="http://www.gtk.org/introspection/core/1.0" xmlns:c="http://www.gtk.org/introspection/c/1.0" xmlns:glib="http://www.gtk.org/introspection/glib/1.0">
  <namespace name="GLib" version="2.0" c:identifier-prefixes="G" c:symbol-prefixes="g,glib">
    <record name="List" c:type="GList"/>
    <record name="SList" c:type="GSList"/>
    <record name="HashTable" c:type="GHashTable" glib:type-name="GHashTable" glib:get-type="g_hash_table_get_type"/>
    <record name="Array" c:type="GArray" glib:type-name="GArray" glib:get-type="g_array_get_type"/>
    <record name="PtrArray" c:type="GPtrArray" glib:type-name="GPtrArray" glib:get-type="g_ptr_array_get_type"/>
    <record name="ByteArray" c:type="GByteArray" glib:type-name="GByteArray" glib:get-type="g_byte_array_get_type"/>
    <record name="Variant" c:type="GVariant"/>
    <record name="Error" c:type="GError" glib:type-name="GError" glib:get-type="g_error_get_type"/>
    <alias name="Quark" c:type="GQuark"><type name="guint32" c:type="guint32"/></alias>
    <callback name="DestroyNotify" c:type="GDestroyNotify">
      <return-value transfer-ownership="none"><type name="none" c:type="void"/></return-value>
      <parameters><parameter name="data" transfer-ownership="none" nullable="1" allow-none="1"><type name="gpointer" c:type="gpointer"/></parameter></parameters>
    </callback>
    <callback name="Func" c:type="GFunc">
      <return-value transfer-ownership="none"><type name="none" c:type="void"/></return-value>
      <parameters><parameter name="data" transfer-ownership="none" nullable="1" allow-none="1"><type name="gpointer" c:type="gpointer"/></parameter>
      <parameter name="user_data" transfer-ownership="none" nullable="1" allow-none="1" closure="1"><type name="gpointer" c:type="gpointer"/></parameter></parameters>
    </callback>
  </namespace>
</repository>
'''
GOBJECT_GIR = '''<?xml version="1.0"?>
<repository version="1.2" xmlns="http://www.gtk.org/introspection/core/1.0" xmlns:c="http://www.gtk.org/introspection/c/1.0" xmlns:glib="http://www.gtk.org/introspection/glib/1.0">
  <include name="GLib" version="2.0"/>
  <namespace name="GObject" version="2.0" c:identifier-prefixes="G" c:symbol-prefixes="g,gobject">
    <class name="Object" c:type="GObject" glib:type-name="GObject" glib:get-type="g_object_get_type" glib:type-struct="ObjectClass" c:symbol-prefix="object"/>
    <record name="ObjectClass" c:type="GObjectClass" glib:is-gtype-struct-for="Object"/>
    <class name="InitiallyUnowned" c:type="GInitiallyUnowned" parent="Object" glib:type-name="GInitiallyUnowned" glib:get-type="g_initially_unowned_get_type" c:symbol-prefix="initially_unowned"/>
    <record name="Closure" c:type="GClosure" glib:type-name="GClosure" glib:get-type="g_closure_get_type"/>
    <record name="Value" c:type="GValue" glib:type-name="GValue" glib:get-type="g_value_get_type"/>
    <record name="TypeInterface" c:type="GTypeInterface"/>
  </namespace>
</repository>
'''
GIO_GIR = '''<?xml version="1.0"?>
<repository version="1.2" xmlns="http://www.gtk.org/introspection/core/1.0" xmlns:c="http://www.gtk.org/introspection/c/1.0" xmlns:glib="http://www.gtk.org/introspection/glib/1.0">
  <include name="GObject" version="2.0"/>
  <namespace name="Gio" version="2.0" c:identifier-prefixes="G" c:symbol-prefixes="g">
    <class name="Cancellable" c:type="GCancellable" parent="GObject.Object" glib:type-name="GCancellable" glib:get-type="g_cancellable_get_type" c:symbol-prefix="cancellable"/>
    <interface name="AsyncResult" c:type="GAsyncResult" glib:type-name="GAsyncResult" glib:get-type="g_async_result_get_type" c:symbol-prefix="async_result"/>
    <callback name="AsyncReadyCallback" c:type="GAsyncReadyCallback">
      <return-value transfer-ownership="none"><type name="none" c:type="void"/></return-value>
      <parameters>
        <parameter name="source_object" transfer-ownership="none" nullable="1" allow-none="1"><type name="GObject.Object" c:type="GObject*"/></parameter>
        <parameter name="res" transfer-ownership="none"><type name="AsyncResult" c:type="GAsyncResult*"/></parameter>
        <parameter name="data" transfer-ownership="none" nullable="1" allow-none="1" closure="2"><type name="gpointer" c:type="gpointer"/></parameter>
      </parameters>
    </callback>
  </namespace>
</repository>
'''


def S(tag):
    return {"k": "struct", "n": tag}


def base_decls():
    return [
        {"d": "struct", "name": "_FooObj", "fields": [{"name": "parent", "type": T("GObject")}]},
        {"d": "typedef", "name": "FooObj", "type": S("_FooObj")},
        {"d": "typedef", "name": "FooObjClass", "type": S("_FooObjClass")},
        {"d": "function", "name": "foo_obj_get_type", "ret": T("GType"), "params": []},
        {"d": "struct", "name": "_FooIfaceInterface", "fields": [{"name": "g_iface", "type": T("GTypeInterface")}]},
        {"d": "typedef", "name": "FooIface", "type": S("_FooIface")},
        {"d": "typedef", "name": "FooIfaceInterface", "type": S("_FooIfaceInterface")},
        {"d": "function", "name": "foo_iface_get_type", "ret": T("GType"), "params": []},
        {"d": "struct", "name": "_FooRec", "fields": [{"name": "x", "type": T("int")}]},
        {"d": "typedef", "name": "FooRec", "type": S("_FooRec")},
        {"d": "struct", "name": "_FooBoxed", "fields": [{"name": "x", "type": T("int")}]},
        {"d": "typedef", "name": "FooBoxed", "type": S("_FooBoxed")},
        {"d": "function", "name": "foo_boxed_get_type", "ret": T("GType"), "params": []},
        {"d": "union", "name": "_FooUni", "fields": [{"name": "x", "type": T("int")}, {"name": "y", "type": T("double")}]},
        {"d": "typedef", "name": "FooUni", "type": {"k": "union", "n": "_FooUni"}},
        {"d": "typedef", "name": "FooEnum", "type": {"k": "enum", "n": None, "members": [
            {"name": "FOO_ENUM_A", "value": 0}, {"name": "FOO_ENUM_B", "value": 1}]}},
        {"d": "typedef", "name": "FooFlags", "type": {"k": "enum", "n": None, "bitfield": True, "members": [
            {"name": "FOO_FLAGS_A", "value": 1}, {"name": "FOO_FLAGS_B", "value": 2}]}},
        {"d": "typedef", "name": "FooCb", "type": P({"k": "func", "ret": T("void"), "params": [
            {"name": "a", "type": T("int")}, {"name": "user_data", "type": T("gpointer")}]})},
        {"d": "typedef", "name": "FooInt", "type": T("int")},
        {"d": "typedef", "name": "FooStr", "type": P(T("char"))},
        {"d": "typedef", "name": "FooRecAlias", "type": T("FooRec")},
        {"d": "typedef", "name": "FooCbAlias", "type": T("FooCb")},
        {"d": "typedef", "name": "FooOpaque", "type": S("_FooOpaque")},
        {"d": "typedef", "name": "FooHandle", "type": P(S("_FooHandle"))},
    ]


# type shapes: C spelling -> coarse class used by the generator and the documentation oracle
SHAPES = {
    'int': 'basic', 'gint': 'basic', 'guint8': 'basic', 'gboolean': 'basic', 'gdouble': 'basic', 'gsize': 'basic',
    'GType': 'basic', 'gunichar': 'basic', 'long long': 'basic', 'gint64': 'basic', 'float': 'basic',
    'unsigned int': 'basic', 'intptr_t': 'intptr',
    'gpointer': 'anyptr', 'gconstpointer': 'anyptr', 'void': 'void',
    'char': 'char', 'gchar': 'char',
    'GList': 'list', 'GSList': 'list', 'GHashTable': 'map', 'GArray': 'garray', 'GPtrArray': 'garray',
    'GByteArray': 'garray', 'GStrv': 'strv',
    'GVariant': 'variant', 'GClosure': 'closure', 'GError': 'record', 'GValue': 'record',
    'GObject': 'object', 'GInitiallyUnowned': 'object', 'GCancellable': 'object',
    'GDestroyNotify': 'callback', 'GAsyncReadyCallback': 'callback', 'GFunc': 'callback',
    'FooObj': 'object', 'FooIface': 'object', 'FooRec': 'record', 'FooBoxed': 'record', 'FooUni': 'record',
    'FooEnum': 'enum', 'FooFlags': 'enum', 'FooCb': 'callback', 'FooCbAlias': 'callback',
    'FooInt': 'aliasbasic', 'GQuark': 'aliasbasic', 'FooStr': 'aliasstr', 'FooRecAlias': 'record',
    'FooOpaque': 'record', 'FooHandle': 'handle', 'BarUnknown': 'unresolved',
}
SHAPE_NAMES = sorted(SHAPES)

DUMP_HEAD = '<?xml version="1.0"?><dump>'
DUMP_TAIL = ('<interface name="FooIface" get-type="foo_iface_get_type"><prerequisite name="GObject"/></interface>'
             '<boxed name="FooBoxed" get-type="foo_boxed_get_type"/></dump>')


class Env(object):
    def __init__(self, scratch):
        self.dir = os.path.join(scratch, 'girs')
        os.makedirs(self.dir, exist_ok=True)
        for name, text in (('GLib-2.0.gir', GLIB_GIR), ('GObject-2.0.gir', GOBJECT_GIR), ('Gio-2.0.gir', GIO_GIR)):
            with open(os.path.join(self.dir, name), 'w') as f:
                f.write(text)


# --------------------------------------------------------------------------- case -> scanner input
def ctype_json(t):
    """t = {'base': C name, 'depth': n, 'const': bool, 'carray': int|None}"""
    base = T(t['base'], q=2 if t.get('const') else 0)
    ty = P(base, t.get('depth', 0))
    if t.get('carray') is not None:
        ty = {"k": "array", "of": ty, "n": t['carray']}
    return ty


def render_comment(case, erase=None, strip_all=False):
    """Comment text; every part on its own line.  erase=(part, index) drops one annotation,
    strip_all drops all annotations (names and descriptions stay)."""
    lines = ['/**', ' * %s:' % case['block']]

    def part_lines(label, pname, anns, cont):
        anns = list(anns)
        if strip_all:
            anns = []
        elif erase is not None and erase[0] == pname:
            anns = [a for i, a in enumerate(anns) if i != erase[1]]
        if not anns:
            return [' * %s: text' % label]
        if cont and len(anns) >= 2:
            k = max(1, min(cont, len(anns) - 1))
            return [' * %s: %s' % (label, ' '.join('(%s)' % a for a in anns[:k])),
                    ' *   %s: text' % ' '.join('(%s)' % a for a in anns[k:])]
        return [' * %s: %s: text' % (label, ' '.join('(%s)' % a for a in anns))]

    for dp in case['doc']:
        lines.extend(part_lines('@' + dp['name'], dp['name'], dp['anns'], dp.get('cont', 0)))
    if case.get('retdoc') is not None:
        lines.append(' *')
        lines.extend(part_lines('Returns', 'returns', case['retdoc']['anns'], case['retdoc'].get('cont', 0)))
    lines.append(' */')
    return '\n'.join(lines)


def build_cfg(env, case, comment):
    decls = base_decls()
    kind = case['kind']
    params = []
    for p in case['params']:
        if p.get('ellipsis'):
            params.append({"ellipsis": True})
        else:
            params.append({"name": p['name'], "type": ctype_json(p['type'])})
    ret = ctype_json(case['ret'])
    vfields = [{"name": "parent_class", "type": T("GObjectClass")}]
    signals = ''
    if kind in ('function', 'method'):
        decls.append({"d": "function", "name": case['symbol'], "ret": ret, "params": params, "line": 50,
                      "file": "/src/foo.h"})
    elif kind == 'callback':
        decls.append({"d": "typedef", "name": case['symbol'], "line": 50, "file": "/src/foo.h",
                      "type": P({"k": "func", "ret": ret, "params": params})})
    elif kind == 'vfunc':
        vfields.append({"name": case['symbol'], "line": 50,
                        "type": P({"k": "func", "ret": ret,
                                   "params": [{"name": "self", "type": P(T("FooObj"))}] + params})})
    elif kind == 'signal':
        signals = '<signal name="%s" return="%s">%s</signal>' % (
            case['symbol'], case['sigret'], ''.join('<param type="%s"/>' % g for g in case['sigparams']))
    decls.append({"d": "struct", "name": "_FooObjClass", "fields": vfields, "line": 40, "file": "/src/foo.h"})
    dump = (DUMP_HEAD + '<class name="FooObj" get-type="foo_obj_get_type" parents="GObject">' + signals +
            '</class>' + DUMP_TAIL)
    return {'namespace': 'Foo', 'id_prefixes': ['Foo'], 'sym_prefixes': ['foo'], 'decls': decls,
            'comments': [(comment, '/src/foo.c', 1)] if comment else [], 'dump': dump,
            'includes': [os.path.join(env.dir, 'Gio-2.0.gir')], 'include_paths': [env.dir]}


# --------------------------------------------------------------------------- describing live objects
class SnapshotError(Exception):
    pass


def describe_type(tr, main, parent, t, top=False):
    ast = scanpipe.mods().ast
    if isinstance(t, ast.Varargs):
        return {'t': 'varargs'}
    info = {'ctype': t.ctype, 'cctype': t.complete_ctype, 'const': bool(t.is_const), 'retdef': None}
    if top:
        saved = t.is_const
        try:
            t.is_const = False
            info['retdef'] = main._get_transfer_default_return(parent, ast.Return(t))
        except (AttributeError, TypeError) as e:
            raise SnapshotError('_get_transfer_default_return: %r' % (e, ))
        except Exception:   # AssertionError "Invalid constructor", KeyError ...
            info['retdef'] = None
        finally:
            t.is_const = saved
    if isinstance(t, ast.Array):
        return dict(info, t='array', kind=t.array_type, elem=describe_type(tr, main, parent, t.element_type),
                    zt=bool(t.zeroterminated), size=t.size, length=t.length_param_name)
    if isinstance(t, ast.List):
        return dict(info, t='list', name=t.name, elem=describe_type(tr, main, parent, t.element_type))
    if isinstance(t, ast.Map):
        return dict(info, t='map', k=describe_type(tr, main, parent, t.key_type),
                    v=describe_type(tr, main, parent, t.value_type))
    d = dict(info, t='leaf', fund=t.target_fundamental, giname=t.target_giname, cls='none')
    try:
        target = tr.lookup_typenode(t)
        target = tr.resolve_aliases(target)
    except (AttributeError, TypeError) as e:
        raise SnapshotError('lookup_typenode/resolve_aliases: %r' % (e, ))
    except KeyError:
        target = None
        d['cls'] = 'other'
    if target is not None:
        if isinstance(target, ast.Type):
            d.update(cls='fund', afund=target.target_fundamental, actype=target.ctype)
        elif isinstance(target, ast.Callback):
            d.update(cls='callback', cb=target.gi_name)
        elif isinstance(target, ast.Class):
            d['cls'] = 'class'
        elif isinstance(target, ast.Interface):
            d['cls'] = 'interface'
        elif isinstance(target, ast.Record):
            d['cls'] = 'record'
        elif isinstance(target, ast.Union):
            d['cls'] = 'union'
        elif isinstance(target, ast.Boxed):
            d['cls'] = 'boxed'
        elif isinstance(target, ast.Enum):
            d['cls'] = 'enum'
        elif isinstance(target, ast.Bitfield):
            d['cls'] = 'flags'
        else:
            d['cls'] = 'other'
    return d


def describe_node(tr, main, parent, n, is_ret=False):
    d = {'name': None if is_ret else n.argname, 'dir': None if is_ret else n.direction,
         'transfer': n.transfer, 'nullable': bool(n.nullable), 'notNullable': bool(n.not_nullable),
         'skip': bool(n.skip), 'attrs': [[k, v] for k, v in n.attributes.items()],
         'ty': describe_type(tr, main, parent, n.type, top=True)}
    if is_ret:
        d['dir'] = n.direction
    else:
        d.update(ca=bool(n.caller_allocates), optional=bool(n.optional), scope=n.scope,
                 closure=n.closure_name, destroy=n.destroy_name)
    return d


SEP_RE = re.compile(r'[,<>()]')


def anns_json(annotations):
    out = []
    for name, opts in annotations.items():
        if opts is None:
            out.append([name, None])
        elif isinstance(opts, dict):
            out.append([name, [[k, v] for k, v in opts.items()]])
        else:
            out.append([name, list(opts)])
    return out


def block_doc(block):
    """doc JSON for the model + position keys of every part"""
    if block is None:
        return None, {}
    doc = {'params': [[name, anns_json(p.annotations)] for name, p in block.params.items()], 'ret': None}
    pos = {'block': pos_key(block.position)}
    for name, p in block.params.items():
        pos[('part', name)] = pos_key(p.position)
        pos[('ann', name)] = pos_key(getattr(p.annotations, 'position', None))
    tag = block.tags.get('returns')
    if tag is not None:
        doc['ret'] = anns_json(tag.annotations)
        pos[('part', 'returns')] = pos_key(tag.position)
        pos[('ann', 'returns')] = pos_key(getattr(tag.annotations, 'position', None))
    return doc, pos


def pos_key(p):
    if p is None:
        return 'none'
    return '%s:%s' % (p.filename, p.line)


def type_strings(block):
    out = []
    if block is None:
        return out
    parts = list(block.params.values())
    if block.tags.get('returns') is not None:
        parts.append(block.tags['returns'])
    for p in parts:
        for name in ('type', 'element-type'):
            opts = p.annotations.get(name)
            if isinstance(opts, list):
                out.extend(opts)
    return out


class Snap(object):
    """what the model needs, captured when the real annotation pass enters the target callable"""

    def __init__(self):
        self.req = None
        self.pos = {}
        self.parent_pos = 'none'
        self.error = None
        self.node = None


def take_snapshot(snap, main, node, block, kind):
    if snap.req is not None:
        return
    m = scanpipe.mods()
    logger = m.message.MessageLogger.get()
    nrec = len(logger.records)
    try:
        tr = main._transformer
        req = {'op': 'c01.run', 'ns': tr.namespace.name,
               'kind': {'method': 'function'}.get(kind, kind),
               'inst': describe_node(tr, main, node, node.instance_parameter) if node.instance_parameter else None,
               'params': [describe_node(tr, main, node, p) for p in node.parameters],
               'ret': describe_node(tr, main, node, node.retval, is_ret=True)}
        doc, pos = block_doc(block)
        req['doc'] = doc
        env = []
        seen = set()
        for s in type_strings(block):
            for ident in SEP_RE.split(s):
                if ident in seen:
                    continue
                seen.add(ident)
                try:
                    t = tr.create_type_from_user_string(ident)
                    env.append([ident, describe_type(tr, main, node, t, top=True)])
                except (AttributeError, TypeError) as e:
                    raise SnapshotError('create_type_from_user_string: %r' % (e, ))
                except SnapshotError:
                    raise
                except Exception:
                    env.append([ident, None])
        req['env'] = env
        # what a later `resolve_type` pass finds for every C type name that may be left unresolved
        late = []
        cands = set()

        def collect(tj):
            if tj is None or tj.get('t') == 'varargs':
                return
            if tj.get('ctype'):
                cands.add(tj['ctype'])
            for k in ('elem', 'k', 'v'):
                if k in tj:
                    collect(tj[k])
        for n in [req['inst']] + req['params'] + [req['ret']]:
            if n is not None:
                collect(n['ty'])
        for _ident, tj in env:
            collect(tj)
        # _resolve_toplevel leaves the written string as the C type of an unresolved result without one
        for s_ in type_strings(block):
            if s_:
                cands.add(s_)
        ast = m.ast
        for cname in list(cands):
            while cname.endswith('*'):
                cname = cname[:-1]
                if cname:
                    cands.add(cname)
        for cname in sorted(cands):
            try:
                t = ast.Type(ctype=cname)
                tr.resolve_type(t)
                late.append([cname, describe_type(tr, main, node, t) if t.target_giname else None])
            except (AttributeError, TypeError) as e:
                raise SnapshotError('resolve_type: %r' % (e, ))
            except Exception:
                late.append([cname, None])
        req['late'] = late
        snap.req = req
        snap.pos = pos
        fps = getattr(node, 'file_positions', None)
        snap.parent_pos = 'parent' if fps else 'none'
        snap.parent_keys = set(pos_key(p) for p in (fps or ()))
        snap.node = node
    except SnapshotError as e:
        snap.error = str(e)
    except (AttributeError, TypeError) as e:
        snap.error = 'snapshot: %r' % (e, )
    finally:
        del logger.records[nrec:]


class Hooks(object):
    """In-process instrumentation of the real pipeline (DESIGN A.9).  If a hooked private method
    has disappeared the run degrades to oracle-only (no model correspondence)."""

    def __init__(self):
        m = scanpipe.mods()
        self.MT = m.maintransformer.MainTransformer
        self.IP = m.introspectablepass.IntrospectablePass
        self.missing = [n for n in ('_apply_annotations_callable', '_apply_annotations_signal')
                        if not hasattr(self.MT, n)]
        if not hasattr(self.IP, 'validate'):
            self.missing.append('IntrospectablePass.validate')
        if not hasattr(self.MT, '_pass3'):
            self.missing.append('_pass3')
        self.snap = None
        self.target = None
        self.boundary = None
        self.boundary3 = None

    def ok(self):
        return not self.missing

    def install(self):
        if not self.ok():
            return
        hooks = self
        ast = scanpipe.mods().ast
        self.orig_callable = self.MT._apply_annotations_callable
        self.orig_signal = self.MT._apply_annotations_signal
        self.orig_validate = self.IP.validate

        def callable_hook(main, *a, **k):
            t = hooks.target
            node = a[0] if a else k.get('node')
            block = a[2] if len(a) > 2 else k.get('block')
            if node is None and t is not None and hooks.snap is not None and hooks.snap.error is None:
                hooks.snap.error = '_apply_annotations_callable: signature changed'
            elif t is not None and hooks.snap is not None and hooks.snap.req is None and hooks.snap.error is None:
                kind, sym = t
                hit = False
                if kind in ('function', 'method'):
                    hit = isinstance(node, ast.Function) and getattr(node, 'symbol', None) == sym
                elif kind == 'callback':
                    hit = isinstance(node, ast.Callback) and getattr(node, 'ctype', None) == sym
                elif kind == 'vfunc':
                    hit = isinstance(node, ast.VFunction) and node.name == sym
                if hit:
                    take_snapshot(hooks.snap, main, node, block, kind)
            return hooks.orig_callable(main, *a, **k)

        def signal_hook(main, *a, **k):
            t = hooks.target
            parent = a[0] if a else k.get('parent')
            signal = a[1] if len(a) > 1 else k.get('signal')
            if signal is None or not hasattr(signal, 'name'):
                if t is not None and hooks.snap is not None and hooks.snap.error is None and t[0] == 'signal':
                    hooks.snap.error = '_apply_annotations_signal: signature changed'
            elif t is not None and hooks.snap is not None and t[0] == 'signal' and signal.name == t[1] \
                    and hooks.snap.req is None and hooks.snap.error is None:
                try:
                    prefix = main._get_annotation_name(parent)
                    block = main._blocks.get('%s::%s' % (prefix, signal.name))
                except (AttributeError, TypeError) as e:
                    hooks.snap.error = '_get_annotation_name: %r' % (e, )
                    block = None
                if hooks.snap.error is None:
                    take_snapshot(hooks.snap, main, signal, block, 'signal')
            return hooks.orig_signal(main, *a, **k)

        def validate_hook(ip, *a, **k):
            hooks.boundary = len(scanpipe.mods().message.MessageLogger.get().records)
            return hooks.orig_validate(ip, *a, **k)

        self.orig_pass3 = self.MT._pass3

        def pass3_hook(main, *a, **k):
            if hooks.boundary3 is None:
                hooks.boundary3 = len(scanpipe.mods().message.MessageLogger.get().records)
            return hooks.orig_pass3(main, *a, **k)
        self.MT._pass3 = pass3_hook
        self.MT._apply_annotations_callable = callable_hook
        self.MT._apply_annotations_signal = signal_hook
        self.IP.validate = validate_hook

    def uninstall(self):
        if not self.ok():
            return
        self.MT._apply_annotations_callable = self.orig_callable
        self.MT._apply_annotations_signal = self.orig_signal
        self.IP.validate = self.orig_validate
        self.MT._pass3 = self.orig_pass3


# --------------------------------------------------------------------------- running the real pipeline
def q(tag):
    return scanpipe.q(tag)


def xtype(el):
    tag = el.tag.split('}', 1)[-1]
    return {'tag': tag, 'attrs': sorted([attr_name(k), v] for k, v in el.attrib.items()),
            'children': [xtype(c) for c in el if c.tag.split('}', 1)[-1] in ('type', 'array', 'varargs')]}


def attr_name(k):
    if k.startswith('{'):
        uri, n = k[1:].split('}', 1)
        for pfx, u in scanpipe.NS.items():
            if u == uri:
                return n if pfx == 'core' else '%s:%s' % (pfx, n)
    return k


def xnode(el):
    ty = None
    for c in el:
        if c.tag.split('}', 1)[-1] in ('type', 'array', 'varargs'):
            ty = xtype(c)
    return {'attrs': sorted([attr_name(k), v] for k, v in el.attrib.items()),
            'attributes': [[a.get('name'), a.get('value')] for a in el.findall(q('attribute'))],
            'ty': ty}


def find_callable(root, case):
    kind, sym = case['kind'], case['symbol']
    if kind in ('function', 'method'):
        for el in root.iter():
            if el.get(q('c:identifier')) == sym and el.tag.split('}', 1)[-1] in ('function', 'method', 'constructor'):
                return el
    elif kind == 'callback':
        for el in root.iter(q('callback')):
            if el.get(q('c:type')) == sym:
                return el
    elif kind == 'vfunc':
        for el in root.iter(q('virtual-method')):
            if el.get('name') == sym:
                return el
    elif kind == 'signal':
        for el in root.iter(q('glib:signal')):
            if el.get('name') == sym:
                return el
    return None


def read_callable(gir, case):
    root = scanpipe.gir_tree(gir)
    el = find_callable(root, case)
    if el is None:
        return None
    out = {'ret': None, 'inst': None, 'params': [], 'throws': el.get('throws') == '1', 'tag': el.tag.split('}', 1)[-1]}
    rv = el.find(q('return-value'))
    if rv is not None:
        out['ret'] = xnode(rv)
    ps = el.find(q('parameters'))
    if ps is not None:
        for c in ps:
            t = c.tag.split('}', 1)[-1]
            if t == 'instance-parameter':
                out['inst'] = xnode(c)
            elif t == 'parameter':
                out['params'].append(xnode(c))
    return out


def run_real(env, hooks, case, comment, want_snapshot=True):
    """One scan.  Returns dict(status ok|fatal|raises, out, warnings (bucket Counter), snap, split, exc)."""
    cfg = build_cfg(env, case, comment)
    snap = Snap() if (want_snapshot and hooks.ok()) else None
    hooks.snap = snap
    hooks.target = (case['kind'], case['symbol'])
    hooks.boundary = None
    hooks.boundary3 = None
    res = {'status': 'ok', 'out': None, 'snap': snap, 'split': False, 'exc': None, 'records': []}
    r = None
    try:
        r = scanpipe.scan(cfg)
        res['out'] = read_callable(r['gir'], case)
        recs = r['warnings']
    except SystemExit as e:
        res['status'] = 'fatal'
        res['exc'] = str(e)[:300]
        recs = scanpipe.mods().message.MessageLogger.get().records
    except Exception as e:   # noqa: an exception escaping the real pipeline is a result, not a harness error
        res['status'] = 'raises'
        res['exc'] = '%s: %s' % (type(e).__name__, str(e)[:200])
        recs = scanpipe.mods().message.MessageLogger.get().records
    finally:
        hooks.target = None
        hooks.snap = None
    bound = hooks.boundary3 if hooks.boundary3 is not None else (
        hooks.boundary if hooks.boundary is not None else len(recs))
    res['records'] = [{'level': w['level'], 'text': w['text'], 'positions': [list(p) for p in w['positions']]}
                      for w in recs[:bound]]
    # messages of pass 3 and later (not compared with the model; the oracle only asks whether an annotation ADDS one)
    res['late'] = [w['text'] for w in recs[bound:]]
    if snap is not None and snap.node is not None:
        res['split'] = snap.node.instance_parameter is not None and case['kind'] in ('function', 'method')
    return res


def bucket_real(records, snap_pos_keys):
    """Counter of warning buckets: comment-file line keys, 'none', 'parent'"""
    c = PyCounter()
    for w in records:
        if w['level'] != 0 and w['level'] != scanpipe.mods().message.WARNING:
            pass
        ps = w['positions']
        if not ps:
            c['none'] += 1
            continue
        f, line, _col = ps[0]
        if f == '/src/foo.c':
            c['%s:%s' % (f, line)] += 1
        else:
            c['decl:%s:%s' % (f, line)] += 1
    return c


# --------------------------------------------------------------------------- generator
TYPE_STRS_OK = ['utf8', 'gint', 'guint8', 'filename', 'gpointer', 'Foo.Obj', 'FooObj', 'Foo.Rec', 'Foo.Enum',
                'GObject.Object', 'GLib.Variant', 'gboolean', 'gdouble', 'Foo.Cb', 'FooInt', 'GLib.List(utf8)',
                'GLib.SList(Foo.Obj)', 'GLib.HashTable(utf8,gint)', 'GLib.Array(gint)', 'GLib.PtrArray(Foo.Obj)',
                'GLib.ByteArray', 'GList(utf8)', 'GStrv', 'gintptr', 'Foo.Boxed', 'Foo.Uni']
# what a resolvable (type T) override turns the value into, for the annotations whose validity depends on
# the type (transfer, bare (out)): the statement lists "element and overridden types" among what is
# reflected, and "valid for that value's ... type" is then a question about the OVERRIDDEN type.
# Overrides to basic types, enums, callbacks and gpointer are left out (judged 'outside' as before).
OVERRIDE_CLASS = {'utf8': 'string', 'filename': 'string', 'Foo.Obj': 'object', 'FooObj': 'object',
                  'GObject.Object': 'object', 'GLib.Variant': 'variant', 'Foo.Rec': 'record', 'Foo.Boxed': 'record',
                  'Foo.Uni': 'record', 'GLib.List(utf8)': 'container', 'GLib.SList(Foo.Obj)': 'container',
                  'GLib.HashTable(utf8,gint)': 'container', 'GLib.Array(gint)': 'container',
                  'GLib.PtrArray(Foo.Obj)': 'container', 'GLib.ByteArray': 'container', 'GList(utf8)': 'container',
                  'GStrv': 'container'}
TYPE_STRS_BAD = ['Bar.Baz', 'FooNope', 'utf8(gint)', 'GLib.List(utf8,gint)', 'gint,gint', 'GLib.HashTable(utf8)',
                 'GLib.PtrArray(gint)', 'GLib.ByteArray(gdouble)', 'GLib.List(FooNope)', '']
ELEM_OK = ['utf8', 'gint', 'guint8', 'Foo.Obj', 'FooObj', 'Foo.Rec', 'filename', 'gpointer', 'GObject.Object',
           'GLib.List(utf8)', 'Foo.Enum', 'gchar', 'gint8']
ELEM_BAD = ['Bar.Baz', 'FooNope', 'utf8(gint)', 'gint,gint']
ATTR_KEYS = ['org.x.key', 'my.attr', 'a.b', 'gdbus.signature']
ATTR_VALS = ['v', 'o', 'a{sv}', '1', 'k=w', 'b64==', 'mode=fast=1']
SIG_GTYPES = ['gint', 'gchararray', 'FooObj', 'gboolean', 'gpointer', 'GStrv', 'FooBoxed', 'guint', 'gdouble',
              'GObject', 'GHashTable', 'FooIface']


def site_class(t):
    """coarse class of a C type for the generator / oracle: (shape, depth)"""
    return SHAPES[t['base']], t.get('depth', 0) + (1 if t.get('carray') is not None else 0)


def gen_type(rng, for_ret=False):
    r = rng.random()
    if r < 0.55:
        base = rng.choice(['int', 'gint', 'char', 'gchar', 'gpointer', 'FooObj', 'FooRec', 'GList', 'GHashTable',
                           'FooCb', 'FooEnum', 'gboolean', 'gsize', 'GArray', 'GPtrArray', 'FooBoxed', 'guint8',
                           'GDestroyNotify', 'FooInt', 'GVariant', 'GObject', 'GStrv', 'GSList', 'GByteArray'])
    else:
        base = rng.choice(SHAPE_NAMES)
    shape = SHAPES[base]
    if shape in ('object', 'record', 'variant', 'closure', 'list', 'map', 'garray', 'char', 'void'):
        depth = rng.choice([1, 1, 1, 1, 0, 2])
    elif shape in ('callback', 'anyptr', 'strv', 'handle', 'aliasstr'):
        depth = rng.choice([0, 0, 0, 1, 2])
    else:
        depth = rng.choice([0, 0, 1, 1, 2])
    if base == 'void' and depth == 0 and not for_ret:
        depth = 1
    t = {'base': base, 'depth': depth, 'const': depth > 0 and rng.random() < 0.2}
    if not for_ret and depth <= 1 and rng.random() < 0.04 and base != 'void':
        t['carray'] = rng.choice([3, 4, None]) or 2
    return t


def pick_name(rng, names, self_name, inst_name):
    r = rng.random()
    if r < 0.8 and names:
        return rng.choice(names)
    if r < 0.86 and inst_name:
        return inst_name
    if r < 0.93 and self_name:
        return self_name
    return 'nosuch'


def gen_ann(rng, name, shape, depth, is_ret, names, self_name, inst_name, valid):
    """one annotation text (without parentheses)"""
    if name == 'transfer':
        if valid:
            if shape in ('list', 'map', 'garray', 'strv'):
                return 'transfer ' + rng.choice(['none', 'full', 'container'])
            if shape in ('object', 'variant', 'closure'):
                return 'transfer ' + rng.choice(['none', 'full', 'floating'])
            return 'transfer ' + rng.choice(['none', 'full'])
        return rng.choice(['transfer floating', 'transfer container', 'transfer full', 'transfer', 'transfer bogus',
                           'transfer none full', 'transfer none'])
    if name == 'out':
        return rng.choice(['out', 'out', 'out caller-allocates', 'out callee-allocates'] if valid else
                          ['out bogus', 'out caller-allocates x', 'out'])
    if name in ('in', 'inout', 'nullable', 'optional', 'allow-none', 'skip'):
        return name if valid or rng.random() < 0.7 else name + ' x'
    if name == 'not':
        return rng.choice(['not nullable', 'not nullable', 'not optional'] if valid else ['not', 'not bogus', 'not nullable'])
    if name == 'scope':
        return 'scope ' + (rng.choice(['call', 'async', 'notified', 'forever']) if valid else
                           rng.choice(['bogus', 'call async', '']).strip())
    if name == 'closure':
        if valid:
            return 'closure ' + pick_name(rng, names, self_name, inst_name)
        return rng.choice(['closure', 'closure a b', 'closure ' + pick_name(rng, names, self_name, inst_name)])
    if name == 'destroy':
        if valid:
            return 'destroy ' + pick_name(rng, names, self_name, inst_name)
        return rng.choice(['destroy', 'destroy a b', 'destroy ' + pick_name(rng, names, self_name, inst_name)])
    if name == 'type':
        return ('type ' + (rng.choice(TYPE_STRS_OK) if valid else rng.choice(TYPE_STRS_BAD))).strip()
    if name == 'element-type':
        if valid:
            if shape == 'map':
                return 'element-type %s %s' % (rng.choice(ELEM_OK), rng.choice(ELEM_OK))
            return 'element-type ' + rng.choice(ELEM_OK)
        return rng.choice(['element-type ' + rng.choice(ELEM_BAD), 'element-type', 'element-type utf8 gint gint',
                           'element-type %s %s' % (rng.choice(ELEM_OK), rng.choice(ELEM_OK)),
                           'element-type ' + rng.choice(ELEM_OK)])
    if name == 'array':
        opts = []
        if rng.random() < 0.55:
            opts.append('length=' + pick_name(rng, names, self_name, inst_name) if valid or rng.random() < 0.6
                        else rng.choice(['length', 'length=']))
        if rng.random() < 0.3:
            opts.append('fixed-size=' + (rng.choice(['3', '0', '16', '+2', '1_0', '-1']) if valid
                                         else rng.choice(['x', '', '3.0', '0x10', '1__0'])) if rng.random() < 0.9
                        else 'fixed-size')
        if rng.random() < 0.4:
            opts.append(rng.choice(['zero-terminated=1', 'zero-terminated=0', 'zero-terminated'] if valid else
                                   ['zero-terminated=2', 'zero-terminated=x', 'zero-terminated=']))
        if not valid and rng.random() < 0.3:
            opts.append(rng.choice(['bogus', 'bogus=1']))
        rng.shuffle(opts)
        return ' '.join(['array'] + opts)
    if name == 'attributes':
        ks = rng.sample(ATTR_KEYS, rng.randint(1, 2))
        return 'attributes ' + ' '.join((k + '=' + rng.choice(ATTR_VALS)) if (valid or rng.random() < 0.5) else k
                                        for k in ks)
    return name


PARAM_ANNS = ['allow-none', 'nullable', 'not', 'optional', 'in', 'out', 'inout', 'transfer', 'skip', 'array',
              'element-type', 'type', 'scope', 'closure', 'destroy', 'attributes']


def plausible(shape, depth, is_ret, kind):
    """annotations that make sense for the site (the 'mostly valid' stream draws from these)"""
    out = ['skip', 'attributes', 'type']
    ptr = depth >= 1 or shape in ('anyptr', 'callback', 'strv', 'handle', 'aliasstr')
    if ptr:
        out += ['nullable', 'not', 'allow-none']
    if not is_ret:
        out += ['in']
        if depth >= 1:
            out += ['out', 'out', 'inout', 'optional']
    if (depth >= 1 and shape not in ('basic', 'enum', 'aliasbasic')) or shape in ('strv', 'callback', 'anyptr'):
        out += ['transfer', 'transfer']
    if depth >= 1 and shape in ('basic', 'char', 'object', 'record', 'enum', 'anyptr', 'aliasbasic'):
        out += ['array', 'array']
    if shape in ('list', 'map', 'garray'):
        out += ['element-type', 'element-type', 'transfer']
    if shape == 'callback' and not is_ret:
        out += ['scope', 'scope', 'closure', 'destroy'] if kind != 'callback' else ['scope']
    if kind == 'callback' and shape == 'anyptr' and not is_ret:
        out += ['closure']
    return out


def gen_override_pair(rng, is_ret):
    """a resolvable (type T) override together with an annotation whose validity depends on the type"""
    t = rng.choice(sorted(OVERRIDE_CLASS))
    cls = OVERRIDE_CLASS[t]
    fits = {'container': ['transfer container', 'transfer container', 'transfer full', 'transfer none'],
            'object': ['transfer floating', 'transfer floating', 'transfer full', 'transfer none'],
            'variant': ['transfer floating', 'transfer full', 'transfer none'],
            'record': ['transfer full', 'transfer none'] + ([] if is_ret else ['out', 'out', 'out']),
            'string': ['transfer full', 'transfer none']}[cls]
    second = rng.choice(fits) if rng.random() < 0.85 else rng.choice(['transfer container', 'transfer floating'])
    anns = ['type ' + t, second]
    if rng.random() < 0.3:
        anns.append(rng.choice(['skip', 'nullable', 'attributes a.b=v', 'not nullable']))
    rng.shuffle(anns)
    return anns


def gen_part_anns(rng, shape, depth, is_ret, kind, names, self_name, inst_name, p_valid):
    if rng.random() < 0.07:
        return gen_override_pair(rng, is_ret)
    k = rng.choice([0, 1, 1, 2, 2, 3, 4])
    anns = []
    used = set()
    for _ in range(k):
        if rng.random() < p_valid:
            name = rng.choice(plausible(shape, depth, is_ret, kind))
            valid = rng.random() < 0.9
        else:
            name = rng.choice(PARAM_ANNS)
            valid = rng.random() < 0.6
        if name in used:
            continue
        used.add(name)
        a = gen_ann(rng, name, shape, depth, is_ret, names, self_name, inst_name, valid)
        if a.split(' ')[0] == 'array' and 'element-type' not in used and rng.random() < 0.25:
            anns.append(gen_ann(rng, 'element-type', 'garray', depth, is_ret, names, self_name, inst_name, True))
            used.add('element-type')
        anns.append(a)
    return anns


_case_id = [0]


def gen_case(rng, kind=None, p_valid=0.7):
    _case_id[0] += 1
    cid = _case_id[0]
    kind = kind or rng.choice(['function', 'function', 'method', 'method', 'callback', 'vfunc', 'signal'])
    case = {'kind': kind, 'id': cid}
    nparams = rng.choice([0, 1, 2, 2, 3, 3, 4, 5, 6])
    params = []
    pool = ['a', 'b', 'n', 'len', 'cb', 'data', 'user_data', 'notify', 'arr', 'x', 'out_val', 'items', 'count', 'fn']
    rng.shuffle(pool)
    if kind == 'signal':
        nparams = min(nparams, 4)
        case['symbol'] = 'sig-%d' % (cid % 7)
        case['block'] = 'FooObj::' + case['symbol']
        case['sigret'] = rng.choice(['void', 'gint', 'gboolean', 'gchararray', 'FooObj', 'gpointer'])
        case['sigparams'] = [rng.choice(SIG_GTYPES) for _ in range(nparams)]
        gmap = {'gint': ('int', 0), 'gchararray': ('char', 1), 'FooObj': ('FooObj', 1), 'gboolean': ('gboolean', 0),
                'gpointer': ('gpointer', 0), 'GStrv': ('GStrv', 0), 'FooBoxed': ('FooBoxed', 1), 'guint': ('int', 0),
                'gdouble': ('gdouble', 0), 'GObject': ('GObject', 1), 'GHashTable': ('GHashTable', 1),
                'FooIface': ('FooIface', 1), 'void': ('void', 0)}
        for i, g in enumerate(case['sigparams']):
            b, d = gmap[g]
            params.append({'name': pool[i], 'type': {'base': b, 'depth': d, 'const': False}})
        b, d = gmap[case['sigret']]
        case['ret'] = {'base': b, 'depth': d, 'const': False}
    else:
        for i in range(nparams):
            params.append({'name': pool[i], 'type': gen_type(rng)})
        if params and rng.random() < 0.06:
            params[-1] = {'name': 'error', 'type': {'base': 'GError', 'depth': 2, 'const': False}}
        if rng.random() < 0.04:
            params.append({'ellipsis': True, 'name': '...'})
        case['ret'] = gen_type(rng, for_ret=True) if rng.random() < 0.7 else {'base': 'void', 'depth': 0, 'const': False}
        if kind == 'function':
            case['symbol'] = 'foo_fn%d' % cid
        elif kind == 'method':
            case['symbol'] = 'foo_obj_m%d' % cid
            params.insert(0, {'name': 'self', 'type': {'base': rng.choice(['FooObj'] * 5 + ['FooRec']), 'depth': 1,
                                                         'const': False}})
            if params[0]['type']['base'] == 'FooRec':
                case['symbol'] = 'foo_rec_m%d' % cid
        elif kind == 'callback':
            case['symbol'] = 'FooCbk%d' % cid
        elif kind == 'vfunc':
            case['symbol'] = 'vf%d' % cid
        case['block'] = {'vfunc': 'FooObjClass::' + case['symbol']}.get(kind, case['symbol'])
    case['params'] = params
    names = [p['name'] for p in params if not p.get('ellipsis')]
    inst_name = 'self' if kind in ('method', 'vfunc') else None
    doc = []
    if kind == 'signal':
        doc.append({'name': 'object', 'anns': []})
    if kind == 'vfunc' and rng.random() < 0.5:
        doc.append({'name': 'self', 'anns': gen_part_anns(rng, 'object', 1, False, kind, names, 'self', inst_name,
                                                          p_valid) if rng.random() < 0.3 else []})
    for p in params:
        if p.get('ellipsis'):
            if rng.random() < 0.5:
                doc.append({'name': '...', 'anns': []})
            continue
        if rng.random() < 0.1:
            continue        # undocumented parameter
        shape, depth = site_class(p['type'])
        anns = gen_part_anns(rng, shape, depth, False, kind, [n for n in names if n != p['name']], p['name'],
                             inst_name, p_valid)
        if p['name'] == 'self' and kind == 'method' and rng.random() < 0.7:
            anns = [a for a in anns if a.split(' ')[0] not in ('out', 'inout')]
        d = {'name': p['name'], 'anns': anns}
        if len(anns) >= 2 and rng.random() < 0.12:
            d['cont'] = rng.randint(1, len(anns) - 1)
        doc.append(d)
    if rng.random() < 0.04:
        doc.append({'name': 'ghost', 'anns': gen_part_anns(rng, 'basic', 0, False, kind, names, None, inst_name, 0.5)})
    if kind == 'signal' and rng.random() < 0.1 and len(doc) > 1:
        doc.pop()            # too few documented parameters: annotations ignored
    case['doc'] = doc
    if rng.random() < 0.75:
        shape, depth = site_class(case['ret'])
        anns = gen_part_anns(rng, shape, depth, True, kind, names, None, inst_name, p_valid)
        rd = {'anns': anns}
        if len(anns) >= 2 and rng.random() < 0.1:
            rd['cont'] = 1
        case['retdoc'] = rd
    else:
        case['retdoc'] = None
    return case


# --------------------------------------------------------------------------- model vs real
def canon_model_node(n):
    if n is None:
        return None
    def ct(t):
        return {'tag': t['tag'], 'attrs': sorted(t['attrs']), 'children': [ct(c) for c in t['children']]}
    return {'attrs': sorted(n['attrs']), 'attributes': n['attributes'], 'ty': ct(n['ty'])}


def model_buckets(warnings, snap):
    c = PyCounter()
    for w in warnings:
        p = w['pos']
        if p[0] == 'ann':
            c[snap.pos.get(('ann', p[1]), 'none')] += 1
        elif p[0] == 'part':
            c[snap.pos.get(('part', p[1]), 'none')] += 1
        elif p[0] == 'nowhere':
            c['none'] += 1
        elif p[0] == 'block':
            c[snap.pos.get('block', 'none')] += 1
        elif p[0] == 'parent':
            c['none' if snap.parent_pos == 'none' else 'decl'] += 1
        elif p[0] == 'owner':
            c['otherdecl'] += 1
    return c


def real_buckets(records, snap):
    c = PyCounter()
    for w in records:
        ps = w['positions']
        if not ps:
            c['none'] += 1
        elif ps[0][0] == '/src/foo.c':
            c['%s:%s' % (ps[0][0], ps[0][1])] += 1
        elif snap is not None and any('%s:%s' % (p[0], p[1]) in getattr(snap, 'parent_keys', ()) for p in ps):
            c['decl'] += 1
        else:
            c['otherdecl'] += 1
    return c


def compare(res, model):
    """None when real and model agree, else a short description"""
    snap = res['snap']
    if 'fail' in model:
        kind = 'fatal' if 'fatal' in model['fail'] else 'raises'
        if res['status'] != kind:
            return 'model %s (%s) but real status %s %s' % (kind, list(model['fail'].values())[0], res['status'], res['exc'])
        return None
    if res['status'] != 'ok':
        return 'real %s (%s) but model ok' % (res['status'], res['exc'])
    m = model['ok']
    out = res['out']
    if out is None:
        return 'callable not found in GIR'
    for key in ('ret', 'inst'):
        if canon_model_node(m[key]) != out[key]:
            return '%s differs: model %s real %s' % (key, json.dumps(canon_model_node(m[key])), json.dumps(out[key]))
    if len(m['params']) != len(out['params']):
        return 'parameter count differs: model %d real %d' % (len(m['params']), len(out['params']))
    for i, (a, b) in enumerate(zip(m['params'], out['params'])):
        if canon_model_node(a) != b:
            return 'param %d differs: model %s real %s' % (i, json.dumps(canon_model_node(a)), json.dumps(b))
    if m['throws'] != out['throws']:
        return 'throws differs'
    mb = model_buckets(m['warnings'], snap)
    rb = real_buckets(res['records'], snap)
    if +mb != +rb:
        return 'warnings differ: model %s real %s %s' % (dict(mb), dict(rb), [w['text'][:70] for w in res['records']])
    return None


# --------------------------------------------------------------------------- oracle (documentation + statement)
GIR_NAME = {'utf8': 'utf8', 'gint': 'gint', 'guint8': 'guint8', 'filename': 'filename', 'gpointer': 'gpointer',
            'Foo.Obj': 'Obj', 'FooObj': 'Obj', 'Foo.Rec': 'Rec', 'Foo.Enum': 'Enum', 'GObject.Object': 'GObject.Object',
            'GLib.Variant': 'GLib.Variant', 'gboolean': 'gboolean', 'gdouble': 'gdouble', 'Foo.Cb': 'Cb',
            'FooInt': 'Int', 'gchar': 'gchar', 'gint8': 'gint8', 'gintptr': 'gintptr', 'Foo.Boxed': 'Boxed',
            'Foo.Uni': 'Uni'}
RECORDISH = ('FooRec', 'FooBoxed', 'FooUni', 'GValue', 'GError', 'FooOpaque', 'FooRecAlias')
TRANSFER_MODES = ('none', 'full', 'container', 'floating')
SCOPES = ('call', 'async', 'notified', 'forever')


def parse_ann(text):
    bits = text.split(' ')
    return bits[0], [b for b in bits[1:]]


def py_int_ascii(s):
    if re.fullmatch(r'[+-]?[0-9]+(_[0-9]+)*', s):
        return int(s)
    return None


def ptr_class(t):
    shape, depth = site_class(t)
    if depth >= 1 or shape in ('anyptr', 'callback', 'strv', 'handle', 'aliasstr'):
        return 'pointer'
    if shape in ('basic', 'enum', 'aliasbasic', 'char', 'record', 'object'):
        return 'nonpointer'
    return 'unknown'


def attrs_of(node):
    return dict((k, v) for k, v in node['attrs']) if node else {}


class Site(object):
    """one documented part of a case as the oracle sees it"""

    def __init__(self, case, out, pname, anns):
        self.case = case
        self.pname = pname
        self.anns = [parse_ann(a) for a in anns]
        self.names = [a[0] for a in self.anns]
        self.kind = None       # param | inst | ret | None (not a parameter)
        self.ctype = None
        self.node = None
        self.index = None
        names = [dict((k, v) for k, v in p['attrs']).get('name') for p in out['params']] if out else []
        if pname == 'returns':
            self.kind, self.ctype, self.node = 'ret', case['ret'], out['ret'] if out else None
        else:
            for p in case['params']:
                if p['name'] == pname and not p.get('ellipsis'):
                    self.ctype = p['type']
            if case['kind'] == 'signal':
                # signal parameters are named after the documented ones BY POSITION
                dn = [d['name'] for d in case['doc']][1:]
                self.ctype = None
                if pname in dn and dn.index(pname) < len(case['params']):
                    self.ctype = case['params'][dn.index(pname)]['type']
            if case['kind'] == 'vfunc' and pname == 'self':
                self.kind, self.ctype = 'inst', {'base': 'FooObj', 'depth': 1, 'const': False}
                self.node = out['inst'] if out else None
            elif self.ctype is not None and out is not None:
                if out['inst'] is not None and attrs_of(out['inst']).get('name') == pname:
                    self.kind, self.node = 'inst', out['inst']
                elif pname in names:
                    self.kind, self.index = 'param', names.index(pname)
                    self.node = out['params'][self.index]
        self.has = lambda n: n in self.names
        self.dup = len(set(self.names)) != len(self.names)

    def opts(self, name):
        for n, o in self.anns:
            if n == name:
                return o
        return None

    def effdir(self):
        if self.kind == 'ret':
            return 'ret'
        for d in ('inout', 'out', 'in'):
            if self.has(d):
                return d
        return 'in'


def ty_name(ty):
    return dict((k, v) for k, v in ty['attrs']).get('name') if ty else None


def judge(case, out, site, idx, all_sites):
    """-> ('valid', [checks]) | ('invalid', [attr names | '#type' | '#all']) | ('outside', why)
    a check is (description, bool)"""
    name, opts = site.anns[idx]
    kind = case['kind']
    if site.kind is None or site.node is None:
        return ('outside', 'not a written parameter')
    if site.dup:
        return ('outside', 'duplicate annotation')
    shape, depth = site_class(site.ctype)
    a = attrs_of(site.node)
    ty = site.node['ty']
    tyattrs = dict((k, v) for k, v in ty['attrs']) if ty else {}
    has_type = site.has('type')
    ovr = None
    if has_type and len(site.opts('type')) == 1 and not site.has('array') and not site.has('element-type'):
        ovr = OVERRIDE_CLASS.get(site.opts('type')[0])
    eff = site.effdir()
    outish = site.kind == 'param' and eff in ('out', 'inout')
    length_targets = set()
    for s in all_sites:
        ao = s.opts('array')
        if ao is not None:
            for o in ao:
                if o.startswith('length='):
                    length_targets.add(o[7:])
    is_len_target = site.pname in length_targets
    inst_names = [s.pname for s in all_sites if s.kind == 'inst']
    # parameters that have no index in the GIR: the instance parameter and the trailing GError** of a
    # throwing callable; a reference to one is reported in pass 3 and dropped
    unindexed = set(inst_names)
    _last = case['params'][-1] if case['params'] else None
    if out.get('throws') and _last is not None and not _last.get('ellipsis') and _last['type']['base'] == 'GError' \
            and _last['type'].get('depth') == 2 and _last['type'].get('carray') is None:
        unindexed.add(_last['name'])
    pnames = [attrs_of(p).get('name') for p in out['params']]
    if kind == 'signal' and name in ('scope', 'closure', 'destroy'):
        return ('outside', 'callback annotations on signals')
    if site.kind == 'ret' and shape == 'void' and depth == 0:
        return ('outside', 'annotation on a void return value')

    if name == 'skip':
        if opts:
            return ('outside', 'malformed')
        return ('valid', [('skip="1"', a.get('skip') == '1')])
    if name == 'attributes':
        checks = []
        for o in opts:
            if '=' in o:
                k, v = o.split('=', 1)
                if v:
                    checks.append(('<attribute %s=%s>' % (k, v), [k, v] in site.node['attributes']))
        return ('valid', checks) if checks else ('outside', 'keys without values')
    if name == 'not':
        if opts == ['nullable']:
            return ('valid', [('no nullable attribute', 'nullable' not in a)])
        if opts == ['optional']:
            if site.kind != 'param':
                return ('outside', 'not optional on a non-parameter')
            if is_len_target:
                return ('outside', 'also a length parameter')
            return ('valid:not-optional', [('no optional attribute', 'optional' not in a)])
        return ('outside', 'malformed')
    if name in ('in', 'out', 'inout'):
        if site.kind == 'ret':
            if has_type or site.ctype['base'] in ('GCancellable', 'GAsyncReadyCallback'):
                return ('outside', 'direction on a return value whose type is overridden / conventionally nullable')
            return ('invalid', ['#all'])
        if site.kind == 'inst':
            return ('outside', 'direction of an instance parameter')
        if name != eff:
            return ('outside', 'overridden by a stronger direction annotation')
        if is_len_target:
            return ('outside', 'also a length parameter')
        if name in ('in', 'inout') and opts:
            return ('outside', 'malformed')
        checks = [('direction=%s' % name, a.get('direction', 'in') == name)]
        if name == 'out':
            if opts == ['caller-allocates']:
                checks.append(('caller-allocates="1"', a.get('caller-allocates') == '1'))
            elif opts == ['callee-allocates']:
                checks.append(('caller-allocates="0"', a.get('caller-allocates') == '0'))
            elif opts == []:
                if ovr == 'record' and site.ctype.get('carray') is None and kind != 'signal' \
                        and shape not in ('handle', 'aliasstr', 'strv', 'unresolved'):
                    # overridden to a struct / union / boxed type: the allocation rule is that of the struct
                    if depth <= 1:
                        checks.append(('caller-allocates="1" (struct by (type) override, at most one indirection)',
                                       a.get('caller-allocates') == '1'))
                    else:
                        checks.append(('caller-allocates="0" (struct by (type) override, double indirection)',
                                       a.get('caller-allocates') == '0'))
                elif not has_type and site.ctype['base'] in RECORDISH and site.ctype.get('carray') is None \
                        and kind != 'signal':
                    if depth == 1:
                        checks.append(('caller-allocates="1" (struct, single indirection)', a.get('caller-allocates') == '1'))
                    elif depth == 2:
                        checks.append(('caller-allocates="0" (struct, double indirection)', a.get('caller-allocates') == '0'))
            else:
                return ('outside', 'malformed')
        return ('valid', checks)
    if name == 'optional':
        if opts:
            return ('outside', 'malformed')
        if site.kind == 'inst':
            return ('outside', 'instance parameter')
        if site.kind == 'ret' or eff == 'in':
            if is_len_target:
                return ('outside', 'also a length parameter')
            return ('invalid', ['optional', 'allow-none'])
        if site.opts('not') == ['optional']:
            return ('outside', 'contradicted by (not optional); judged there')
        return ('valid', [('optional="1"', a.get('optional') == '1')])
    if name in ('nullable', 'allow-none'):
        if opts:
            return ('outside', 'malformed')
        if site.kind == 'inst' and eff != 'in':
            return ('outside', 'instance parameter with a direction')
        if has_type:
            return ('outside', 'type overridden')
        if is_len_target:
            return ('outside', 'also a length parameter')
        if name == 'allow-none' and site.kind == 'param' and eff == 'out':
            if site.opts('not') == ['optional']:
                return ('outside', 'contradicted by (not optional); judged there')
            return ('valid', [('optional="1"', a.get('optional') == '1')])
        if name == 'allow-none' and eff == 'inout':
            return ('outside', 'allow-none on inout')
        pc = 'pointer' if outish else ptr_class(site.ctype)
        if site.has('array') and depth == 0:
            return ('outside', 'array on a non-pointer')
        if pc == 'pointer':
            n = site.opts('not')
            if n is not None and n != ['optional']:
                return ('outside', 'contradicted by (not ...); judged there')
            if n == ['optional'] and site.kind != 'param':
                return ('outside', '(not optional) on a non-parameter')
            return ('valid:with-not-optional' if n == ['optional'] else 'valid',
                    [('nullable="1"', a.get('nullable') == '1')])
        if pc == 'nonpointer':
            return ('invalid', ['nullable', 'allow-none', 'optional'])
        return ('outside', 'pointer-ness of %s unclear' % shape)
    if name == 'transfer':
        if len(opts) != 1 or opts[0] not in TRANSFER_MODES:
            return ('invalid', ['transfer-ownership'])
        if is_len_target:
            return ('outside', 'also a length parameter')
        mode = opts[0]
        if has_type:
            # validity and expectation follow the overridden type when it is one of the resolvable classes
            if ovr is None:
                return ('outside', 'type overridden (class of the override not judged)')
            if mode == 'container':
                if ovr == 'container':
                    return ('valid:override', [('transfer-ownership="container"', a.get('transfer-ownership') == 'container')])
                return ('invalid', ['transfer-ownership'])
            if mode == 'floating':
                if ovr in ('object', 'variant'):
                    return ('valid:override', [('transfer-ownership="none"', a.get('transfer-ownership') == 'none')])
                return ('invalid', ['transfer-ownership'])
            return ('valid:override', [('transfer-ownership="%s"' % mode, a.get('transfer-ownership') == mode)])
        if shape in ('unresolved', 'void', 'handle', 'aliasstr', 'callback', 'anyptr') and mode != 'floating':
            return ('outside', 'transfer on %s' % shape)
        if mode == 'floating':
            if shape in ('object', 'variant', 'closure'):
                if depth == 1:
                    return ('valid', [('transfer-ownership="none"', a.get('transfer-ownership') == 'none')])
                return ('outside', 'indirection')
            if shape == 'unresolved':
                return ('outside', 'unresolved')
            return ('invalid', ['transfer-ownership'])
        if mode == 'container':
            if site.has('array') or (shape in ('list', 'map', 'garray') and depth == 1) or (shape == 'strv' and depth == 0):
                return ('valid', [('transfer-ownership="container"', a.get('transfer-ownership') == 'container')])
            if shape in ('basic', 'enum', 'char', 'aliasbasic', 'object', 'record', 'variant', 'closure') and depth <= 1:
                return ('invalid', ['transfer-ownership'])
            return ('outside', 'container-ness unclear')
        want = ('transfer-ownership="%s"' % mode, a.get('transfer-ownership') == mode)
        if outish:
            return ('valid', [want])
        if shape in ('object', 'record', 'variant', 'closure', 'list', 'map', 'garray') and depth >= 1:
            return ('valid', [want])
        if shape == 'strv' or (shape == 'char' and depth >= 1):
            return ('valid', [want])
        if depth == 0 and shape in ('basic', 'enum', 'aliasbasic', 'char') and not site.has('array'):
            return ('invalid', ['transfer-ownership'])
        return ('outside', 'transfer %s on %s/%d' % (mode, shape, depth))
    if name == 'array':
        if has_type:
            return ('outside', 'type overridden')
        od = {}
        for o in opts:
            k, _, v = o.partition('=')
            od[k] = v if '=' in o else None
        for k in od:
            if k not in ('length', 'fixed-size', 'zero-terminated'):
                return ('outside', 'unknown array option')
        if 'fixed-size' in od and (od['fixed-size'] is None or py_int_ascii(od['fixed-size']) is None):
            if od['fixed-size'] in (None, '') or site.has('element-type') or site.has('transfer'):
                return ('outside', 'fixed-size without value / with element-type')
            return ('invalid', ['#type'])
        if 'zero-terminated' in od and od['zero-terminated'] not in (None, '0', '1'):
            return ('outside', 'malformed zero-terminated')
        if 'length' in od and not od['length']:
            return ('outside', 'length without value')
        if depth < 1 or shape in ('list', 'map', 'garray', 'strv', 'void', 'unresolved', 'callback', 'handle', 'aliasstr'):
            return ('outside', 'array on %s/%d' % (shape, depth))
        checks = [('type is <array>', ty is not None and ty['tag'] == 'array')]
        if 'length' in od:
            ln = od['length']
            if ln in unindexed and ln not in pnames:
                # the array itself is valid, its length reference is not: no length attribute is written
                checks.append(('no length attribute (the length names a parameter without index)',
                               'length' not in tyattrs))
                return ('valid', checks)
            if ln not in pnames:
                return ('outside', 'length names no parameter')
            checks.append(('length=%d' % pnames.index(ln), tyattrs.get('length') == str(pnames.index(ln))))
            tgt = [s for s in all_sites if s.pname == ln and s.kind == 'param']
            own_dir = tgt and any(tgt[0].has(d) for d in ('in', 'out', 'inout'))
            others = [s for s in all_sites if s is not site and s.opts('array') is not None
                      and ('length=' + ln) in s.opts('array')]
            if site.kind == 'param' and not own_dir and not others and ln != site.pname and not is_len_target:
                la = attrs_of(out['params'][pnames.index(ln)])
                checks.append(('length parameter %s has direction %s' % (ln, eff), la.get('direction', 'in') == eff))
        if 'fixed-size' in od:
            checks.append(('fixed-size=%d' % py_int_ascii(od['fixed-size']),
                           tyattrs.get('fixed-size') == str(py_int_ascii(od['fixed-size']))))
        if 'zero-terminated' in od:
            if od['zero-terminated'] == '0':
                checks.append(('zero-terminated="0"', tyattrs.get('zero-terminated') == '0'))
            else:
                implied = 'zero-terminated' not in tyattrs and 'length' not in tyattrs and 'fixed-size' not in tyattrs
                checks.append(('zero-terminated', tyattrs.get('zero-terminated') == '1' or implied))
        return ('valid', checks)
    if name == 'element-type':
        if has_type:
            return ('outside', 'type overridden')
        known = all(o in GIR_NAME for o in opts)
        kids = [ty_name(c) for c in ty['children']] if ty else []
        if site.has('array'):
            ao = judge(case, out, site, site.names.index('array'), all_sites)
            if ao[0] != 'valid':
                return ('outside', 'array annotation not judged valid')
            if len(opts) == 1 and known:
                return ('valid', [('array of %s' % GIR_NAME[opts[0]], kids == [GIR_NAME[opts[0]]])])
            return ('outside', 'element type not in table')
        cont = None
        if site.kind == 'ret' and shape == 'char' and depth == 2:
            return ('outside', 'char** return value is an array by default')
        if depth == 1 and shape in ('list', 'garray'):
            cont = 1
        elif depth == 1 and shape == 'map':
            cont = 2
        elif shape == 'strv' and depth == 0:
            cont = 1
        if cont is None:
            if shape in ('basic', 'enum', 'char', 'object', 'record', 'aliasbasic', 'variant', 'closure', 'anyptr') \
                    and site.ctype.get('carray') is None:
                return ('invalid', ['#type'])
            return ('outside', 'container-ness unclear')
        if len(opts) not in (1, 2):
            return ('outside', 'malformed')
        if len(opts) != cont:
            return ('invalid', ['#type'])
        if not known:
            return ('outside', 'element type not in table')
        if site.ctype['base'] in ('GPtrArray', 'GByteArray'):
            return ('outside', 'element restrictions of GPtrArray/GByteArray')
        return ('valid', [('elements %s' % [GIR_NAME[o] for o in opts], kids == [GIR_NAME[o] for o in opts])])
    if name == 'type':
        if len(opts) != 1:
            return ('invalid', ['#type']) if not opts else ('outside', 'malformed')
        if opts[0] in GIR_NAME:
            if site.has('array') or site.has('element-type'):
                return ('outside', 'combined with a container annotation')
            return ('valid', [('type %s' % GIR_NAME[opts[0]], ty is not None and ty['tag'] == 'type'
                               and ty_name(ty) == GIR_NAME[opts[0]])])
        return ('outside', 'type string not in table')
    if name in ('scope', 'closure', 'destroy'):
        if site.kind == 'ret':
            return ('invalid', ['#all'])
        if site.kind == 'inst':
            return ('outside', 'instance parameter')
        if has_type:
            return ('outside', 'type overridden')
        is_cb = shape == 'callback' and depth == 0
        clearly_not_cb = shape in ('basic', 'enum', 'char', 'object', 'record', 'aliasbasic', 'list', 'map', 'garray',
                                   'variant', 'closure', 'strv') or (shape == 'anyptr' and kind != 'callback')
        if kind == 'callback':
            if name == 'closure' and opts == [] and shape == 'anyptr' and depth == 0:
                return ('valid', [('closure=%d (itself)' % site.index, a.get('closure') == str(site.index))])
            return ('outside', 'callback annotations inside a callback typedef')
        if not is_cb:
            if clearly_not_cb:
                return ('invalid', [name] + (['scope'] if name == 'destroy' else []))
            return ('outside', 'callback-ness unclear')
        if name == 'scope':
            if len(opts) != 1 or opts[0] not in SCOPES:
                return ('invalid', ['scope'])
            if site.has('destroy'):
                return ('outside', 'scope together with destroy')
            # the statement makes no exception for well-known callback types or for a GDestroyNotify that
            # follows: a valid (scope X) has to be written as scope="X" (scope_override_class names the
            # cause when pass 3 or another parameter's (destroy) replaces it)
            return ('valid:scope', [('scope=%s' % opts[0], a.get('scope') == opts[0])])
        if len(opts) != 1:
            return ('outside', 'malformed')
        ref = opts[0]
        if ref in unindexed and ref not in pnames:
            # invalid reference: a warning (emitted by pass 3) and no closure/destroy attribute from it
            return ('invalid:late', [name])
        if ref not in pnames:
            return ('outside', '%s names no parameter' % name)
        return ('valid:ref', [('%s=%d' % (name, pnames.index(ref)), a.get(name) == str(pnames.index(ref)))])
    return ('outside', 'annotation not judged')


def autodetected_ref(out, site, name):
    """What `_pass3_callable_callbacks` attached to this callback parameter, read off the REAL output:
    the index written in the GIR attribute `name` (closure | destroy) when it points at a LATER
    parameter of the kind the autodetection picks (destroy: a parameter whose GIR type is
    GLib.DestroyNotify; closure: a gpointer parameter whose name ends in 'data'); else None.
    Judged on the GIR, not on the C spelling: `GDestroyNotify *d`, `GDestroyNotify d[3]` and a
    (type GLib.DestroyNotify) override all resolve to the callback and are picked up by pass 3."""
    v = attrs_of(site.node).get(name)
    if v is None or not v.isdigit() or site.index is None:
        return None
    k = int(v)
    if k <= site.index or k >= len(out['params']):
        return None
    tgt = out['params'][k]
    tname = ty_name(tgt['ty'])
    if name == 'destroy':
        return k if tname == 'GLib.DestroyNotify' else None
    return k if tname == 'gpointer' and (attrs_of(tgt).get('name') or '').endswith('data') else None


def scope_override_class(case, out, site, all_sites):
    """Why a valid (scope X) on a callback parameter is not the scope written to the GIR: the exact
    failure class, or None when none of the known mechanisms explains it."""
    got = attrs_of(site.node).get('scope')
    if got == 'notified' and autodetected_ref(out, site, 'destroy') is not None:
        return 'explicit-callback-annotation-overridden-by-autodetection'      # second loop of pass 3
    if got == 'async' and ty_name(site.node['ty']) in ('GLib.DestroyNotify', 'Gio.AsyncReadyCallback'):
        return 'explicit-callback-annotation-overridden-by-autodetection'      # first loop of pass 3 (well-known types)
    if got == 'notified':
        order = [p['name'] for p in case['params'] if not p.get('ellipsis')]
        for s in all_sites:
            if s is site or s.ctype is None or s.pname not in order or site.pname not in order:
                continue
            if s.opts('destroy') == [site.pname] and SHAPES[s.ctype['base']] == 'callback' \
                    and order.index(s.pname) > order.index(site.pname):
                return 'valid-overridden-by-destroy-reference:scope'
    return None


def crash_class(case, res):
    text = res['exc'] or ''
    parts = list(case['doc']) + ([dict(case['retdoc'], name='returns')] if case.get('retdoc') else [])
    has_type = any(parse_ann(a)[0] == 'type' for d in parts for a in d['anns'])
    if text.startswith("AttributeError: 'NoneType' object has no attribute 'endswith") and case['kind'] == 'signal' \
            and has_type:
        return 'crash:signal-type-override-without-ctype'
    return 'crash:other:' + re.sub(r'[0-9]+', 'N', text)[:80]


# --------------------------------------------------------------------------- evaluation
# Failing-input classes that exist on the UNCHANGED tree, one key per CAUSE in /repo (the same keys as
# known_findings.json): key -> what.  They are routed through ctx.report_failure as known so the run
# passes; any failure whose key is not listed here is a violation.
# Repaired in /repo and no longer suppressed (their inputs stay in corpus/C01/fixed_regressions.json):
# bare (transfer) on the instance parameter (081dd14), unknown transfer / scope words written (0c5d020),
# Returns: (array length=p) on a signal (280bbea); references to the instance / GError** parameter and
# direction annotations on return values (af359fc); unresolvable (type) on signals (fc59d40); (destroy P)
# over an explicit scope of P (05dfe62); (not optional) (faf246d); (type) override + (nullable)/(allow-none)/
# (transfer) on a signal parameter without a C type: None.endswith in _is_pointer_type (d9df372).
PENDING_FINDINGS = {
    'pointer-to-basic-alias-rejects-nullable':
        '(nullable) / (allow-none) on a pointer to an alias of a basic type (`FooInt *p`, `GQuark *p`): rejected with '
        '"only valid for pointer types" because _is_pointer_type looks at the alias target\'s own ctype',
    'by-value-non-basic-accepts-pointer-annotation':
        '(nullable) / (allow-none) on a by-value enum, flags, struct, union, boxed or object, and (transfer none|full) '
        'on a by-value enum or flags (pointer depth 0, direction in or return value) are accepted silently and '
        'written to the GIR; the statement requires a warning and unchanged output (_is_pointer_type treats '
        'everything that is not a basic type as a pointer)',
    'explicit-callback-annotation-overridden-by-autodetection':
        'an explicit (scope X) / (closure X) / (destroy X) on a callback parameter is overwritten by '
        '_pass3_callable_callbacks (later GDestroyNotify => destroy + scope notified; later gpointer *data => closure; '
        'GDestroyNotify / GAsyncReadyCallback parameter => scope async)',
}
# (transfer none|full) is only judged invalid on a by-value enum/flags: on a by-value struct or object the
# oracle stays 'outside' (the transformer's own message lists struct and object types as valid sites)
_BYVAL_SITES = {'enum': ('nullable', 'allow-none', 'transfer/none', 'transfer/full'),
                'object': ('nullable', 'allow-none'), 'record': ('nullable', 'allow-none')}


def site_key(site):
    shape, depth = site_class(site.ctype)
    return '%s:%s:%d:%s' % (site.kind, shape, min(depth, 2), site.effdir())


def ann_class(name, opts):
    if name == 'transfer':
        if len(opts) != 1:
            return 'transfer/arity%d' % len(opts)
        return 'transfer/' + (opts[0] if opts[0] in TRANSFER_MODES else 'unknown-mode')
    if name == 'scope':
        return 'scope/' + ('ok' if len(opts) == 1 and opts[0] in SCOPES else 'bad-option')
    if name == 'not':
        return 'not/' + ('-'.join(opts) if opts in (['nullable'], ['optional']) else 'bad-option')
    if name == 'out':
        return 'out/' + ('-'.join(opts) or 'bare')
    if name == 'array':
        return 'array/' + '+'.join(sorted(o.split('=')[0] for o in opts))
    if name == 'element-type':
        return 'element-type/%d' % len(opts)
    if name == 'closure' or name == 'destroy':
        return '%s/%d' % (name, len(opts))
    return name


def refs_missing(case):
    names = [p['name'] for p in case['params'] if not p.get('ellipsis')]
    if case['kind'] == 'vfunc':
        names.append('self')
    if case['kind'] == 'signal':
        n = len(case['params'])
        names = [d['name'] for d in case['doc'][1:1 + n]] if len(case['doc']) > n else \
            (['object'] + ['p%d' % i for i in range(n)])[:n]
    parts = list(case['doc']) + ([dict(case['retdoc'], name='returns')] if case.get('retdoc') else [])
    for d in parts:
        for a in d['anns']:
            n, o = parse_ann(a)
            refs = []
            if n in ('closure', 'destroy') and len(o) == 1 and case['kind'] not in ('signal', ):
                refs.append(o[0])
            if n == 'array':
                refs.extend(x[7:] for x in o if x.startswith('length=') and len(x) > 7)
            if any(r not in names for r in refs):
                return True
    return False


def part_line(comment, pname):
    for i, l in enumerate(comment.split('\n')):
        if (pname == 'returns' and l.startswith(' * Returns:')) or l.startswith(' * @%s:' % pname):
            return '/src/foo.c:%d' % (i + 1)
    return None


def all_buckets(res):
    return real_buckets(res['records'], res.get('snap'))


def finding_class(key):
    """the known-finding key of a failure class that exists on the unchanged tree (everything else
    keeps its exact key, so a new kind of failure is never absorbed by a known finding)"""
    m = re.match(r'(invalid-no-warning|invalid-changes-output):(nullable|allow-none|transfer/none|transfer/full):'
                 r'(param|ret|inst):(enum|object|record):0:(in|ret)$', key)
    if m and m.group(2) in _BYVAL_SITES[m.group(4)]:
        return 'by-value-non-basic-accepts-pointer-annotation'
    if re.match(r'valid-not-reflected:(nullable|allow-none):(param|ret):aliasbasic:[12]:(in|ret):nullable$', key):
        return 'pointer-to-basic-alias-rejects-nullable'
    if re.match(r'valid-not-reflected:not/optional:param:.*:(out|inout):no$', key):
        return 'not-optional-treated-as-not-nullable'
    return key


class Evaluator(object):
    def __init__(self, ctx, env, hooks, cnt):
        self.ctx, self.env, self.hooks, self.cnt = ctx, env, hooks, cnt
        self.extra_scans = 0
        self.judged = PyCounter()
        self.failures = []

    def fail(self, key, what, case, detail):
        key = finding_class(key)
        what += '\n%s %s(%s) -> %s' % (case['kind'], case['symbol'], ', '.join(
            '...' if p.get('ellipsis') else '%s%s%s %s' % ('const ' if p['type'].get('const') else '', p['type']['base'],
                                                          '*' * p['type'].get('depth', 0) +
                                                          ('[%d]' % p['type']['carray'] if p['type'].get('carray') else ''),
                                                          p['name']) for p in case['params']),
            case['ret']['base'] + '*' * case['ret'].get('depth', 0))
        self.failures.append(key)
        self.cnt.hit('oracle:FAIL:' + key.split(':')[0])
        self.ctx.report_failure(key, what, {'kind': 'case', 'case': case, 'key': key, 'detail': detail})

    def evaluate(self, case, res, deep=True):
        """the documentation/statement oracle on the real output of one case"""
        comment = render_comment(case)
        if res['status'] == 'raises':
            key = crash_class(case, res)
            self.fail(key, 'the scanner dies with %s on an annotated %s; the property requires a warning and unchanged '
                      'output for invalid annotations\n%s' % (res['exc'], case['kind'], comment), case, res['exc'])
            return
        if res['status'] == 'fatal':
            if refs_missing(case):
                self.judged['outside:fatal-missing-parameter'] += 1
            else:
                self.fail('fatal:no-missing-reference', 'fatal error without a dangling parameter reference: %s\n%s'
                          % (res['exc'], comment), case, res['exc'])
            return
        out = res['out']
        if out is None:
            self.fail('callable-missing', 'callable not written to the GIR\n' + comment, case, None)
            return
        if case['kind'] == 'signal' and len(case['doc']) <= len(case['params']):
            self.judged['outside:signal-doc-count'] += 1
            return
        parts = [(d['name'], d['anns'], d.get('cont', 0)) for d in case['doc']]
        if case.get('retdoc'):
            parts.append(('returns', case['retdoc']['anns'], case['retdoc'].get('cont', 0)))
        sites = [Site(case, out, n, a) for n, a, _c in parts]
        full_b = all_buckets(res)
        for site, (pname, anns, cont) in zip(sites, parts):
            for idx in range(len(site.anns)):
                name, opts = site.anns[idx]
                verdict = judge(case, out, site, idx, sites)
                vclass = verdict[0].split(':')[0]
                self.judged['%s:%s' % (vclass, name)] += 1
                if vclass == 'outside':
                    continue
                skey = site_key(site)
                acls = ann_class(name, opts)
                if vclass == 'valid':
                    for desc, good in verdict[1]:
                        if good:
                            continue
                        key = 'valid-not-reflected:%s:%s:%s' % (acls, skey, desc.split('=')[0].split(' ')[0])
                        if verdict[0] == 'valid:ref':
                            k = autodetected_ref(out, site, name)
                            if k is not None and attrs_of(out['params'][k]).get('name') != opts[0]:
                                key = 'explicit-callback-annotation-overridden-by-autodetection'
                        if verdict[0] == 'valid:scope':
                            key = scope_override_class(case, out, site, sites) or key
                        self.fail(key, '(%s) on %s %s [%s] is valid but the GIR does not show %s: %s\n%s'
                                  % (' '.join([name] + opts), site.kind, pname, skey, desc,
                                     json.dumps(site.node), comment), case, desc)
                    if verdict[0] == 'valid:not-optional' and deep:
                        r2 = self.rerun(case, (pname, idx))
                        if r2 is not None:
                            s2 = Site(case, r2['out'], pname, [a for i, a in enumerate(anns) if i != idx])
                            if s2.node is not None and attrs_of(s2.node).get('nullable') != attrs_of(site.node).get('nullable'):
                                self.fail('not-optional-treated-as-not-nullable',
                                          '(not optional) on %s %s changes the nullable attribute (%r -> %r); the '
                                          'documentation ties it to optional only\n%s'
                                          % (site.kind, pname, attrs_of(s2.node).get('nullable'),
                                             attrs_of(site.node).get('nullable'), comment), case, None)
                    continue
                # invalid: a warning attributed to the annotation and the attribute(s) unchanged
                if not deep:
                    continue
                r2 = self.rerun(case, (pname, idx))
                if r2 is None:
                    self.judged['outside:erased-variant-not-ok'] += 1
                    continue
                s2 = Site(case, r2['out'], pname, [a for i, a in enumerate(anns) if i != idx])
                if s2.node is None:
                    continue
                diff = full_b - all_buckets(r2)
                line = part_line(comment, pname)
                warned = sum(diff.values()) >= 1 and (cont or line in diff or 'none' in diff)
                if verdict[0] == 'invalid:late':
                    # reported at the declaration, after the start of pass 3
                    warned = warned or bool(PyCounter(res.get('late', ())) - PyCounter(r2.get('late', ())))
                if not warned:
                    self.fail('invalid-no-warning:%s:%s' % (acls, skey),
                              '(%s) on %s %s [%s] is not valid there but no warning is attributed to it\n%s'
                              % (' '.join([name] + opts), site.kind, pname, skey, comment), case,
                              {'with': dict(full_b), 'without': dict(all_buckets(r2))})
                a1, a2 = attrs_of(site.node), attrs_of(s2.node)
                changed = []
                for k in verdict[1]:
                    if k == '#type':
                        if site.node['ty'] != s2.node['ty']:
                            changed.append('type')
                    elif k == '#all':
                        if site.node != s2.node:
                            changed.append('node')
                    elif a1.get(k) != a2.get(k):
                        changed.append('%s: %r -> %r' % (k, a2.get(k), a1.get(k)))
                if changed:
                    self.fail('invalid-changes-output:%s:%s' % (acls, skey),
                              '(%s) on %s %s [%s] is not valid there but changes the output: %s\n%s'
                              % (' '.join([name] + opts), site.kind, pname, skey, '; '.join(changed), comment),
                              case, changed)

    def rerun(self, case, erase):
        self.extra_scans += 1
        r2 = run_real(self.env, self.hooks, case, render_comment(case, erase=erase), want_snapshot=False)
        if r2['status'] != 'ok' or r2['out'] is None:
            return None
        return r2


def mutants(case):
    """smaller neighbours of a case: one annotation or one documented part dropped"""
    out = []
    for i, d in enumerate(case['doc']):
        for j in range(len(d['anns'])):
            c = copy.deepcopy(case)
            del c['doc'][i]['anns'][j]
            c['doc'][i].pop('cont', None)
            out.append(c)
        c = copy.deepcopy(case)
        c['doc'][i]['anns'] = []
        out.append(c)
    if case.get('retdoc'):
        for j in range(len(case['retdoc']['anns'])):
            c = copy.deepcopy(case)
            del c['retdoc']['anns'][j]
            c['retdoc'].pop('cont', None)
            out.append(c)
    return out[:40]


def table_cases():
    """exhaustive single annotation x site class x direction (thorough tier)"""
    reps = ['int', 'gboolean', 'char', 'gpointer', 'GList', 'GHashTable', 'GArray', 'GPtrArray', 'GStrv', 'GVariant',
            'GClosure', 'FooObj', 'FooIface', 'FooRec', 'FooBoxed', 'FooUni', 'FooEnum', 'FooFlags', 'FooCb',
            'GDestroyNotify', 'FooInt', 'FooStr', 'FooHandle', 'BarUnknown', 'GQuark', 'GError']
    singles = ['allow-none', 'nullable', 'not nullable', 'not optional', 'optional', 'in', 'out', 'out caller-allocates',
               'out callee-allocates', 'inout', 'transfer none', 'transfer container', 'transfer full',
               'transfer floating', 'transfer bogus', 'transfer', 'skip', 'array', 'array length=n',
               'array fixed-size=4', 'array zero-terminated=1', 'array zero-terminated=0', 'array zero-terminated',
               'array length=n zero-terminated=1', 'array fixed-size=x', 'element-type utf8', 'element-type utf8 gint',
               'type utf8', 'type Foo.Obj', 'type Foo.Rec', 'type Bar.Baz', 'type GLib.List(utf8)|transfer container',
               'type GLib.HashTable(utf8,gint)|transfer container', 'type Foo.Rec|transfer full',
               'type Foo.Obj|transfer floating', 'type Foo.Rec|transfer container', 'scope call', 'scope async', 'scope notified',
               'scope forever', 'scope bogus', 'closure data', 'destroy notify', 'attributes a.b=v']
    cid = 0
    for base in reps:
        for depth in (0, 1, 2):
            for ann in singles:
                for where in ('in', 'out', 'inout', 'ret'):
                    if where == 'ret' and (ann.split(' ')[0] in ('scope', 'closure', 'destroy')):
                        continue
                    cid += 1
                    t = {'base': base, 'depth': depth, 'const': False}
                    anns = ann.split('|') + ({'in': [], 'out': ['out'], 'inout': ['inout'], 'ret': []}[where]
                                    if ann.split(' ')[0] not in ('in', 'out', 'inout') else [])
                    if where in ('out', 'inout') and ann.split(' ')[0] in ('in', 'out', 'inout'):
                        continue
                    case = {'kind': 'function', 'id': 100000 + cid, 'symbol': 'foo_t%d' % cid, 'block': 'foo_t%d' % cid,
                            'params': [{'name': 'n', 'type': {'base': 'int', 'depth': 0, 'const': False}},
                                       {'name': 'data', 'type': {'base': 'gpointer', 'depth': 0, 'const': False}},
                                       {'name': 'notify', 'type': {'base': 'GDestroyNotify', 'depth': 0, 'const': False}}],
                            'ret': {'base': 'void', 'depth': 0, 'const': False}, 'retdoc': None,
                            'doc': [{'name': 'n', 'anns': []}, {'name': 'data', 'anns': []},
                                    {'name': 'notify', 'anns': []}]}
                    if where == 'ret':
                        if base == 'void' and depth == 0:
                            continue
                        case['ret'] = t
                        case['retdoc'] = {'anns': anns}
                    else:
                        case['params'].insert(0, {'name': 'x', 'type': t})
                        case['doc'].insert(0, {'name': 'x', 'anns': anns})
                    yield case


def load_corpus():
    out = []
    if os.path.isdir(CORPUS):
        for fn in sorted(os.listdir(CORPUS)):
            if fn.endswith('.json'):
                with open(os.path.join(CORPUS, fn)) as f:
                    data = json.load(f)
                out.extend(data if isinstance(data, list) else [data])
    return out


def process(ctx, ev, env, hooks, cases, cnt, state, deadline, deep_deadline):
    """real + oracle for every case, then the model on the whole batch"""
    results = []
    reqs = []
    for case in cases:
        if time.time() > deadline:
            break
        res = run_real(env, hooks, case, render_comment(case))
        state['real'] += 1
        cnt.hit('kind:' + case['kind'])
        cnt.hit('status:' + res['status'])
        nann = sum(len(d['anns']) for d in case['doc']) + (len(case['retdoc']['anns']) if case.get('retdoc') else 0)
        cnt.hit('annotations', nann)
        cnt.case(['c', case['kind'], case['params'], case['ret'], case['doc'], case.get('retdoc')], nontrivial=nann > 0)
        ev.evaluate(case, res, deep=time.time() < deep_deadline)
        req = None
        if res['snap'] is not None:
            if res['snap'].error and len(state['snaperr']) < 3:
                state['snaperr'].append(res['snap'].error)
            if res['snap'].req is not None:
                req = dict(res['snap'].req, split=res['split'])
        elif hooks.ok() and res['status'] == 'ok':
            pass
        results.append((case, res))
        reqs.append(req)
    idx = [i for i, r in enumerate(reqs) if r is not None]
    models = []
    for k in range(0, len(idx), 1500):
        models.extend(ctx.driver.batch([reqs[i] for i in idx[k:k + 1500]]))
    for i, m in zip(idx, models):
        case, res = results[i]
        state['compared'] += 1
        if 'fail' in m:
            cnt.hit('model:' + ('fatal' if 'fatal' in m['fail'] else 'raises'))
        else:
            cnt.hit('model:ok')
            cnt.hit('model-warnings', len(m['ok']['warnings']))
        d = compare(res, m)
        if d:
            state['disagree'].append((case, d))
            if len(state['disagree']) <= 3:
                ctx.broken.append('correspondence c01.run differs: %s\n%s' % (d[:700], render_comment(case)))
    state['nosnap'] += len([1 for (c, r), q_ in zip(results, reqs) if q_ is None and r['status'] == 'ok'])
    return len(results)


def run(ctx):
    cnt = Counter()
    ctx.prove(['gen_typenames', 'gen_paramann'], ['GIVerif.Props.C01'], 'GIVerif.Props.C01')
    for k, what in PENDING_FINDINGS.items():
        if ctx.is_known(k) is None:
            ctx.known.append({'property': 'C01', 'key': k, 'status': 'known', 'what': what, 'pending': True})
    env = Env(ctx.scratch)
    hooks = Hooks()
    if not hooks.ok():
        for n in hooks.missing:
            ctx.broken.append('correspondence c01.run: %s no longer exists; model comparison disabled, the '
                              'documentation oracle still runs on the whole pipeline' % n)
    hooks.install()
    ev = Evaluator(ctx, env, hooks, cnt)
    state = {'real': 0, 'compared': 0, 'disagree': [], 'nosnap': 0, 'snaperr': []}
    t0 = time.time()
    # thorough: 12000 seeded cases (20x quick) + the ~10700 exhaustive table cases fit into the budget on an
    # idle machine (~45 cases/s); the deadline only cuts the seeded stream short on a loaded one, so that
    # proofs + leanchecker + search stay under 15 minutes
    budget = 62 if ctx.quick() else 540
    ctx.log('proofs done; search budget %ds' % budget)
    deadline = t0 + budget
    deep_deadline = t0 + budget * 0.85
    try:
        corpus = load_corpus()
        process(ctx, ev, env, hooks, corpus, cnt, state, deadline, deep_deadline)
        n_table = 0
        if not ctx.quick():
            tcs = list(table_cases())
            n_table = process(ctx, ev, env, hooks, tcs, cnt, state, t0 + budget * 0.6, t0 + budget * 0.55)
        rng = ctx.rng
        ctx.log('corpus + table done: %d cases' % state['real'])
        n_target = ctx.n(600, 12000)
        done = 0
        while done < n_target and time.time() < deadline:
            chunk = [gen_case(rng, p_valid=0.7 if rng.random() < 0.8 else 0.3) for _ in range(min(300, n_target - done))]
            got = process(ctx, ev, env, hooks, chunk, cnt, state, deadline, deep_deadline)
            done += got
            if got < len(chunk):
                break
        # neighbourhood of the first disagreements: the oracle on shrunk variants
        for case, _d in state['disagree'][:3]:
            for mc in mutants(case):
                res = run_real(env, hooks, mc, render_comment(mc), want_snapshot=False)
                ev.evaluate(mc, res)
                cnt.hit('search:mutant')
    finally:
        hooks.uninstall()
    ctx.log('search done: %d cases through the real pipeline, %d compared with the model' % (state['real'], state['compared']))
    if state['snaperr']:
        ctx.broken.append('correspondence c01.run: a private function the snapshot relies on has changed (%s); '
                          'those cases were judged by the documentation oracle only' % '; '.join(state['snaperr']))
    if hooks.ok() and state['real'] and state['compared'] < 0.5 * state['real'] and not state['snaperr']:
        ctx.broken.append('correspondence c01.run: only %d of %d cases reached the model' % (state['compared'], state['real']))
    for k, v in ev.judged.items():
        cnt.counts['oracle:' + k] = v
    ctx.coverage.update({
        'evaluations': state['real'] + ev.extra_scans + cnt.counts.get('search:mutant', 0),
        'distinct_nontrivial': cnt.n_distinct(),
        'rule': 'seeded generator: callables of every kind (function, method, callback typedef, vfunc via class '
                'struct, signal via runtime dump) with 0-6 parameters from %d C type shapes x pointer depth 0-2 x '
                'const (+ C arrays, varargs, GError**), each part with 0-4 of the 16 parameter annotations, options '
                'valid and invalid (70%% plausible at the site), multi-line continuation; every part on its own '
                'comment line.  Every case: real pipeline vs model (attributes of return-value/instance-parameter/'
                'parameter/array/type/attribute + warning buckets by line), and the documentation oracle on the real '
                'GIR (valid => documented attribute; invalid => re-scan with that one annotation erased: more '
                'warnings and same attribute).  non-trivial = at least one annotation; distinct by content hash.'
                % len(SHAPES),
        'samples': [{'case': c} for c, _ in [(gen_case(ctx.rng), 0)]],
        'distribution': cnt.counts,
        'corpus_cases': len(corpus),
        'model_compared': state['compared'],
        'model_disagreements': len(state['disagree']),
        'oracle_extra_scans': ev.extra_scans,
        'exhaustive': (not ctx.quick()),
        'exhaustive_table_cases': n_table,
        'pending_findings': sorted(PENDING_FINDINGS),
    })
    ctx.assumptions.extend([
        'the C lexer/parser is not exercised: declarations enter as the symbol stream the lexer would deliver',
        'the state of every node when the annotation pass starts (C type -> GI type, default transfer; C02) and '
        '_get_transfer_default_return are inputs of the model, captured from the live objects',
        'namespace lookup is an input: create_type_from_user_string per identifier of a (type)/(element-type) string, '
        'lookup_typenode+resolve_aliases per type, the late resolve_type by C name',
        'method pairing (C04) is an input: whether the function was split into instance parameter + parameters',
        'GLib/GObject/Gio are three small hand-written GIR files (List, HashTable, Array, Variant, Closure, Object, '
        'DestroyNotify, AsyncReadyCallback, Cancellable ...), not the real ones',
        'int() of fixed-size is modelled for ASCII input only; comment syntax (C10/C11) is parsed by the real parser',
        'warnings are compared by position bucket and count, not by text; warnings after the start of pass 3 and '
        'of IntrospectablePass are not part of the comparison',
    ])


def replay(ctx, rep):
    env = Env(ctx.scratch)
    hooks = Hooks()
    hooks.install()
    try:
        r = rep['replay']
        case = r['case']
        comment = render_comment(case)
        print(comment)
        res = run_real(env, hooks, case, comment)
        print('status=%s exc=%s' % (res['status'], res['exc']))
        print(json.dumps(res['out'], indent=1)[:4000])
        for w in res['records']:
            print('warning', w['positions'], w['text'])
        ev = Evaluator(ctx, env, hooks, Counter())
        ev.evaluate(case, res)
        print('failures:', ev.failures)
        return 1 if ctx.violations else 0
    finally:
        hooks.uninstall()
