"""C17 — Requiring a namespace loads the right typelib version and its dependencies.

Proof: lean/GIVerif/Props/C17.lean over the model lean/GIVerif/Model/Repo.lean.
Tie: (1) translators/gen_repo.py re-reads the literals / decision order of girepository.c;
(2) every generated history is executed by the REAL library (cdrivers/c17_history.c, public API
only, one fresh process per history because the search path is process-global) over a scratch
tree of typelibs built by the REAL g-ir-compiler, and by the Lean model (driver op c17.history)
on the same file-system description; results are canonicalised and compared; (3) independently
an oracle written from the property statement (`Spec` below: plain Python, no model code) is
evaluated on the real library's output of every history — that is the failing-input search.
"""
import concurrent.futures
import copy
import ctypes
import json
import os
import re
import shutil
import subprocess

import cbuild
from core import VERIF, Counter

VERSIONS = ['1.0', '1.9', '1.10', '1.010', '2.0', '10.1', '0.9']
NS_POOL = ['Foo', 'Bar', 'Baz', 'Qux', 'FooBar', 'Gtk', 'Gdk', 'GLib', 'Gio', 'A', 'B2', 'x_y', 'Fo']
LIBDIR_ENTRY = '/nonexistent/lib/girepository-1.0'
BUILTIN = '<builtin>'
ERR_NAMES = {0: 'NotFound', 1: 'Mismatch', 2: 'VersionConflict'}

# Genuine defects of the unchanged code that are not repaired yet: key -> KNOWN-FINDING text.  Empty:
# the four classes found by this check (use-after-free of the lazy key c8cdbdb, misversioned elected
# file 89f491f, load_typelib conflict 1c07e29, eager load over a lazy entry cf7a1a1) are repaired and
# their replays are regressions in corpus/C17/edge_cases.json.
PENDING_FINDINGS = {}


def report(ctx, key, what, replay):
    """route through ctx.report_failure; the classes in PENDING_FINDINGS count as known findings"""
    if key in PENDING_FINDINGS and ctx.is_known(key) is None:
        ctx.known.append({'property': 'C17', 'status': 'known', 'key': key, 'what': PENDING_FINDINGS[key]})
    ctx.report_failure(key, what, replay)


# ------------------------------------------------------------------ typelib pool (real compiler)
GIR_TMPL = '''<?xml version="1.0"?>
<repository version="1.2" xmlns="http://www.gtk.org/introspection/core/1.0" xmlns:c="http://www.gtk.org/introspection/c/1.0" xmlns:glib="http://www.gtk.org/introspection/glib/1.0">
%s  <namespace name="%s" version="%s" c:identifier-prefixes="%s" c:symbol-prefixes="%s">
    <constant name="K" value="1" c:type="K"><type name="gint" c:type="gint"/></constant>
  </namespace>
</repository>
'''

# universe 0 is fixed (the corpus refers to it): (ns, version, variant) -> [(dep ns, dep version)]
U0 = {
    ('Bar', '1.0', 'a'): [], ('Bar', '2.0', 'a'): [], ('Bar', '1.9', 'a'): [], ('Bar', '1.10', 'a'): [],
    ('Baz', '1.0', 'a'): [('Bar', '1.0')], ('Baz', '2.0', 'a'): [('Bar', '2.0')],
    ('Foo', '1.0', 'a'): [('Bar', '1.0')], ('Foo', '1.0', 'b'): [('Bar', '1.0'), ('Baz', '1.0')],
    ('Foo', '1.9', 'a'): [], ('Foo', '1.10', 'a'): [('Baz', '1.0')], ('Foo', '1.010', 'a'): [],
    ('Foo', '2.0', 'a'): [('Bar', '2.0')], ('Foo', '10.1', 'a'): [], ('Foo', '0.9', 'a'): [],
    ('Qux', '1.0', 'a'): [], ('Qux', '1.0', 'b'): [('Bar', '1.0')],
    ('Top', '1.0', 'a'): [('Foo', '1.0'), ('Baz', '1.0')], ('Top', '2.0', 'a'): [('Foo', '2.0'), ('Qux', '1.0')],
    ('GIRepository', '2.0', 'a'): [], ('GIRepository', '1.0', 'a'): [],
}


def gen_universe(rng):
    names = rng.sample(NS_POOL, rng.randint(3, 6))
    if rng.random() < 0.15:
        names.append('GIRepository')
    vers = {n: rng.sample(VERSIONS, rng.randint(1, 5)) for n in names}
    uni = {}
    for i, n in enumerate(names):
        later = names[i + 1:]
        for v in vers[n]:
            for variant in ('a', 'b') if rng.random() < 0.3 else ('a',):
                deps = []
                for d in rng.sample(later, min(len(later), rng.choice([0, 0, 1, 1, 2, 3]))):
                    deps.append((d, rng.choice(vers[d])))
                uni[(n, v, variant)] = deps
    return uni


class Pool(object):
    """typelibs of one universe, compiled by /repo's g-ir-compiler"""

    def __init__(self, root, uni, compiler):
        self.root = root
        self.uni = uni
        self.files = {}
        self._hdr = {}
        girdir = os.path.join(root, 'gir')
        os.makedirs(girdir)
        os.makedirs(os.path.join(root, 'girb'))
        os.makedirs(os.path.join(root, 'tl'))
        jobs = []
        for (ns, ver, variant), deps in sorted(uni.items()):
            inc = ''.join('  <include name="%s" version="%s"/>\n' % d for d in deps)
            gdir = girdir if variant == 'a' else os.path.join(root, 'girb')
            gpath = os.path.join(gdir, '%s-%s.gir' % (ns, ver))
            with open(gpath, 'w') as f:
                f.write(GIR_TMPL % (inc, ns, ver, ns, ns.lower()))
            out = os.path.join(root, 'tl', '%s-%s-%s.typelib' % (ns, ver, variant))
            jobs.append(((ns, ver, variant), gpath, out))

        def one(job):
            key, gpath, out = job
            rc, so, se = cbuild.run_compiler(compiler, gpath, out, includedirs=[girdir], timeout=60)
            log = so + se
            return key, out, rc, ('[conflicting-includes] ' if 'imported with conflicting versions' in log else '') + log[-300:]
        self.errors = []
        self.refused = 0
        with concurrent.futures.ThreadPoolExecutor(max_workers=8) as ex:
            for key, out, rc, log in ex.map(one, jobs):
                if rc != 0 and log.startswith('[conflicting-includes] '):
                    self.refused += 1      # the compiler rejects include sets that conflict transitively
                elif rc != 0 or not os.path.exists(out):
                    self.errors.append('%s: rc=%s %s' % (key, rc, log))
                else:
                    self.files[key] = out
        for key in sorted(self.files):
            self.hdr(key)

    def hdr(self, key):
        """header of the compiled typelib, read from its bytes (namespace, nsversion, dependency
        string split at '|'); cross-checked against what the GIR asked for"""
        key = tuple(key)
        if key not in self._hdr:
            ns, ver, _variant = key
            try:
                self._hdr[key] = read_header(self.files[key])
            except Exception as e:  # the typelib header no longer has the layout the harness reads
                self.errors.append('cannot read the header of typelib %s: %r' % (key, e))
                self._hdr[key] = {'ns': ns, 'ver': ver, 'deps': ['%s-%s' % d for d in reversed(self.uni[key])]}
            h = self._hdr[key]
            if h['ns'] != ns or h['ver'] != ver or sorted(h['deps']) != sorted('%s-%s' % d for d in self.uni[key]):
                self.errors.append('typelib %s has header %r' % (key, h))
        return self._hdr[key]

    def namespaces(self):
        return sorted(set(k[0] for k in self.uni))


def read_header(path):
    """(namespace, nsversion, dependencies) of a typelib file: Header fields `dependencies`,
    `namespace`, `nsversion` are guint32 string offsets at bytes 36, 44, 48 (gitypelib-internal.h)"""
    with open(path, 'rb') as f:
        data = f.read()

    def u32(off):
        return int.from_bytes(data[off:off + 4], 'little')

    def cstr(off):
        return data[off:data.index(b'\0', off)].decode('utf-8')
    deps = u32(36)
    return {'ns': cstr(u32(44)), 'ver': cstr(u32(48)), 'deps': cstr(deps).split('|') if deps else []}


# ------------------------------------------------------------------ configurations and histories
def gen_config(rng, pool):
    """{'dirs': {dirname: {filename: poolkey}}, 'env': [dirname...] or None}"""
    keys = sorted(pool.files)
    ndirs = rng.randint(1, 5)
    dirs = {}
    p_inc = rng.choice([0.15, 0.3, 0.5, 0.8])
    for i in range(ndirs):
        d = {}
        for k in keys:
            if rng.random() < p_inc:
                name = '%s-%s.typelib' % (k[0], k[1])
                if name not in d or rng.random() < 0.5:
                    d[name] = k
        dirs['d%d' % i] = d
    specials = 0
    for dn in dirs:
        d = dirs[dn]
        if rng.random() < 0.12 and keys:                    # header namespace != file name
            a, b = rng.choice(keys), rng.choice(keys)
            if a[0] != b[0]:
                d['%s-%s.typelib' % (a[0], a[1])] = b
                specials += 1
        if rng.random() < 0.12 and keys:                    # header version != file name
            a = rng.choice(keys)
            others = [k for k in keys if k[0] == a[0] and k[1] != a[1]]
            if others:
                d['%s-%s.typelib' % (a[0], rng.choice(VERSIONS + ['3.0']))] = rng.choice(others)
                specials += 1
        if rng.random() < 0.10 and keys:                    # odd file names around a namespace
            a = rng.choice(keys)
            nm = rng.choice(['%s-.typelib', '%s-1.typelib', '%s-abc.typelib', '%s-1.x.typelib', '%s-1.2.3.typelib',
                             '%s.typelib', '%s-1.0.typelib.bak', '%sX-1.0.typelib', '%s-1.0.gir', '%s-+1.5.typelib',
                             '%s-1..typelib', '%s-01.00.typelib']) % a[0]
            d[nm] = a
            specials += 1
    names = sorted(dirs)
    env = None
    if rng.random() < 0.7:
        env = rng.sample(names, rng.randint(1, len(names)))
        if rng.random() < 0.1:
            env.insert(rng.randint(0, len(env)), 'missing')   # a directory that does not exist
        if rng.random() < 0.05:
            env.append(env[0])                                 # listed twice
    return {'dirs': dirs, 'env': env, 'specials': specials}


QUERIES = ['loaded', 'version', 'path', 'ideps', 'deps', 'versions', 'is_registered', 'search_path']


def gen_history(rng, pool, cfg, lazy_p):
    nss = pool.namespaces()
    dirnames = sorted(cfg['dirs'])
    ops = []
    # directories not provided by the environment are usually prepended first
    missing = [d for d in dirnames if not cfg['env'] or d not in cfg['env']]
    rng.shuffle(missing)
    for d in missing:
        if rng.random() < 0.8:
            ops.append({'k': 'prepend', 'dir': d})
    n = rng.randint(1, 12)
    touched = []
    while len(ops) < n + len(missing) and len(ops) < 14:
        r = rng.random()
        ns = rng.choice(touched) if touched and rng.random() < 0.5 else rng.choice(nss + ['Nope'] if rng.random() < 0.1 else nss)
        lazy = rng.random() < lazy_p
        vs = sorted(set(k[1] for k in pool.uni if k[0] == ns)) or VERSIONS
        ver = None if rng.random() < 0.45 else rng.choice(vs if rng.random() < 0.8 else VERSIONS + ['3.0', '1'])
        if r < 0.40:
            ops.append({'k': 'require', 'ns': ns, 'ver': ver, 'lazy': lazy})
            touched.append(ns)
        elif r < 0.50:
            ops.append({'k': 'require_private', 'dir': rng.choice(dirnames + ['missing'] if rng.random() < 0.1 else dirnames),
                        'ns': ns, 'ver': ver, 'lazy': lazy})
            touched.append(ns)
        elif r < 0.58:
            if rng.random() < 0.6:
                fresh = [n for n in nss if n not in touched]
                ns = rng.choice(fresh) if fresh else ns
            cands = [k for k in sorted(pool.files) if k[0] == ns] or sorted(pool.files)
            ops.append({'k': 'load', 'key': list(rng.choice(cands)), 'lazy': lazy})
            touched.append(ns)
        elif r < 0.63:
            ops.append({'k': 'prepend', 'dir': rng.choice(dirnames + ['missing'] if rng.random() < 0.1 else dirnames)})
        else:
            q = rng.choice(QUERIES)
            op = {'k': q}
            if q not in ('loaded', 'search_path'):
                op['ns'] = ns
            if q == 'is_registered':
                op['ver'] = ver
            ops.append(op)
    # finish with a look at everything that was touched
    ops.append({'k': 'loaded'})
    for ns in sorted(set(touched))[:3]:
        ops.append({'k': rng.choice(['version', 'path', 'deps', 'ideps']), 'ns': ns})
    return ops


# ------------------------------------------------------------------ materialising a configuration
class Tree(object):
    def __init__(self, root, pool, cfg):
        self.root = root
        self.pool = pool
        self.cfg = cfg
        os.makedirs(root)
        self.listing = {}
        for dn, files in cfg['dirs'].items():
            p = os.path.join(root, dn)
            os.mkdir(p)
            for fn, key in files.items():
                os.link(pool.files[tuple(key)], os.path.join(p, fn))
            # the order g_dir_read_name will deliver (readdir order of this directory)
            self.listing[dn] = os.listdir(p)

    def path(self, dn):
        return os.path.join(self.root, dn)

    def env_value(self):
        if self.cfg['env'] is None:
            return None
        return ':'.join(self.path(d) for d in self.cfg['env'])

    def fs_json(self):
        out = []
        for dn in sorted(self.cfg['dirs']):
            ents = []
            for fn in self.listing[dn]:
                h = self.pool.hdr(tuple(self.cfg['dirs'][dn][fn]))
                ents.append({'name': fn, 'ns': h['ns'], 'ver': h['ver'], 'deps': h['deps']})
            out.append({'dir': self.path(dn), 'entries': ents})
        return out

    def remove(self):
        shutil.rmtree(self.root, ignore_errors=True)


def history_text(tree, ops):
    lines = []
    for o in ops:
        k = o['k']
        v = o.get('ver')
        v = '-' if v is None else v
        fl = '1' if o.get('lazy') else '0'
        if k == 'prepend':
            lines.append('prepend %s' % tree.path(o['dir']))
        elif k == 'require':
            lines.append('require %s %s %s' % (o['ns'], v, fl))
        elif k == 'require_private':
            lines.append('require_private %s %s %s %s' % (tree.path(o['dir']), o['ns'], v, fl))
        elif k == 'load':
            lines.append('load %s %s' % (tree.pool.files[tuple(o['key'])], fl))
        elif k in ('loaded', 'search_path'):
            lines.append(k)
        elif k == 'is_registered':
            lines.append('is_registered %s %s' % (o['ns'], v))
        else:
            lines.append('%s %s' % (k, o['ns']))
    return '\n'.join(lines) + '\n'


def model_request(tree, ops, fuel):
    mops = []
    for o in ops:
        m = dict(o)
        if o['k'] in ('prepend', 'require_private'):
            m['dir'] = tree.path(o['dir'])
        if o['k'] == 'load':
            m.update(tree.pool.hdr(tuple(o['key'])))
            del m['key']
        mops.append(m)
    return {'op': 'c17.history', 'libdir': '/nonexistent/lib', 'env': tree.env_value(), 'fuel': fuel,
            'fs': tree.fs_json(), 'ops': mops}


def run_real(exe, tree, ops, scratch, tag):
    """-> (list of parsed result lines, completed?, returncode)"""
    hpath = os.path.join(scratch, 'h%s.txt' % tag)
    with open(hpath, 'w') as f:
        f.write(history_text(tree, ops))
    env = dict(os.environ)
    env.pop('GI_TYPELIB_PATH', None)
    ev = tree.env_value()
    if ev is not None:
        env['GI_TYPELIB_PATH'] = ev
    env['G_DEBUG'] = ''
    env['G_MESSAGES_DEBUG'] = ''
    try:
        p = subprocess.run([exe, hpath], stdout=subprocess.PIPE, stderr=subprocess.PIPE, env=env, timeout=20)
        rc = p.returncode
        out = p.stdout.decode('utf-8', 'replace')
    except subprocess.TimeoutExpired as e:
        rc = 'timeout'
        out = (e.stdout or b'').decode('utf-8', 'replace')
    finally:
        try:
            os.unlink(hpath)
        except OSError:
            pass
    lines = out.split('\n')
    res = []
    done = False
    for ln in lines:
        if ln == 'end':
            done = True
            break
        m = re.match(r'^(\d+) (ok|err|val|list) ?(.*)$', ln)
        if not m or int(m.group(1)) != len(res):
            break
        res.append(parse_real_line(m.group(2), m.group(3)))
    return res, done, rc


def parse_real_line(kind, rest):
    if kind == 'ok':
        m = re.match(r'^(\d+) (\S+) \[(.*)\] (\S+)$', rest)
        if m:
            return {'ok': [int(m.group(1)), m.group(2), None if m.group(3) == 'NULL' else m.group(3),
                           None if m.group(4) == 'NULL' else m.group(4)]}
        return {'okns': rest}
    if kind == 'err':
        a, b = rest.split(' ')
        return {'err': int(b) if a == '1' else 'domain:%s:%s' % (a, b)}
    if kind == 'val':
        return {'val': None if rest == 'NULL' else rest}
    toks = rest.split(' ')
    n = int(toks[0])
    items = toks[1:] if n else []
    items = [t[1:-1] if t.startswith('[') and t.endswith(']') else t for t in items]
    return {'list': items}


def canon(results, ops):
    """canonical form shared by both sides: typelib identities renumbered by first appearance,
    unordered answers sorted"""
    ids = {}
    out = []
    for o, r in zip(ops, results):
        r = dict(r)
        if 'ok' in r:
            t = list(r['ok'])
            t[0] = ids.setdefault(t[0], len(ids))
            r['ok'] = t
        if 'list' in r and o['k'] in ('loaded', 'deps', 'versions'):
            r['list'] = sorted(r['list'])
        out.append(r)
    return out


# ------------------------------------------------------------------ the oracle, from the statement
NUMERIC = re.compile(r'^[0-9]+\.[0-9]+$')


def numver(v):
    a, b = v.split('.')
    return (int(a), int(b))


class Outside(Exception):
    """the call is outside the property's quantifier; judging of this history stops"""


class Spec(object):
    """What the statement requires, tracked call by call.  `dirs`: dirname(abs path) -> {file name:
    header dict}; non-existent directories are simply absent."""

    def __init__(self, dirs, env):
        self.dirs = dirs
        self.path = list(env or []) + [LIBDIR_ENTRY]
        self.loaded = {}            # ns -> dict(ver, path, deps, lazy, tid)
        self.taint = None           # first situation that belongs to a pending-finding class
        self.ntid = 0
        self.events = []            # coverage: lazy -> eager transitions seen

    def set_taint(self, cls):
        if self.taint is None:
            self.taint = cls

    def prepend(self, d):
        self.path.insert(0, d)

    def candidates(self, ns, search):
        """files named <ns>-<version>.typelib in the existing directories of `search`:
        [(dir index among existing dirs, dir, file name, version)]"""
        out = []
        i = 0
        for d in search:
            if d not in self.dirs:
                continue
            for fn in self.dirs[d]:
                if fn.startswith(ns + '-') and fn.endswith('.typelib'):
                    out.append((i, d, fn, fn[len(ns) + 1:-len('.typelib')]))
            i += 1
        return out

    def require(self, ns, ver, lazy, search, depth=0):
        """-> ('ok', set of acceptable (version, path)) | ('same', tid) | ('err', name or None=any)
        and applies the demanded state change.  For 'ok' the caller resolves which acceptable
        file was taken (ties inside one directory) through `commit`."""
        if ns == 'GIRepository' or '-' in ns:
            raise Outside('special-cased namespace')
        if depth > 30:
            raise Outside('dependency cycle')
        if ns in self.loaded:
            e = self.loaded[ns]
            if ver is not None and ver != e['ver']:
                return ('err', 'VersionConflict')
            if e['lazy'] and not lazy:
                # "requiring an already loaded namespace returns it"; being loaded eagerly now, its
                # recorded dependencies have to be loaded too (the caller runs `promote`)
                self.events.append('lazy->eager:require')
                return ('promote', e['tid'])
            return ('same', e['tid'])
        chosen = self.elect(ns, ver, search)
        if chosen is None:
            return ('err', 'NotFound')
        if len(chosen) > 1:
            # distinct strings of equal version in one directory: the statement allows either;
            # judged only when all of them lead to the same demanded outcome class
            kinds = set(self.file_kind(ns, c) for c in chosen)
            if len(kinds) > 1:
                raise Outside('tie between files of different kind inside one directory')
        d, fn, fver = chosen[0]
        kind = self.file_kind(ns, chosen[0])
        if kind in ('mismatch-ns', 'mismatch-ver'):
            return ('err', 'Mismatch')
        return ('pick', chosen)

    def elect(self, ns, ver, search):
        """the file(s) the statement designates: [(dir, file name, version of the file name)] or None.
        Explicit version: <ns>-<ver>.typelib of the first directory having it.  No version: highest
        numeric major.minor, earliest directory among equals (several entries = distinct strings of
        equal version inside that one directory)."""
        if ver is not None:
            fname = '%s-%s.typelib' % (ns, ver)
            for d in search:
                if d in self.dirs and fname in self.dirs[d]:
                    return [(d, fname, ver)]
            return None
        cands = self.candidates(ns, search)
        if not cands:
            return None
        if any(not NUMERIC.match(c[3]) for c in cands):
            raise Outside('a candidate file name has no numeric major.minor version')
        best = max(numver(c[3]) for c in cands)
        top = [c for c in cands if numver(c[3]) == best]
        first = min(c[0] for c in top)
        return [(c[1], c[2], c[3]) for c in top if c[0] == first]

    def promote(self, ns, depth):
        """a lazily loaded namespace becomes eagerly loaded: its recorded dependencies are loaded
        at the recorded versions; -> None or the error of a dependency"""
        e = self.loaded[ns]
        err = self.load_deps(e['hdr'], depth)
        if err is None:
            e['lazy'] = False
        return err

    def file_kind(self, ns, c):
        h = self.dirs[c[0]][c[1]]
        if h['ns'] != ns:
            return 'mismatch-ns'
        if h['ver'] != c[2]:
            return 'mismatch-ver'
        return 'good'

    def load_deps(self, hdr, depth):
        """dependencies at the recorded versions, through the global path; -> None or the error"""
        for dep in hdr['deps']:
            dn, dv = dep.rsplit('-', 1)
            r = self.require(dn, dv, False, self.path, depth + 1)
            if r[0] == 'err':
                return r
            if r[0] == 'promote':
                e = self.promote(dn, depth + 1)
                if e is not None:
                    return e
            if r[0] == 'pick':
                d, fn, _v = r[1][0]        # explicit version: a single file
                h = self.dirs[d][fn]
                e = self.load_deps(h, depth + 1)
                if e is not None:
                    return e
                self.register(dn, h, d + '/' + fn, False)
        return None

    def register(self, ns, hdr, path, lazy):
        self.loaded[ns] = {'ver': hdr['ver'], 'path': path, 'deps': list(hdr['deps']), 'lazy': lazy, 'tid': self.ntid,
                           'hdr': hdr}
        self.ntid += 1
        return self.loaded[ns]['tid']

    def closure(self, ns):
        seen = []
        todo = list(self.loaded[ns]['deps'])
        while todo:
            d = todo.pop(0)
            if d in seen:
                continue
            seen.append(d)
            dn = d.rsplit('-', 1)[0]
            if dn not in self.loaded:
                raise Outside('dependency %s of a lazily loaded namespace is not loaded' % d)
            todo.extend(self.loaded[dn]['deps'])
        return sorted(seen)


def judge_history(tree, ops, real, done, rc):
    """Evaluate the statement on the real library's answers.
    -> (verdict, detail, spec) with verdict in 'holds' | 'outside' | 'fails'."""
    dirs = {}
    for dn, files in tree.cfg['dirs'].items():
        dirs[tree.path(dn)] = {fn: tree.pool.hdr(tuple(k)) for fn, k in files.items()}
    env = None if tree.cfg['env'] is None else [tree.path(d) for d in tree.cfg['env']]
    sp = Spec(dirs, env)
    tids = {}          # spec tid -> real typelib id
    judged = 0
    try:
        for i, o in enumerate(ops):
            missing = i >= len(real)
            r = {'missing': 'the library did not answer (exit status %s)' % (rc,)} if missing else real[i]
            k = o['k']
            if k == 'prepend':
                sp.prepend(tree.path(o['dir']))
            elif k in ('require', 'require_private'):
                search = sp.path if k == 'require' else [tree.path(o['dir'])]
                want = sp.require(o['ns'], o.get('ver'), o['lazy'], search)
                if want[0] == 'pick':
                    chosen = want[1]
                    # ties inside one directory: the statement allows either file; follow the library
                    took = chosen[0]
                    if 'ok' in r:
                        for c in chosen:
                            if c[0] + '/' + c[1] == r['ok'][3]:
                                took = c
                    elif len(chosen) > 1 and not o['lazy']:
                        # the library reported an error and several files tie: legitimate if the
                        # dependencies of one of them cannot be loaded; which one was taken cannot
                        # be seen from the answer, so judging stops here
                        for c in chosen:
                            trial = copy.deepcopy(sp)
                            if trial.load_deps(trial.dirs[c[0]][c[1]], 0) is not None and 'err' in r:
                                raise Outside('tie inside one directory and the call failed in a dependency')
                    hdr = sp.dirs[took[0]][took[1]]
                    e = None if o['lazy'] else sp.load_deps(hdr, 0)
                    if e is not None:
                        if 'err' not in r:
                            return 'fails', 'call %d %r: a dependency cannot be loaded (%s) but the call returned %r' \
                                % (i, o, e[1], r), sp, judged
                    else:
                        acc = [(sp.dirs[c[0]][c[1]]['ver'], c[0] + '/' + c[1]) for c in chosen]
                        if 'ok' not in r or (r['ok'][2], r['ok'][3]) not in acc or r['ok'][1] != o['ns']:
                            return 'fails', 'call %d %r: the statement requires loading one of %r, the library answered %r' \
                                % (i, o, acc, r), sp, judged
                        tid = sp.register(o['ns'], hdr, took[0] + '/' + took[1], o['lazy'])
                        if r['ok'][0] in tids.values():
                            return 'fails', 'call %d %r: a newly loaded typelib has the identity of an earlier one' % (i, o), sp, judged
                        tids[tid] = r['ok'][0]
                elif want[0] == 'same':
                    e = sp.loaded[o['ns']]
                    live = set(x['tid'] for x in sp.loaded.values())
                    if 'ok' in r and want[1] not in tids and r['ok'][0] not in [v for t, v in tids.items() if t in live]:
                        tids[want[1]] = r['ok'][0]     # loaded as a dependency / from memory: first time it is returned
                    if 'ok' not in r or tids.get(want[1]) != r['ok'][0] or r['ok'][2] != e['ver'] or r['ok'][3] != e['path']:
                        return 'fails', 'call %d %r: already loaded (version %s, %s): the same typelib must be returned, got %r' \
                            % (i, o, e['ver'], e['path'], r), sp, judged
                elif want[0] == 'promote':
                    # lazily loaded, now required eagerly at an agreeing version: the namespace is
                    # returned — the same typelib, version and path of the file that IS loaded —
                    # and its dependencies get loaded
                    e = sp.loaded[o['ns']]
                    err = sp.promote(o['ns'], 0)
                    if err is not None:
                        if 'err' not in r:
                            return 'fails', 'call %d %r: a dependency cannot be loaded (%s) but the call returned %r' \
                                % (i, o, err[1], r), sp, judged
                    else:
                        live = set(x['tid'] for x in sp.loaded.values())
                        if 'ok' in r and want[1] not in tids and r['ok'][0] not in [v for t, v in tids.items() if t in live]:
                            tids[want[1]] = r['ok'][0]     # lazily loaded from memory: first time it is returned
                        if 'ok' not in r or tids.get(want[1]) != r['ok'][0] or r['ok'][1] != o['ns'] \
                                or r['ok'][2] != e['ver'] or r['ok'][3] != e['path']:
                            return 'fails', 'call %d %r: lazily loaded (version %s, %s) and now required eagerly: the same ' \
                                'typelib must be returned, got %r' % (i, o, e['ver'], e['path'], r), sp, judged
                else:
                    if r.get('err') is None or ERR_NAMES.get(r['err']) != want[1]:
                        return 'fails', 'call %d %r: the statement requires error %s, the library answered %r' % (i, o, want[1], r), sp, judged
            elif k == 'load':
                hdr = tree.pool.hdr(tuple(o['key']))
                ns = hdr['ns']
                if ns == 'GIRepository':
                    raise Outside('special-cased namespace')
                if ns in sp.loaded:
                    e = sp.loaded[ns]
                    if e['ver'] == hdr['ver']:
                        err = None
                        if e['lazy'] and not o['lazy']:
                            # already (lazily) loaded at this version: it stays what it is and becomes
                            # eagerly loaded
                            sp.events.append('lazy->eager:load')
                            err = sp.promote(ns, 0)
                        if err is not None:
                            if 'err' not in r:
                                return 'fails', 'call %d %r: a dependency cannot be loaded (%s) but the call returned %r' \
                                    % (i, o, err[1], r), sp, judged
                        elif r.get('okns') != ns:
                            return 'fails', 'call %d %r: already loaded at this version, must succeed; got %r' % (i, o, r), sp, judged
                    else:
                        if ERR_NAMES.get(r.get('err')) != 'VersionConflict':
                            return 'fails', 'call %d %r: %s is loaded at version %s, loading version %s must fail with a ' \
                                'version conflict; got %r' % (i, o, ns, e['ver'], hdr['ver'], r), sp, judged
                else:
                    e = None if o['lazy'] else sp.load_deps(hdr, 0)
                    if e is not None:
                        if 'err' not in r:
                            return 'fails', 'call %d %r: a dependency cannot be loaded (%s) but the call returned %r' % (i, o, e[1], r), sp, judged
                    else:
                        if r.get('okns') != ns:
                            return 'fails', 'call %d %r: must succeed; got %r' % (i, o, r), sp, judged
                        sp.register(ns, hdr, BUILTIN, o['lazy'])
            elif k == 'loaded':
                if sorted(r.get('list', ['?'])) != sorted(sp.loaded):
                    return 'fails', 'call %d: loaded namespaces reported %r, files loaded are %r' % (i, r, sorted(sp.loaded)), sp, judged
            elif k == 'search_path':
                if r.get('list') != sp.path:
                    return 'fails', 'call %d: search path reported %r, required %r' % (i, r, sp.path), sp, judged
            else:
                ns = o['ns']
                e = sp.loaded.get(ns)
                if k == 'version':
                    want = e['ver'] if e else None
                    if r.get('val', '?') != want:
                        return 'fails', 'call %d %r: reported %r, the loaded file has %r' % (i, o, r, want), sp, judged
                elif k == 'path':
                    want = e['path'] if e else None
                    if r.get('val', '?') != want:
                        return 'fails', 'call %d %r: reported %r, the file loaded is %r' % (i, o, r, want), sp, judged
                elif k == 'ideps':
                    if e is None:
                        if r != {'val': None}:
                            return 'fails', 'call %d %r: not loaded, reported %r' % (i, o, r), sp, judged
                    elif r.get('list') != e['deps']:
                        return 'fails', 'call %d %r: reported %r, the loaded file records %r' % (i, o, r, e['deps']), sp, judged
                elif k == 'deps':
                    if e is None:
                        if r != {'val': None}:
                            return 'fails', 'call %d %r: not loaded, reported %r' % (i, o, r), sp, judged
                    else:
                        want = sp.closure(ns)
                        if sorted(r.get('list', ['?'])) != want:
                            return 'fails', 'call %d %r: reported %r, the closure over the loaded files is %r' % (i, o, r, want), sp, judged
                elif k == 'is_registered':
                    want = e is not None and (o.get('ver') is None or o['ver'] == e['ver'])
                    if r.get('val') != ('true' if want else 'false'):
                        return 'fails', 'call %d %r: reported %r, required %r' % (i, o, r, want), sp, judged
                elif k == 'versions':
                    if ns == 'GIRepository':
                        raise Outside('special-cased namespace')
                    cands = sp.candidates(ns, sp.path)
                    if any(not NUMERIC.match(c[3]) for c in cands):
                        raise Outside('a candidate file name has no numeric major.minor version')
                    # the statement does not define this call beyond "available or loaded versions":
                    # every available version must be listed and nothing else but the loaded one
                    avail = set(c[3] for c in cands)
                    got = set(r.get('list', ['?']))
                    if not (avail <= got and got <= avail | ({e['ver']} if e else set())):
                        return 'fails', 'call %d %r: reported %r, available versions are %r, loaded %r' \
                            % (i, o, r, sorted(avail), e['ver'] if e else None), sp, judged
            if missing:
                return 'fails', 'call %d %r: %s' % (i, o, r['missing']), sp, judged
            judged += 1
        if not done:
            return 'fails', 'the process ended abnormally after the last call (exit status %s)' % (rc,), sp, judged
    except Outside as ex:
        return 'outside', str(ex), sp, judged
    return 'holds', '', sp, judged


# ------------------------------------------------------------------ strtol against libc
def strtol_cases(rng, n):
    base = ['', '0', '1', '10', '010', '1.10', ' 12', '\t-7x', '+5', '-', '+', '--1', '9223372036854775807',
            '9223372036854775808', '-9223372036854775809', '4294967296', '2147483648', '1e5', '0x10', ' +0012.5',
            '\x0b3', '\x0c4', '\r5', '\n6', 'abc', '.5', '1.', '12abc']
    out = list(base)
    alpha = '0123456789 +-.x\t'
    while len(out) < n:
        out.append(''.join(rng.choice(alpha) for _ in range(rng.randint(0, 8))))
    return out


def libc_strtol(s):
    libc = ctypes.CDLL(None)
    libc.strtol.restype = ctypes.c_long
    libc.strtol.argtypes = [ctypes.c_char_p, ctypes.POINTER(ctypes.c_char_p), ctypes.c_int]
    buf = ctypes.create_string_buffer(s.encode('ascii'))
    end = ctypes.c_char_p()
    v = libc.strtol(buf, ctypes.byref(end), 10)
    consumed = ctypes.cast(end, ctypes.c_void_p).value - ctypes.addressof(buf)
    return [v, s[consumed:]]


# ------------------------------------------------------------------ run
def load_corpus():
    cpath = os.path.join(VERIF, 'corpus', 'C17')
    out = []
    if os.path.isdir(cpath):
        for fn in sorted(os.listdir(cpath)):
            if fn.endswith('.json'):
                with open(os.path.join(cpath, fn)) as f:
                    for c in json.load(f):
                        c['_file'] = fn
                        out.append(c)
    return out


def build_c(ctx):
    """-> (compiler, history driver) built from REPO's current tree; None entries when the part
    cannot be built (recorded in ctx.broken)"""
    b = cbuild.CBuild(os.path.join(ctx.scratch, 'cbuild'))
    try:
        b.compile_all()
    except cbuild.CBuildError as e:
        ctx.broken.append('the C code of the tree under test no longer compiles: %s' % str(e)[:600])
        return None, None
    comp = drv = None
    try:
        comp = b.compiler()
    except cbuild.CBuildError as e:
        ctx.broken.append('g-ir-compiler does not link: %s' % str(e)[:600])
    try:
        drv = b.cdriver('c17_history')
    except cbuild.CBuildError as e:
        ctx.broken.append('cdrivers/c17_history.c (public API only) no longer builds against the tree under test: %s'
                          % str(e)[:600])
    return comp, drv


def process(ctx, cnt, exe, tree, ops, tag, origin, samples, pending_model, stats, pre=None):
    real, done, rc = pre if pre is not None else run_real(exe, tree, ops, ctx.scratch, tag)
    verdict, detail, sp, judged = judge_history(tree, ops, real, done, rc)
    nontrivial = any(o['k'] in ('require', 'require_private', 'load') for o in ops)
    cnt.case([tree.cfg, ops], nontrivial=nontrivial)
    cnt.hit('history:%s' % verdict)
    if verdict == 'outside':
        cnt.hit('outside:' + re.sub(r' [A-Za-z0-9_]+-[0-9.]+ ', ' <dep> ', detail))
    cnt.hit('history:len=%d' % min(len(ops), 16))
    cnt.hit('dirs=%d' % len(tree.cfg['dirs']))
    cnt.hit('env:%s' % ('set' if tree.cfg['env'] is not None else 'unset'))
    stats['calls'] += len(ops)
    stats['judged_calls'] += judged
    for o, r in zip(ops, real):
        if o['k'] in ('require', 'require_private', 'load'):
            kind = 'ok' if ('ok' in r or 'okns' in r) else 'err:%s' % ERR_NAMES.get(r.get('err'), r.get('err'))
            cnt.hit('%s%s%s:%s' % (o['k'], '' if o.get('ver') is None and o['k'] != 'load' else ':v',
                                   ':lazy' if o.get('lazy') else '', kind))
    if sp.taint:
        cnt.hit('taint:' + sp.taint.split(':', 1)[1])
    for ev in sp.events:
        cnt.hit(ev)
    replay = {'kind': 'history', 'universe': tree.pool.uni_json, 'config': tree.cfg, 'ops': ops,
              'real': real, 'completed': done, 'exit': rc, 'origin': origin}
    if verdict == 'fails':
        if sp.taint:
            report(ctx, sp.taint, detail, replay)
        else:
            key = 'history:' + json.dumps([tree.pool.uni_json, tree.cfg, ops], sort_keys=True)
            report(ctx, key, detail, replay)
    if len(samples) < 3 and nontrivial and verdict == 'holds':
        samples.append({'config': tree.cfg, 'ops': ops, 'real': real})
    pending_model.append((tree, ops, real, done, rc, model_request(tree, ops, stats['fuel']), origin))


def uni_to_json(uni):
    return [[list(k), [list(d) for d in v]] for k, v in sorted(uni.items())]


def uni_from_json(j):
    return {tuple(k): [tuple(d) for d in v] for k, v in j}


def compare_with_model(ctx, cnt, pending):
    """run every history through the Lean model and diff with the real answers"""
    if not pending:
        return 0
    try:
        answers = ctx.driver.batch([p[5] for p in pending])
    except Exception as e:  # the driver itself is part of what can break under a changed tree
        ctx.broken.append('model driver failed: %r' % (e,))
        return 0
    ndiff = 0
    for (tree, ops, real, done, rc, _req, origin), model in zip(pending, answers):
        # the model stops after a call that aborts the process (g_assert failure / NULL dereference)
        m_abort = bool(model) and isinstance(model[-1].get('err'), str)
        mm = canon(model, ops)
        rr = canon(real, ops)
        if m_abort:
            # the real process must have died at exactly that call ("fuel" is a model artefact and
            # never agrees)
            cnt.hit('model:%s' % model[-1]['err'])
            ok = model[-1]['err'] != 'fuel' and mm[:-1] == rr and len(real) == len(model) - 1 and not done
        else:
            ok = mm == rr and len(real) == len(ops) and done
        if not ok:
            ndiff += 1
            if ndiff <= 3:
                first = next((i for i, (a, b) in enumerate(zip(mm, rr)) if a != b), min(len(mm), len(rr)))
                ctx.broken.append('correspondence c17.history differs at call %d (%s): model=%r real=%r ops=%r config=%r exit=%r'
                                  % (first, origin, mm[first:first + 1], rr[first:first + 1], ops[:first + 1], tree.cfg, rc))
    return ndiff


def run(ctx):
    cnt = Counter()
    ctx.prove(['gen_repo'], ['GIVerif.Props.C17'], 'GIVerif.Props.C17')
    rng = ctx.rng
    samples = []
    stats = {'calls': 0, 'judged_calls': 0, 'fuel': 12}

    # ---- strtol / parse_version against the C library
    scases = strtol_cases(rng, ctx.n(400, 5000))
    try:
        model = ctx.driver.batch([{'op': 'c17.strtol', 's': s} for s in scases])
        nd = 0
        for s, m in zip(scases, model):
            cnt.hit('strtol')
            if libc_strtol(s) != m:
                nd += 1
                if nd <= 3:
                    ctx.broken.append('correspondence c17.strtol differs: s=%r libc=%r model=%r' % (s, libc_strtol(s), m))
    except Exception as e:
        ctx.broken.append('model driver failed on c17.strtol: %r' % (e,))

    comp, exe = build_c(ctx)
    if comp is None or exe is None:
        ctx.coverage.update({'evaluations': len(scases), 'distinct_nontrivial': 0,
                             'rule': 'the C side could not be built; only strtol cases ran', 'samples': scases[:3]})
        return
    ctx.log('C build done')

    # ---- pools: universe 0 (fixed, used by the corpus) + seeded universes
    pools = []
    nuni = ctx.n(3, 16)
    for u in range(nuni + 1):
        uni = U0 if u == 0 else gen_universe(rng)
        pool = Pool(os.path.join(ctx.scratch, 'pool%d' % u), uni, comp)
        pool.uni_json = uni_to_json(uni)
        if pool.errors:
            # the real compiler refused a GIR the generator considers valid: report, keep the rest
            ctx.broken.append('g-ir-compiler failed on generated GIRs: %s' % pool.errors[:2])
        pools.append(pool)
    ctx.log('typelib pools built: %d universes, %d typelibs' % (len(pools), sum(len(p.files) for p in pools)))
    stats['fuel'] = max(len(p.namespaces()) for p in pools) + 2

    pending = []
    tag = [0]
    ndiff_total = [0]

    def one(tree, ops, origin):
        tag[0] += 1
        process(ctx, cnt, exe, tree, ops, tag[0], origin, samples, pending, stats)

    # ---- corpus first
    corpus = load_corpus()
    trees = []
    for ci, c in enumerate(corpus):
        cfg = {'dirs': {d: {fn: tuple(k) for fn, k in files.items()} for d, files in c['config']['dirs'].items()},
               'env': c['config'].get('env'), 'specials': 0}
        if any(tuple(k) not in pools[0].files for files in cfg['dirs'].values() for k in files.values()):
            ctx.broken.append('corpus case %s refers to a typelib that could not be built' % c.get('name'))
            continue
        tree = Tree(os.path.join(ctx.scratch, 'corpus%d' % ci), pools[0], cfg)
        trees.append(tree)
        one(tree, c['ops'], 'corpus:%s:%s' % (c['_file'], c.get('name')))
        cnt.hit('corpus')

    # ---- seeded configurations × histories
    nconf = ctx.n(60, 1400)
    per = ctx.n(5, 5)
    executor = concurrent.futures.ThreadPoolExecutor(max_workers=5)
    for ci in range(nconf):
        if ctx.tier == 'thorough' and (ci % 200 == 0):
            ctx.log('configuration %d/%d' % (ci, nconf))
        pool = pools[rng.randrange(len(pools))]
        if not pool.files:
            continue
        cfg = gen_config(rng, pool)
        tree = Tree(os.path.join(ctx.scratch, 'cfg%d' % ci), pool, cfg)
        lazy_p = rng.choice([0.0, 0.0, 0.05, 0.15, 0.4])
        hists = [gen_history(rng, pool, cfg, lazy_p) for _h in range(per)]
        base = tag[0]
        tag[0] += len(hists)
        pres = list(executor.map(lambda a: run_real(exe, tree, a[1], ctx.scratch, base + 1 + a[0]), enumerate(hists)))
        for ops, pre in zip(hists, pres):
            process(ctx, cnt, exe, tree, ops, 0, 'seeded', samples, pending, stats, pre=pre)
        trees.append(tree)
        if len(pending) >= 500:
            ndiff_total[0] += compare_with_model(ctx, cnt, pending)
            del pending[:]
            for t in trees:
                t.remove()
            del trees[:]
    ndiff = ndiff_total[0] + compare_with_model(ctx, cnt, pending)
    executor.shutdown()
    for t in trees:
        t.remove()

    total = cnt.counts.get('history:holds', 0) + cnt.counts.get('history:outside', 0) + cnt.counts.get('history:fails', 0)
    ctx.coverage.update({
        'evaluations': total + len(scases),
        'distinct_nontrivial': cnt.n_distinct(),
        'rule': 'histories of 1-17 calls (prepend, require with/without version, require_private, load-from-memory, '
                'queries; optional LAZY flag) over scratch trees of 1-5 directories filled with typelibs compiled by the '
                "tree's own g-ir-compiler from generated GIRs (versions from {1.0,1.9,1.10,1.010,2.0,10.1,0.9}, random "
                'dependency DAG, renamed copies for header/file-name mismatches, odd file names), GI_TYPELIB_PATH set or '
                'unset. Each history: fresh c17_history process (real library, public API) vs the Lean model, and the '
                'statement oracle on the real answers. non-trivial = contains at least one require/load call; distinct by '
                'hash of (configuration, history).',
        'samples': samples or [{'note': 'no fully judged history in this run'}],
        'distribution': cnt.counts,
        'calls': stats['calls'],
        'calls_judged_by_oracle': stats['judged_calls'],
        'corpus_cases': len(corpus),
        'universes': len(pools),
        'typelibs_compiled': sum(len(p.files) for p in pools),
        'correspondence_disagreements': ndiff,
        'exhaustive': False,
    })
    ctx.assumptions.extend([
        'namespace names are identifier-like (no "-"): a "-" in a name confuses enumerate_namespace_versions (information)',
        'dependency graphs between namespaces are acyclic (the C code recurses without bound on a cycle)',
        'every *.typelib file on the search path is a valid typelib (g_typelib_new_from_mapped_file succeeds)',
        'search-path entries are absolute directory names without trailing separator; GI_TYPELIB_PATH has no empty component',
        'g_dir_read_name order = readdir order observed by the harness (os.listdir) and handed to the model; it only '
        'matters between distinct version strings of equal value inside one directory (1.10 vs 1.010)',
        'the namespace GIRepository is special-cased by the library (only version 2.0 is ever considered): compared with '
        'the model, not judged by the oracle',
        'g_slist_sort is stable (the model sorts with a stable insertion sort); strtol as modelled is compared with libc',
    ])


def replay(ctx, rep):
    r = rep['replay']
    if r.get('kind') != 'history':
        return 2
    comp, exe = build_c(ctx)
    if comp is None or exe is None:
        print('cannot build the C side: %s' % ctx.broken)
        return 2
    uni = uni_from_json(r['universe'])
    pool = Pool(os.path.join(ctx.scratch, 'pool'), uni, comp)
    pool.uni_json = r['universe']
    cfg = r['config']
    cfg = {'dirs': {d: {fn: tuple(k) for fn, k in files.items()} for d, files in cfg['dirs'].items()},
           'env': cfg.get('env'), 'specials': 0}
    tree = Tree(os.path.join(ctx.scratch, 'tree'), pool, cfg)
    real, done, rc = run_real(exe, tree, r['ops'], ctx.scratch, 'replay')
    verdict, detail, sp, judged = judge_history(tree, r['ops'], real, done, rc)
    print(history_text(tree, r['ops']))
    for i, x in enumerate(real):
        print(i, x)
    print('completed=%s exit=%s verdict=%s taint=%s %s' % (done, rc, verdict, sp.taint, detail))
    return 1 if verdict == 'fails' else 0
