#!/usr/bin/env python3
"""C18 regression: stand-alone replays of the five repaired findings (F1-F5) on REAL file systems.

usage:  GIVERIF_REPO=<tree> /venv/bin/python c18_replays.py [F0 F1 F2 F3 F4 F5 M1 M2 R1]
(run by harness/c18.py in every tier; each line of output is  <tag> ok|VIOLATED|skipped <key> / details)

Only the giscanner code of <tree> is run (Transformer._parse_include / CacheStore.store / load and the
standard library's shutil.move).  Nothing of /verif's scheduler is used: the schedule is forced with three
small hooks (GIRParser.parse returning, pickle.dump returning, shutil's copy loop / copystat being entered),
the cache directory is on the disk (/var/tmp) and, for F3/F4, TMPDIR is on tmpfs (/dev/shm), a different
device, so that a rename from TMPDIR into the cache directory really fails with EXDEV.

  F0 sanity: an unchanged .gir is parsed once, the second scanner is served from the cache
  F1 the .gir is regenerated after it was read and before its parse is stored (fae7ad8)
  F2 the .gir is regenerated within the timestamp granule in which the entry is written (fae7ad8)
  F3 TMPDIR on another device: a loader discards the half-copied entry, the store must not raise (c939313)
  F4 TMPDIR on another device: the entry must not be visible with a fresh mtime before it is stamped (c939313)
  F5 the .gir is replaced by a file carrying an mtime older than the entry (fae7ad8)
  M1 (only when asked for) two different files named by '../Dep-1.0.gir' and 'Dep-1.0.gir' carry one mtime: each
     scanner must see the file it names (no finding of the unchanged tree; guards the entry-name function)
  M2 (only when asked for) one relative path, two working directories, two files with one mtime (382125e)
  R1 (only when asked for) the recorded finding: a new version carrying the SAME mtime as the version just read

exit 0: no finding reproduces;  1: at least one does.
"""
import inspect
import os
import shutil
import sys
import tempfile
import time

REPO = os.environ.get('GIVERIF_REPO', '/repo')
sys.path.insert(0, os.path.dirname(os.path.abspath(__file__)))
sys.path.insert(0, REPO)
os.environ['GIVERIF_REPO'] = REPO

import scanpipe  # noqa: E402

M = scanpipe.mods()
os.environ.pop('GI_SCANNER_DISABLE_CACHE', None)
from giscanner import cachestore  # noqa: E402

assert os.path.abspath(cachestore.__file__).startswith(os.path.abspath(REPO) + os.sep), cachestore.__file__

GIR = '''<?xml version="1.0"?>
<repository version="1.2"
            xmlns="http://www.gtk.org/introspection/core/1.0"
            xmlns:c="http://www.gtk.org/introspection/c/1.0"
            xmlns:glib="http://www.gtk.org/introspection/glib/1.0">
  <namespace name="Dep" version="1.0" c:identifier-prefixes="Dep" c:symbol-prefixes="dep">
    <record name="%(rec)s" c:type="Dep%(rec)s">
      <field name="x" writable="1"><type name="gint" c:type="gint"/></field>
    </record>
    <alias name="%(alias)s" c:type="Dep%(alias)s"><type name="gint" c:type="gint"/></alias>
  </namespace>
</repository>
'''
V1 = GIR % dict(rec='OldRecord', alias='OldAlias')
V2 = GIR % dict(rec='NewRecord', alias='NewAlias')
OLD, NEW = ['OldAlias', 'OldRecord'], ['NewAlias', 'NewRecord']


def names(parser):
    return sorted(parser.get_namespace().names)


def parse(path):
    p = M.girparser.GIRParser(types_only=True)
    p.parse(path)
    return p


def write(path, text):
    with open(path, 'w') as f:
        f.write(text)


def write_newer_than(path, text, mtime):
    """rewrite `path` until its mtime is strictly greater than `mtime`"""
    while True:
        write(path, text)
        if os.stat(path).st_mtime > mtime:
            return
        time.sleep(0.005)


def wait_clock_after(dirname, mtime):
    """wait until a file written now in `dirname` gets an mtime strictly greater than `mtime`"""
    probe = os.path.join(dirname, 'probe')
    while True:
        write(probe, 'x')
        if os.stat(probe).st_mtime > mtime:
            os.unlink(probe)
            return
        time.sleep(0.005)


def call_store(cs, src, data, mtime_before):
    """CacheStore.store(filename, data) or, once it takes the source's mtime observed before parsing, with it
    (mtime_before: the os.stat result of the source taken before it was parsed)"""
    params = list(inspect.signature(cs.store).parameters)
    if len(params) >= 3:
        return cs.store(src, data, mtime_before.st_mtime_ns if params[2].endswith('_ns') else mtime_before.st_mtime)
    return cs.store(src, data)


class Skip(Exception):
    pass


class Env(object):
    def __init__(self, xdev):
        self.root = tempfile.mkdtemp(prefix='c18-replay-', dir='/var/tmp')
        self.cache_home = os.path.join(self.root, 'cache')
        self.src = os.path.join(self.root, 'Dep-1.0.gir')
        os.environ['XDG_CACHE_HOME'] = self.cache_home
        self.saved_tmp = tempfile.tempdir
        self.shm = None
        if xdev:
            if not os.path.isdir('/dev/shm') or os.stat('/dev/shm').st_dev == os.stat(self.root).st_dev:
                shutil.rmtree(self.root, ignore_errors=True)
                raise Skip('no second file system (/dev/shm) to put TMPDIR on')
            self.shm = tempfile.mkdtemp(prefix='c18-replay-', dir='/dev/shm')
            tempfile.tempdir = self.shm
        else:
            tempfile.tempdir = self.root

    def close(self):
        tempfile.tempdir = self.saved_tmp
        shutil.rmtree(self.root, ignore_errors=True)
        if self.shm:
            shutil.rmtree(self.shm, ignore_errors=True)

    def transformer_load(self):
        t = M.transformer.Transformer(M.ast.Namespace('Main', '1.0'))
        assert t._cachestore is not None
        return names(t._parse_include(self.src))


# ----------------------------------------------------------------------------------------------------
def f1_stamp():
    """parse v1; the source becomes v2 (while the parse is being stored); a later scanner loads"""
    e = Env(False)
    real_parse = M.girparser.GIRParser.parse
    try:
        write(e.src, V1)
        fired = []

        def parse_then_modify(self, filename):
            r = real_parse(self, filename)
            if not fired and filename == e.src:
                fired.append(1)
                # the dependency GIR is regenerated after it was read and before the parse is stored
                write_newer_than(e.src, V2, os.stat(e.src).st_mtime)
                wait_clock_after(e.root, os.stat(e.src).st_mtime)
            return r
        M.girparser.GIRParser.parse = parse_then_modify
        first = e.transformer_load()
        M.girparser.GIRParser.parse = real_parse
        assert first == OLD and fired
        got = e.transformer_load()
        return got == OLD, 'scanner 2 sees %s, Dep-1.0.gir holds %s' % (got, names(parse(e.src)))
    finally:
        M.girparser.GIRParser.parse = real_parse
        e.close()


def f2_equal():
    """store v1; the source is rewritten with the SAME timestamp as the entry; a later scanner loads"""
    e = Env(False)
    try:
        natural = False
        how = 'timestamps made equal with os.utime (what a coarse-granularity file system does)'
        for attempt in range(400):
            write(e.src, V1)
            cs = cachestore.CacheStore()
            entry = cs._get_filename(e.src)
            if os.path.exists(entry):
                os.unlink(entry)
            wait_clock_after(e.root, os.stat(e.src).st_mtime)
            v1_mtime_ns = os.stat(e.src).st_mtime_ns
            assert e.transformer_load() == OLD          # miss, parse, store
            write(e.src, V2)                            # modified right after the store
            if os.stat(entry).st_mtime == os.stat(e.src).st_mtime:
                natural = True
                how = 'equal timestamps arose naturally on this file system (attempt %d)' % (attempt + 1)
                break
        if not natural:
            # give the rewritten source the timestamp of the moment the entry was written: the entry's mtime, or
            # (when store() has set that to something else, the mtime of the source it parsed) the entry's ctime
            st = os.stat(entry)
            w = st.st_mtime_ns if st.st_mtime_ns != v1_mtime_ns else st.st_ctime_ns
            os.utime(e.src, ns=(w, w))
        got = e.transformer_load()
        return got == OLD, 'scanner 2 sees %s, Dep-1.0.gir holds %s; %s' % (got, names(parse(e.src)), how)
    finally:
        e.close()


def f3_xdev_raise():
    """TMPDIR on another device; a loader reads the half-copied entry, discards it; the store goes on"""
    e = Env(True)
    real_copyfileobj, real_flag = shutil.copyfileobj, getattr(shutil, '_USE_CP_SENDFILE', None)
    try:
        write(e.src, V1)
        cs = cachestore.CacheStore()
        entry = cs._get_filename(e.src)
        m0 = os.stat(e.src)
        data = parse(e.src)
        seen = {}

        def copy_with_a_loader_in_the_middle(fsrc, fdst, length=0):
            b = fsrc.read()
            fdst.write(b[:len(b) // 2])
            fdst.flush()
            if fdst.name == entry and 'load' not in seen:
                # another scanner loads now: the entry is a truncated pickle
                seen['load'] = cachestore.CacheStore().load(e.src)
                seen['entry_after_load'] = os.path.exists(entry)
            fdst.write(b[len(b) // 2:])
        shutil._USE_CP_SENDFILE = False
        shutil.copyfileobj = copy_with_a_loader_in_the_middle
        try:
            call_store(cs, e.src, data, m0)
            exc = None
        except Exception as x:      # noqa
            exc = x
        copied = 'load' in seen
        return exc is not None, 'store raised %r (publish went through a copy: %s; concurrent load returned %r)' % (
            exc, copied, seen.get('load'))
    finally:
        shutil.copyfileobj = real_copyfileobj
        if real_flag is not None:
            shutil._USE_CP_SENDFILE = real_flag
        e.close()


def f4_xdev_stale():
    """TMPDIR on another device; temp file of parse(v1) written, source becomes v2, publish = copy;
    a loader arrives between the copy and copystat (and one more after the store has finished)"""
    e = Env(True)
    real_copystat = shutil.copystat
    real_pickle = cachestore.pickle
    try:
        write(e.src, V1)
        cs = cachestore.CacheStore()
        entry = cs._get_filename(e.src)
        m0 = os.stat(e.src)
        data = parse(e.src)
        seen = {}

        class P(object):
            def __getattr__(self, n):
                return getattr(real_pickle, n)

            def dump(self, obj, f, *a, **k):
                r = real_pickle.dump(obj, f, *a, **k)
                f.flush()
                # the temp file is complete (its mtime is final); now the dependency GIR is regenerated
                write_newer_than(e.src, V2, os.fstat(f.fileno()).st_mtime)
                wait_clock_after(e.root, os.stat(e.src).st_mtime)
                seen['tmp_mtime'] = os.fstat(f.fileno()).st_mtime
                return r

        def copystat_after_a_loader(src, dst, **k):
            if dst == entry and 'entered' not in seen:
                seen['entered'] = True          # (the loader below may store, and so come back here)
                seen['entry_mtime_in_window'] = os.stat(entry).st_mtime
                seen['window'] = e.transformer_load()
            return real_copystat(src, dst, **k)
        cachestore.pickle = P()
        shutil.copystat = copystat_after_a_loader
        call_store(cs, e.src, data, m0)
        cachestore.pickle = real_pickle
        shutil.copystat = real_copystat
        after = e.transformer_load()
        src_m = os.stat(e.src).st_mtime
        bad = seen.get('window') == OLD or after == OLD
        return bad, ('loader between copy and copystat sees %s (entry mtime then %s, temp file %s, source %s); '
                     'loader after the store sees %s; Dep-1.0.gir holds %s'
                     % (seen.get('window', 'n/a: no copy happened'), seen.get('entry_mtime_in_window'),
                        seen.get('tmp_mtime'), src_m, after, names(parse(e.src))))
    finally:
        cachestore.pickle = real_pickle
        shutil.copystat = real_copystat
        e.close()


def f0_effective():
    """sanity, not a finding: an unchanged .gir is parsed once, the second scanner is served from the cache"""
    e = Env(False)
    real_parse = M.girparser.GIRParser.parse
    try:
        write(e.src, V1)
        old = time.time() - 60
        os.utime(e.src, (old, old))
        parsed = []

        def counting_parse(self, filename):
            parsed.append(filename)
            return real_parse(self, filename)
        M.girparser.GIRParser.parse = counting_parse
        a = e.transformer_load()
        b = e.transformer_load()
        return not (a == b == OLD and len(parsed) == 1), 'Dep-1.0.gir parsed %d time(s) by two scanners' % len(parsed)
    finally:
        M.girparser.GIRParser.parse = real_parse
        e.close()


def f5_older_mtime():
    """scan (entry written now); the .gir is then replaced by a file that was built an hour ago and is installed
    with its times preserved (install -p / cp -p / meson install / a distribution package); scan again"""
    e = Env(False)
    try:
        write(e.src, V1)
        old = time.time() - 7200
        os.utime(e.src, (old, old))                     # Dep-1.0.gir as installed two hours ago
        assert e.transformer_load() == OLD              # miss, parse, store
        built = os.path.join(e.root, 'build-Dep-1.0.gir')
        write(built, V2)
        t = time.time() - 3600                          # built an hour ago, i.e. before the scan above
        os.utime(built, (t, t))
        staged = e.src + '.new'
        shutil.copy2(built, staged)                     # what `install -p` / meson install do: copy + copystat
        os.replace(staged, e.src)
        entry = cachestore.CacheStore()._get_filename(e.src)
        got = e.transformer_load()
        return got == OLD, ('scanner 2 sees %s, Dep-1.0.gir holds %s (its mtime %.0f s older than the entry)'
                            % (got, names(parse(e.src)),
                               os.stat(entry).st_mtime - os.stat(e.src).st_mtime if os.path.exists(entry) else -1))
    finally:
        e.close()


def r1_same_mtime():
    """NOT repaired (the recorded finding; expected to reproduce): the .gir is regenerated after it was stat'ed and
    read, and the new file carries exactly the mtime of the old one (same timestamp granule, or installed with
    that mtime); the parse of the old contents is stored under "the mtime the source has now" """
    e = Env(False)
    real_parse = M.girparser.GIRParser.parse
    try:
        write(e.src, V1)
        old = time.time() - 60
        os.utime(e.src, (old, old))
        st1 = os.stat(e.src)
        fired = []

        def parse_then_modify(self, filename):
            r = real_parse(self, filename)
            if not fired and filename == e.src:
                fired.append(1)
                write(e.src, V2)
                os.utime(e.src, ns=(st1.st_atime_ns, st1.st_mtime_ns))
            return r
        M.girparser.GIRParser.parse = parse_then_modify
        first = e.transformer_load()
        M.girparser.GIRParser.parse = real_parse
        assert first == OLD and fired
        got = e.transformer_load()
        return got == OLD, 'scanner 2 sees %s, Dep-1.0.gir holds %s' % (got, names(parse(e.src)))
    finally:
        M.girparser.GIRParser.parse = real_parse
        e.close()


def m1_other_file():
    """two DIFFERENT dependency GIRs, both called Dep-1.0.gir, both carrying the same mtime (install -p, tar,
    SOURCE_DATE_EPOCH), named by relative paths that differ only in leading '.' and '/' characters: a scanner run
    in <root>/sub includes '../Dep-1.0.gir', later scanners there include 'Dep-1.0.gir' and './Dep-1.0.gir'
    (--include-uninstalled hands the spelling to Transformer._parse_include unchanged).  Each must see the
    contents of the file it names."""
    e = Env(False)
    cwd = os.getcwd()
    try:
        sub = os.path.join(e.root, 'sub')
        os.makedirs(sub)
        write(os.path.join(e.root, 'Dep-1.0.gir'), V1)      # ../Dep-1.0.gir
        write(os.path.join(sub, 'Dep-1.0.gir'), V2)         # Dep-1.0.gir, ./Dep-1.0.gir
        old = int(time.time()) - 3600
        for f in (os.path.join(e.root, 'Dep-1.0.gir'), os.path.join(sub, 'Dep-1.0.gir')):
            os.utime(f, (old, old))
        os.chdir(sub)
        seen = []
        for spelling, want in (('../Dep-1.0.gir', OLD), ('Dep-1.0.gir', NEW), ('./Dep-1.0.gir', NEW),
                               ('../Dep-1.0.gir', OLD), (os.path.join(sub, 'Dep-1.0.gir'), NEW),
                               (os.path.join(sub, 'Dep-1.0.gir')[1:], None)):
            if want is None:
                # the relative spelling that equals the absolute one without its leading '/': a third file
                os.makedirs(os.path.dirname(spelling))
                write(spelling, GIR % dict(rec='ThirdRecord', alias='ThirdAlias'))
                os.utime(spelling, (old, old))
                want = ['ThirdAlias', 'ThirdRecord']
            t = M.transformer.Transformer(M.ast.Namespace('Main', '1.0'))
            assert t._cachestore is not None
            got = names(t._parse_include(spelling))
            seen.append((spelling if not spelling.startswith('/') else '<abs>/sub/Dep-1.0.gir', got, got == want))
        bad = [x for x in seen if not x[2]]
        return bool(bad), ('scanners in <root>/sub, all files carry one mtime: ' +
                           '; '.join('%s -> %s%s' % (sp if len(sp) < 40 else '<abs without its leading />/sub/Dep-1.0.gir',
                                                     got, '' if ok else ' (NOT the contents of that file)')
                                     for sp, got, ok in seen))
    finally:
        os.chdir(cwd)
        e.close()


def m2_two_directories():
    """two projects, each with its own Dep-1.0.gir (different contents, one mtime); a scanner run in project A
    includes the relative path 'Dep-1.0.gir', then a scanner run in project B includes 'Dep-1.0.gir': the same
    spelling, another file.  Each must see the contents of the file the path names in ITS working directory
    (repaired by 382125e: the entry is keyed on the absolute path)."""
    e = Env(False)
    cwd = os.getcwd()
    try:
        old = int(time.time()) - 3600
        for d, text in (('projA', V1), ('projB', V2)):
            os.makedirs(os.path.join(e.root, d))
            write(os.path.join(e.root, d, 'Dep-1.0.gir'), text)
            os.utime(os.path.join(e.root, d, 'Dep-1.0.gir'), (old, old))
        seen = []
        for d, spelling, want in (('projA', 'Dep-1.0.gir', OLD), ('projB', 'Dep-1.0.gir', NEW),
                                  ('projA', './Dep-1.0.gir', OLD), ('projB', '../projA/Dep-1.0.gir', OLD),
                                  ('projA', '../projB/Dep-1.0.gir', NEW)):
            os.chdir(os.path.join(e.root, d))
            t = M.transformer.Transformer(M.ast.Namespace('Main', '1.0'))
            assert t._cachestore is not None
            got = names(t._parse_include(spelling))
            seen.append((d, spelling, got, got == want))
        bad = [x for x in seen if not x[3]]
        return bool(bad), ('both files carry one mtime: ' +
                           '; '.join('in %s: %s -> %s%s' % (d, sp, got, '' if ok else ' (NOT the contents of that file)')
                                     for d, sp, got, ok in seen))
    finally:
        os.chdir(cwd)
        e.close()


ALL = [('F0', 'sanity:an-unchanged-file-is-served-from-the-cache', f0_effective),
       ('F1', 'repaired:parse-read-before-modification-stamped-at-store-time', f1_stamp),
       ('F2', 'repaired:source-modified-within-the-timestamp-of-the-entry', f2_equal),
       ('F3', 'repaired:cross-device-copystat-after-entry-unlinked', f3_xdev_raise),
       ('F4', 'repaired:cross-device-entry-visible-before-copystat', f4_xdev_stale),
       ('F5', 'repaired:source-replaced-by-a-file-carrying-an-older-mtime', f5_older_mtime),
       ('M1', 'multi-source:entry-of-another-file-with-the-same-mtime', m1_other_file),
       ('M2', 'repaired:one-relative-path-from-two-working-directories', m2_two_directories),
       ('R1', 'C18_fresh:two-source-versions-with-one-mtime-and-a-read-in-between', r1_same_mtime)]
DEFAULT = ['F0', 'F1', 'F2', 'F3', 'F4', 'F5']


def main():
    want = sys.argv[1:] or DEFAULT
    sys.argv[0] = os.path.abspath(sys.argv[0])      # an input of the cache version hash; M1 changes directory
    rc = 0
    print('tree: %s' % REPO)
    for tag, key, fn in ALL:
        if tag not in want:
            continue
        try:
            bad, what = fn()
        except Skip as e:
            print('%s %-9s %s\n     %s' % (tag, 'skipped', key, e))
            continue
        print('%s %-9s %s\n     %s' % (tag, 'VIOLATED' if bad else 'ok', key, what))
        if bad:
            rc = 1
    return rc


if __name__ == '__main__':
    sys.exit(main())
