"""C14 — Every typelib entry can be found by name, GType name and error domain.

Proof: lean/GIVerif/Props/C14.lean over the model lean/GIVerif/Model/Lookup.lean (the perfect
hash is a parameter of the model).
Tie: (1) translators gen_lookup (+ gen_typelib_layout) re-read the blob-type sets, widths and
alignments from /repo's C sources; (2) real typelibs are compiled by the real g-ir-compiler
(built this run from /repo with cbuild) from generated name sets, cdrivers/c14_lookup.c runs
/repo's real lookup functions on every member and on a stream of absent probes through the
index path, the linear path (directory index blanked in a private copy) and the repository
API; the Lean model is run on the same directory with the ACTUAL perfect-hash values printed
by the driver, and the results are diffed; (3) an oracle written from the property statement
is evaluated on the REAL results for every probe — that is the failing-input search;
(4) HISTORIES: the repository-level lookups are a state machine with three caches (info_by_gtype,
info_by_error_domain, unknown_gtypes; Props: C14_history).  Small worlds of namespaces (with
dependencies, shared GType names / error domains) are compiled and cdrivers/c14_history.c runs
generated interleavings of find_by_gtype / find_by_error_domain / find_by_name probes (members and
non-members, before and after loads) with g_irepository_load_typelib / g_irepository_require
(flags 0 and G_IREPOSITORY_LOAD_FLAG_LAZY, lazy -> loaded transitions) in ONE process per history.
Statement oracle at every step: the repository-level answer agrees with the typelib-level lookups
(g_typelib_get_dir_entry_by_*) of the typelibs loaded AT THAT MOMENT; the Lean state machine
(c14.history) is run on the same history and compared.  A failing history is shrunk.
"""
import concurrent.futures
import json
import os
import random
import re
import shutil
import subprocess
import time

from core import REPO, VERIF, Counter, HarnessError
import cbuild

NAMECH = 'abcdefghijklmnopqrstuvwxyzABCDEFGHIJKLMNOPQRSTUVWXYZ0123456789_-'
MAX_NAME = 2040          # validate_name: the name and its NUL must fit in MAX_NAME_LEN (2048)

# blob types (cross-checked against the header by gen_lookup / C14_tables)
BT_FUNCTION, BT_CALLBACK, BT_STRUCT, BT_BOXED, BT_ENUM, BT_FLAGS, BT_OBJECT, BT_INTERFACE, BT_CONSTANT, BT_UNION = \
    1, 2, 3, 4, 5, 6, 7, 8, 9, 11
KIND_BT = {'constant': BT_CONSTANT, 'function': BT_FUNCTION, 'callback': BT_CALLBACK, 'record': BT_STRUCT,
           'boxed': BT_BOXED, 'union': BT_UNION, 'enum': BT_ENUM, 'flags': BT_FLAGS, 'class': BT_OBJECT,
           'interface': BT_INTERFACE}
GTYPE_KINDS = ('record', 'boxed', 'union', 'enum', 'flags', 'class', 'interface')

# Genuine defects of the unchanged tree found by this check and not repaired yet (none: the
# <glib:boxed> finding was repaired by /repo 969dad1).
PENDING_FINDINGS = []

GIR_HEAD = ('<?xml version="1.0"?>\n<repository version="1.2" xmlns="http://www.gtk.org/introspection/core/1.0" '
            'xmlns:c="http://www.gtk.org/introspection/c/1.0" xmlns:glib="http://www.gtk.org/introspection/glib/1.0">\n')

DEP_ENTRIES = [
    {'k': 'class', 'name': 'Base', 'gtype': 'DepBase'},
    {'k': 'record', 'name': 'Thing', 'gtype': 'DepThing'},
    {'k': 'enum', 'name': 'Oops', 'gtype': None, 'domain': 'dep-oops-quark'},
    {'k': 'constant', 'name': 'K0'},
    {'k': 'constant', 'name': 'OnlyInDep'},
]


# ---------------------------------------------------------------- GIR rendering
def xml_attr(s):
    return s.replace('&', '&amp;').replace('<', '&lt;').replace('>', '&gt;').replace('"', '&quot;')


def render_entry(e, i, dep):
    k = e['k']
    nm = xml_attr(e['name'])
    reg = ''
    if e.get('gtype') is not None:
        reg = ' glib:type-name="%s" glib:get-type="t_e%d_get_type"' % (xml_attr(e['gtype']), i)
    dom = ''
    if e.get('domain') is not None:
        dom = ' glib:error-domain="%s"' % xml_attr(e['domain'])
    if k == 'constant':
        return ('<constant name="%s" value="%d" c:type="T_C%d"><type name="gint" c:type="gint"/></constant>\n'
                % (nm, i % 1000, i))
    if k == 'function':
        params = ''
        if dep and e.get('usedep'):
            params = ('<parameters><parameter name="x" transfer-ownership="none"><type name="Dep.Thing" '
                      'c:type="DepThing*"/></parameter></parameters>')
        return ('<function name="%s" c:identifier="t_f%d"><return-value transfer-ownership="none">'
                '<type name="none" c:type="void"/></return-value>%s</function>\n' % (nm, i, params))
    if k == 'callback':
        return ('<callback name="%s" c:type="TCb%d"><return-value transfer-ownership="none">'
                '<type name="none" c:type="void"/></return-value></callback>\n' % (nm, i))
    if k == 'record':
        return '<record name="%s" c:type="TR%d"%s/>\n' % (nm, i, reg)
    if k == 'union':
        return '<union name="%s" c:type="TU%d"%s/>\n' % (nm, i, reg)
    if k == 'boxed':
        return '<glib:boxed glib:name="%s"%s/>\n' % (nm, reg)
    if k in ('enum', 'flags'):
        tag = 'enumeration' if k == 'enum' else 'bitfield'
        return ('<%s name="%s" c:type="TE%d"%s%s><member name="a" value="1" c:identifier="T_E%d_A"/></%s>\n'
                % (tag, nm, i, reg, dom, i, tag))
    if k == 'class':
        parent = ' parent="Dep.Base"' if (dep and e.get('usedep')) else ' glib:fundamental="1"'
        return '<class name="%s" c:type="TO%d"%s%s/>\n' % (nm, i, parent, reg)
    if k == 'interface':
        return '<interface name="%s" c:type="TI%d"%s/>\n' % (nm, i, reg)
    raise HarnessError('unknown entry kind %r' % k)


def render_gir(ns, cprefix, entries, dep):
    out = [GIR_HEAD]
    if dep:
        out.append('<include name="Dep" version="1.0"/>\n')
    cp = '' if cprefix is None else ' c:identifier-prefixes="%s"' % xml_attr(cprefix)
    out.append('<namespace name="%s" version="1.0"%s c:symbol-prefixes="t">\n' % (ns, cp))
    for i, e in enumerate(entries):
        out.append(render_entry(e, i, dep))
    out.append('</namespace></repository>\n')
    return ''.join(out)


# ---------------------------------------------------------------- name sets
_vocab_cache = []


def vocabulary():
    """entry names used by the repository's own test GIRs (the repo's vocabulary)"""
    if not _vocab_cache:
        names = set()
        d = os.path.join(REPO, 'tests', 'scanner')
        try:
            for fn in sorted(os.listdir(d)):
                if fn.endswith('-expected.gir'):
                    with open(os.path.join(d, fn), encoding='utf-8', errors='replace') as f:
                        names.update(re.findall(r'\bname="([A-Za-z0-9_-]+)"', f.read()))
        except OSError:
            pass
        if len(names) < 50:
            names.update('word%d' % i for i in range(300))
        _vocab_cache.extend(sorted(names))
    return _vocab_cache


def rand_name(rng, lo=1, hi=24):
    return ''.join(rng.choice(NAMECH) for _ in range(rng.randint(lo, hi)))


def names_seq(rng, n):
    return ['K%d' % i for i in range(n)]


def names_short(rng, n):
    out = list(NAMECH)
    rng.shuffle(out)
    while len(out) < n:
        out.append(rand_name(rng, 2, 3))
    return out[:n]


def names_long(rng, n):
    base = rand_name(rng, 1900, 1900)
    out = []
    for i in range(n):
        style = i % 4
        if style == 0:
            out.append(base + '%d' % i)                                # differ only at the very end
        elif style == 1:
            out.append('%d' % i + base)                                # differ only at the start
        elif style == 2:
            out.append(base[:950] + '%d' % i + base[950:])             # differ in the middle
        else:
            out.append(rand_name(rng, 500, MAX_NAME))
    return [x[:MAX_NAME] for x in out]


def names_near(rng, n):
    """one-character neighbours of a few base words: substitutions at every position, case flips, swaps"""
    out = []
    while len(out) < n:
        w = rng.choice(vocabulary()) if rng.random() < 0.6 else rand_name(rng, 4, 12)
        out.append(w)
        for i in range(len(w)):
            out.append(w[:i] + rng.choice(NAMECH) + w[i + 1:])
            out.append(w[:i] + w[i].swapcase() + w[i + 1:])
            if i + 1 < len(w):
                out.append(w[:i] + w[i + 1] + w[i] + w[i + 2:])
        out.extend([w.upper(), w.lower(), w + w])
    return out[:n + 50]


def names_prefix(rng, n):
    """prefix chains: w[:1], w[:2], ..., w, w_, w_x, wClass, wPrivate ..."""
    out = []
    while len(out) < n:
        w = rng.choice(vocabulary()) if rng.random() < 0.7 else rand_name(rng, 3, 16)
        for i in range(1, len(w) + 1):
            out.append(w[:i])
        for suf in ('_', '_x', 'Class', 'Private', 'Iface', '2', '-', '_get_type', '0', 's'):
            out.append(w + suf)
    return out[:n + 50]


def names_shared(rng, n):
    pre = rng.choice(['gtk_tree_view_column_', 'G', 'test_', 'very_long_common_prefix_shared_by_everything_',
                      'Regress', 'a-'])
    return [pre + rand_name(rng, 1, 8) for _ in range(n + n // 4 + 4)]


def names_random(rng, n):
    return [rand_name(rng, 1, 30) for _ in range(n + n // 8 + 4)]


def names_vocab(rng, n):
    v = list(vocabulary())
    rng.shuffle(v)
    out = v[:n]
    while len(out) < n:
        out.append(rng.choice(v) + '_' + rand_name(rng, 1, 4))
    return out


def names_mixed(rng, n):
    out = []
    gens = [names_short, names_near, names_prefix, names_shared, names_random, names_vocab]
    while len(out) < n:
        out.extend(rng.choice(gens)(rng, max(1, min(n, rng.randint(1, 40)))))
    rng.shuffle(out)
    return out


RECIPES = {'seq': names_seq, 'short': names_short, 'long': names_long, 'near': names_near,
           'prefix': names_prefix, 'shared': names_shared, 'random': names_random, 'vocab': names_vocab,
           'mixed': names_mixed}
CPREFIXES = ['T', 'T,Tst', 'Gdk', 'G', 'T,,Tst,', ',', 'Tst,T', None, 'T', 'Regress', 'TT,T']


def valid_name(s):
    return 0 < len(s) <= MAX_NAME and all(c in NAMECH for c in s)


def camel(s):
    parts = re.split(r'[_\-]+', s)
    return ''.join(p[:1].upper() + p[1:] for p in parts if p)


def build_set(recipe):
    """recipe = {'gen':..., 'n':..., 'seed':..., 'dep':bool, 'kinds': 'constants'|'mix', 'cprefix':..., 'dupes':bool}
    -> description {'ns','cprefix','dep','entries':[{'k','name','gtype','domain','usedep'}], 'recipe'}.
    Deterministic in the recipe."""
    if 'entries' in recipe:                       # explicit description (corpus, replay)
        d = dict(recipe)
        d.setdefault('ns', 'T')
        d.setdefault('cprefix', 'T')
        d.setdefault('dep', False)
        d['recipe'] = {k: v for k, v in recipe.items()}
        return d
    rng = random.Random(recipe['seed'])
    n = recipe['n']
    raw = RECIPES[recipe['gen']](rng, n)
    seen = set()
    names = []
    for x in raw:
        if valid_name(x) and x not in seen:
            seen.add(x)
            names.append(x)
    i = 0
    while len(names) < n:                          # top up with fresh distinct names
        x = 'z%d_%s' % (i, rand_name(rng, 1, 3))
        i += 1
        if x not in seen:
            seen.add(x)
            names.append(x)
    names = names[:n]
    cprefix = recipe.get('cprefix', 'T')
    dep = bool(recipe.get('dep'))
    pieces = [p for p in (cprefix or '').split(',') if p] or ['T']
    entries = []
    used_gtypes = set(['DepBase', 'DepThing']) if dep else set()
    used_domains = set()
    constants_only = recipe.get('kinds') == 'constants'
    for idx, nm in enumerate(names):
        if constants_only:
            entries.append({'k': 'constant', 'name': nm})
            continue
        r = rng.random()
        if r < 0.30:
            k = 'constant'
        elif r < 0.45:
            k = 'function'
        elif r < 0.50:
            k = 'callback'
        elif r < 0.62:
            k = 'record'
        elif r < 0.67:
            k = 'union'
        elif r < 0.72:
            k = 'boxed'
        elif r < 0.84:
            k = 'enum'
        elif r < 0.88:
            k = 'flags'
        elif r < 0.96:
            k = 'class'
        else:
            k = 'interface'
        e = {'k': k, 'name': nm}
        if k in GTYPE_KINDS and (k == 'boxed' or k in ('class', 'interface') or rng.random() < 0.7):
            style = rng.random()
            if style < 0.6:
                g = rng.choice(pieces) + (camel(nm) or 'X')
            elif style < 0.75:
                g = rng.choice(['Other', 'G', 'Xy', 'g', '_T']) + (camel(nm) or 'X')
            elif style < 0.85:
                g = nm                                     # GType name equal to the entry name
            else:
                g = rand_name(rng, 3, 12)
            g = ''.join(c for c in g if c in NAMECH)[:200] or 'TX'
            if len(g) < 3:
                g = g + 'Xx'
            if g in used_gtypes and not (recipe.get('dupes') and rng.random() < 0.5):
                g = g + '%d' % idx
            if g not in used_gtypes or recipe.get('dupes'):
                used_gtypes.add(g)
                e['gtype'] = g
        if k in ('enum', 'flags') and rng.random() < (0.5 if k == 'enum' else 0.3):
            d = rng.choice(['%s-quark' % nm.lower(), '%s_error' % nm, rand_name(rng, 1, 10), 'q',
                            'g-io-error-quark', 'dom %d' % idx, 'é-quark', nm])
            if d in used_domains and not (recipe.get('dupes') and rng.random() < 0.5):
                d = d + '%d' % idx
            if d not in used_domains or recipe.get('dupes'):
                used_domains.add(d)
                e['domain'] = d
        if dep and k in ('function', 'class') and rng.random() < 0.4:
            e['usedep'] = True
        entries.append(e)
    if recipe.get('dupes') and len(entries) >= 2:
        # duplicate entry names (outside the property's quantifier; judged for soundness only)
        for _ in range(max(1, len(entries) // 10)):
            a, b = rng.randrange(len(entries)), rng.randrange(len(entries))
            if a != b:
                entries[b] = dict(entries[b], name=entries[a]['name'])
    return {'ns': 'T', 'cprefix': cprefix, 'dep': dep, 'entries': entries, 'recipe': recipe}


# ---------------------------------------------------------------- probes
def mutants_of(rng, s, alphabet=NAMECH):
    out = []
    if s:
        i = rng.randrange(len(s))
        out.append(s[:i] + rng.choice(alphabet) + s[i + 1:])          # substitution
        out.append(s[:i] + s[i + 1:])                                   # deletion
        out.append(s[:i] + s[i].swapcase() + s[i + 1:])                 # case flip
        out.append(s[:-1])                                              # prefix
        out.append(s[:len(s) // 2])
        out.append(s[1:])                                               # suffix
        if len(s) > 1:
            j = rng.randrange(len(s) - 1)
            out.append(s[:j] + s[j + 1] + s[j] + s[j + 2:])             # swap
    i = rng.randint(0, len(s))
    out.append(s[:i] + rng.choice(alphabet) + s[i:])                    # insertion
    out.append(s + rng.choice(alphabet))                                # extension
    out.append(s + s)
    out.append(s + ' ')
    out.append(' ' + s)
    return out


EXOTIC = ['', ' ', '\t', '\n', 'a\nb', '.', 'T.K0', '*', '%s', '\\', '"', "'", 'é', 'café', '名前', 'K0\x7f', '\x01',
          'x' * 5000, 'K', 'k0', 'K00', 'K0 ', '0', '-', '_', 'NULL', '(null)', 'Thing', 'Base', 'Dep.Base', 'OnlyInDep',
          'ÿ', 'a' * 2047, 'a' * 2048]


def make_probes(desc, rng, sample_cap, lin_budget):
    ents = desc['entries']
    members = []
    seen = set()
    for e in ents:
        if e['name'] not in seen:
            seen.add(e['name'])
            members.append(e['name'])
    absent = []
    sample = members if len(members) <= sample_cap else rng.sample(members, sample_cap)
    for m in sample:
        absent.extend(mutants_of(rng, m))
    absent.extend(EXOTIC)
    for _ in range(min(200, 20 + len(members))):
        absent.append(rand_name(rng, 1, 20))
        absent.append(''.join(chr(rng.choice([rng.randint(32, 126), rng.randint(0xa1, 0x2ff), rng.randint(0x4e00, 0x4eff)]))
                              for _ in range(rng.randint(1, 12))))
    for e in ents[:200]:
        if e.get('gtype'):
            absent.append(e['gtype'])
        if e.get('domain'):
            absent.append(e['domain'])
    names = list(members)
    for a in absent:
        if '\x00' not in a and a not in seen:
            seen.add(a)
            names.append(a)
    # which probes also take the linear path: all of them while n_local * probes fits the budget
    n = max(1, len(ents))
    allowed = max(50, lin_budget // n)
    if len(names) <= allowed:
        lin = [1] * len(names)
    else:
        chosen = set(rng.sample(range(len(names)), allowed))
        chosen.update(range(0, min(10, len(members))))                    # the first members
        chosen.update(range(max(0, len(members) - 10), len(members)))     # the last members
        lin = [1 if i in chosen else 0 for i in range(len(names))]

    gtypes, gseen = [], set()

    def addg(s):
        if '\x00' not in s and s not in gseen:
            gseen.add(s)
            gtypes.append(s)
    gt_members = [e['gtype'] for e in ents if e.get('gtype')]
    for g in gt_members:
        addg(g)
    gs = gt_members if len(gt_members) <= sample_cap else rng.sample(gt_members, sample_cap)
    for g in gs:
        for m in mutants_of(rng, g, 'abcXYZ09_'):
            addg(m)
    for p in (desc['cprefix'] or 'T').split(',') + ['T', 'G', '']:
        for suf in ('', 'X', 'x', '1', 'Xy', '_X', 'Z', 'A', 'a', 'Widget', 'é', '['):
            addg(p + suf)
            addg('X' + p + suf)
    for s in ['GObject', 'gint', 'gchararray', 'GInitiallyUnowned', 'DepBase', 'DepThing', 'DepNope', 'GOBJ', 'void',
              'GOBJ\nMETADATA\r\n\x1a\x04X', ''] + [e['name'] for e in ents[:50]]:
        addg(s)

    domains, dseen = [], set()

    def addd(s):
        if '\x00' not in s and s not in dseen:
            dseen.add(s)
            domains.append(s)
    dm = [e['domain'] for e in ents if e.get('domain')]
    for d in dm:
        addd(d)
    ds = dm if len(dm) <= sample_cap else rng.sample(dm, sample_cap)
    for d in ds:
        for m in mutants_of(rng, d, 'abcqQ-_ '):
            addd(m)
    for s in ['', 'dep-oops-quark', 'g-io-error-quark', 'nope', ' '] + [e['name'] for e in ents[:30]]:
        addd(s)
    # the GType / error-domain lookups are linear scans (three / two per probe): same budget
    capg = max(500, lin_budget // (3 * n))
    if len(gtypes) > capg:
        keep = set(rng.sample(range(len(gtypes)), capg))
        gtypes = [g for i, g in enumerate(gtypes) if i in keep]
    capd = max(500, lin_budget // (2 * n))
    if len(domains) > capd:
        keep = set(rng.sample(range(len(domains)), capd))
        domains = [d for i, d in enumerate(domains) if i in keep]
    return {'names': names, 'lin': lin, 'gtypes': gtypes, 'domains': domains}


# ---------------------------------------------------------------- running the real code
def hexs(s):
    return s.encode('utf-8').hex()


def unhex(tok):
    if tok == '-':
        return None
    if tok == '.':
        return ''
    return bytes.fromhex(tok).decode('utf-8', 'surrogateescape')


class Tools(object):
    """the real binaries, built this run from REPO.  The prober uses private functions of /repo
    (_gi_typelib_hash_search, cmph_search_packed, g_typelib_get_dir_entry_by_*): when it no longer
    compiles against the tree under test the correspondence that needs them is reported as broken and
    a build that needs less is used, down to the public API of <girepository.h>, so that the statement
    oracle (the failing-input search) still runs."""

    def __init__(self, ctx):
        t0 = time.time()
        b = cbuild.CBuild(os.path.join(ctx.scratch, 'cbuild')).compile_all()
        self.cb = b
        self.compiler = b.compiler()
        self.prober = None
        self.mode = None
        src = os.path.join(VERIF, 'cdrivers', 'c14_lookup.c')
        for mode, flags, lost in (
                ('full', [], 'byName (index path) / pack / size: _gi_typelib_hash_search, cmph_search_packed or cmph_packed_size'),
                ('nohash', ['-DC14_NO_HASH'], 'byName / byGTypeName / byErrorDomain / matchesGTypePrefix: the private '
                 'g_typelib_get_dir_entry_by_* functions, GIRealInfo or the blob structs of gitypelib-internal.h'),
                ('public', ['-DC14_PUBLIC_ONLY'], 'findByName / findByGType / findByErrorDomain: the public repository API')):
            try:
                self.prober = b.link('c14_lookup_' + mode, src, extra_cflags=flags)
                self.mode = mode
                break
            except cbuild.CBuildError as e:
                nxt = {'full': 'nohash', 'nohash': 'public'}.get(mode)
                msg = str(e)
                errs = re.findall(r'error: [^\n]*', msg)
                ctx.broken.append('correspondence c14.%s no longer exist/have changed (cdrivers/c14_lookup.c, %s build, '
                                  'does not compile: %s)%s'
                                  % (lost or 'prober', mode, '; '.join(errs[:3]) or msg[-300:],
                                     '; falling back to the %s build' % nxt if nxt else ''))
        if self.prober is None:
            raise HarnessError('no build of cdrivers/c14_lookup.c links against %s' % REPO)
        self.build_s = round(time.time() - t0, 2)
        self.timeout = 60 if ctx.quick() else 900


def parse_dump(text):
    res = {'entries': [], 'N': [], 'G': [], 'D': [], 'table': None, 'section': None, 'end': False, 'mode': 'full',
           'cprefix': ''}
    for line in text.split('\n'):
        if not line:
            continue
        f = line.split(' ')
        t = f[0]
        if t == 'N':
            res['N'].append(tuple(int(x) for x in f[1:6]))
        elif t == 'E':
            res['entries'].append((unhex(f[4]), int(f[2]), int(f[3]), unhex(f[5]), unhex(f[6])))
        elif t == 'G':
            res['G'].append(tuple(int(x) for x in f[1:5]))
        elif t == 'D':
            res['D'].append(tuple(int(x) for x in f[1:4]))
        elif t == 'HDR':
            keys = ('n_entries', 'n_local', 'directory', 'entry_blob_size', 'sections', 'size', 'c_prefix_off')
            res['hdr'] = dict(zip(keys, (int(x) for x in f[1:8])))
        elif t == 'CPREFIX':
            res['cprefix'] = (unhex(f[1]) or '') if len(f) > 1 and f[1] else ''
        elif t == 'MODE':
            res['mode'] = f[1]
        elif t == 'SECTION':
            if f[1] == '1':
                res['section'] = {'offset': int(f[2]), 'dirmap': int(f[3]), 'length': int(f[4]), 'mph': int(f[5])}
        elif t == 'TABLE':
            res['table'] = [int(x) for x in f[1:] if x]
        elif t == 'END':
            res['end'] = True
    return res


def compile_gir(tools, workdir, ns, text):
    gir = os.path.join(workdir, '%s-1.0.gir' % ns)
    with open(gir, 'w', encoding='utf-8') as f:
        f.write(text)
    out = os.path.join(workdir, '%s-1.0.typelib' % ns)
    try:
        rc, so, se = cbuild.run_compiler(tools.compiler, gir, out, includedirs=[workdir], timeout=tools.timeout)
    except subprocess.TimeoutExpired:
        return -1, 'g-ir-compiler did not finish within %d s' % tools.timeout
    return rc, (so + se)[-800:]


def probe(tools, workdir, ns, probes):
    pf = os.path.join(workdir, 'probes-%s.txt' % ns)
    with open(pf, 'w') as f:
        if probes:
            for s, lin in zip(probes['names'], probes['lin']):
                f.write('%s %s\n' % ('N' if lin else 'n', hexs(s)))
            for s in probes['gtypes']:
                f.write('G %s\n' % hexs(s))
            for s in probes['domains']:
                f.write('D %s\n' % hexs(s))
    try:
        p = subprocess.run([tools.prober, workdir, ns, '1.0', pf], stdout=subprocess.PIPE, stderr=subprocess.PIPE,
                           timeout=tools.timeout, env=dict(os.environ, G_DEBUG='', GI_TYPELIB_PATH=workdir))
    except subprocess.TimeoutExpired:
        return {'crash': 'c14_lookup (the real lookup functions) did not finish within %d s' % tools.timeout}
    out = p.stdout.decode('utf-8', 'surrogateescape')
    res = parse_dump(out)
    if p.returncode != 0 or not res['end']:
        return {'crash': 'c14_lookup exit %d: %s' % (p.returncode, p.stderr.decode('utf-8', 'replace')[-600:])}
    return res


def run_real(tools, ctx, desc, probes, tag):
    workdir = os.path.join(ctx.scratch, 'set-%s' % tag)
    os.makedirs(workdir, exist_ok=True)
    dep_dump = None
    if desc['dep']:
        rc, log = compile_gir(tools, workdir, 'Dep', render_gir('Dep', 'Dep', DEP_ENTRIES, False))
        if rc != 0:
            return {'compile_error': 'dependency namespace Dep (5 entries): g-ir-compiler exit %d: %s' % (rc, log)}, None, workdir
    rc, log = compile_gir(tools, workdir, desc['ns'], render_gir(desc['ns'], desc['cprefix'], desc['entries'], desc['dep']))
    if rc != 0:
        return {'compile_error': 'g-ir-compiler exit %d: %s' % (rc, log)}, None, workdir
    real = probe(tools, workdir, desc['ns'], probes)
    if desc['dep'] and 'crash' not in real:
        dep_dump = probe(tools, workdir, 'Dep', None)
        if 'crash' in dep_dump:
            return {'crash': 'on the dependency namespace Dep: ' + dep_dump['crash']}, None, workdir
    return real, dep_dump, workdir


# ---------------------------------------------------------------- model side
def lib_json(dump):
    return {'entries': [([e[0], e[1], e[2]] if e[3] is None and e[4] is None else [e[0], e[1], e[2], e[3], e[4]])
                        for e in dump['entries']],
            'nlocal': dump['hdr']['n_local'], 'cprefix': dump['cprefix']}


def json_safe(s):
    return s.encode('utf-8', 'surrogateescape').decode('utf-8', 'replace')


def pick(n_items, cap, seed):
    """indices of at most `cap` of `n_items` probes (all of them when they fit), deterministic"""
    if n_items <= cap:
        return list(range(n_items))
    return sorted(random.Random(seed).sample(range(n_items), cap))


def run_model(ctx, real, dep_dump, probes, sel, with_probe_model, gsel=None, dsel=None):
    """the Lean model on the directory read from the real typelib, with the ACTUAL hash values.
    `sel` = indices of the name probes sent to the model (None = all of them; the compiled driver
    parses JSON at well under 1 MB/s, so very large sets get a sample and no model `pack`)."""
    reqs = []
    if with_probe_model:
        libs = [lib_json(real)] + ([lib_json(dep_dump)] if dep_dump else [])
        idx = range(len(probes['names'])) if sel is None else sel
        names = [[probes['names'][i], max(0, real['N'][i][0]), probes['lin'][i]] for i in idx]
        full = real['mode'] == 'full'
        reqs.append({'op': 'c14.probe', 'libs': libs, 'table': real['table'] if full else None, 'names': names,
                     'gtypes': [probes['gtypes'][i] for i in gsel] if gsel is not None else probes['gtypes'],
                     'domains': [probes['domains'][i] for i in dsel] if dsel is not None else probes['domains'],
                     'checkpack': full and real['table'] is not None and sel is None})
    if real['section'] and real['section']['mph'] >= 0:
        reqs.append({'op': 'c14.size', 'mph': real['section']['mph'], 'n': real['hdr']['n_local'], 'bits': 16})
    out = ctx.driver.batch(reqs)
    model = out.pop(0) if with_probe_model else None
    return model, (out[0] if out else None)


# ---------------------------------------------------------------- the check of one set
class SetResult(object):
    def __init__(self):
        self.disagreements = []       # (op, detail)
        self.evals = 0


def check_set(ctx, tools, cnt, desc, probes, tag, samples=None):
    """run real code + model on one name set; correspondence -> ctx.broken; oracle -> ctx.report_failure.
    Returns the list of correspondence disagreements (for the neighbourhood search)."""
    res = SetResult()
    recipe = desc['recipe']
    ents = desc['entries']
    names_l = [e['name'] for e in ents]
    distinct = len(set(names_l)) == len(names_l)
    in_scope = distinct and 1 <= len(ents) <= 65535
    real, dep_dump, workdir = run_real(tools, ctx, desc, probes, tag)
    try:
        if 'compile_error' in real:
            cnt.hit('set:compile-error')
            if in_scope:
                ctx.report_failure('compile:' + json.dumps(recipe_key(recipe), sort_keys=True),
                                   'the real g-ir-compiler cannot compile a namespace of %d distinct valid entry names: %s'
                                   % (len(ents), real['compile_error']),
                                   {'kind': 'set', 'recipe': recipe})
            return res
        if 'crash' in real:
            cnt.hit('set:prober-crash')
            ctx.report_failure('crash:' + json.dumps(recipe_key(recipe), sort_keys=True),
                               'the lookup functions crashed on a typelib written by the real compiler: ' + real['crash'],
                               {'kind': 'set', 'recipe': recipe})
            return res
        hdr = real['hdr']
        mode = real['mode']
        cnt.hit('prober-build:' + mode)
        n_local = hdr['n_local']
        dump = real['entries']
        cnt.hit('set:%s' % recipe.get('gen', 'explicit'))
        cnt.hit('set:index-section' if real['section'] else 'set:no-index-section')
        if len(real['N']) != len(probes['names']) or len(real['G']) != len(probes['gtypes']) or \
                len(real['D']) != len(probes['domains']):
            raise HarnessError('prober answered %d/%d/%d lines for %d/%d/%d probes'
                               % (len(real['N']), len(real['G']), len(real['D']),
                                  len(probes['names']), len(probes['gtypes']), len(probes['domains'])))
        # the typelib must describe the namespace we asked for (sanity of the tie, not the property)
        if n_local != len(ents) or [d[0] for d in dump[:n_local]] != names_l:
            ctx.broken.append('tie: directory of the compiled typelib differs from the generated entry list '
                              '(n_local=%d, asked %d) for %r' % (n_local, len(ents), recipe_key(recipe)))
            return res

        # ---- assumption of C14_complete, checked on the actual hash
        member_pos = {}
        for i, nm in enumerate(names_l):
            member_pos.setdefault(nm, i)
        if real['section'] and distinct and mode == 'full':
            hv = {}
            for s, r in zip(probes['names'], real['N']):
                if s in member_pos:
                    hv[s] = r[0]
            bad_range = [s for s, h in hv.items() if not (0 <= h < n_local)]
            inj = len(set(hv.values())) == len(hv)
            cnt.hit('assumption:h-checked-on-members', len(hv))
            if bad_range or not inj or len(hv) != len(member_pos):
                ctx.broken.append('assumption of C14_complete fails on the real hash (cmph not a minimal perfect hash on '
                                  'the member names): injective=%r out-of-range=%r set=%r'
                                  % (inj, bad_range[:3], recipe_key(recipe)))

        # ---- model
        with_probe_model = n_local <= ctx.n(6000, 70000)
        sel = None
        cap = ctx.n(8000, 8000)
        if len(probes['names']) > cap:
            sel = sorted(random.Random(len(ents)).sample(range(len(probes['names'])), cap))
        # the model scans lists: bound (probes x entries) for the GType / domain / linear lookups it replays
        scan_budget = ctx.n(40 * 10 ** 6, 120 * 10 ** 6)
        gsel = pick(len(probes['gtypes']), max(300, scan_budget // (3 * max(1, n_local))), n_local + 1)
        dsel = pick(len(probes['domains']), max(300, scan_budget // (2 * max(1, n_local))), n_local + 2)
        model, msize = run_model(ctx, real, dep_dump, probes, sel, with_probe_model, gsel, dsel)
        cnt.hit('model:run-on-this-set' if with_probe_model else 'model:skipped(set too large for this tier)')
        sel_idx = range(len(probes['names'])) if sel is None else sel
        if not with_probe_model:
            model = {'names': [], 'gtypes': [], 'domains': [], 'pack': None}
            sel_idx = []

        # ---- correspondence
        def differ(op, detail):
            res.disagreements.append((op, detail))
            if len([b for b in ctx.broken if b.startswith('correspondence')]) < 3:
                ctx.broken.append('correspondence c14.%s differs: %s set=%r' % (op, detail, recipe_key(recipe)))

        for pi, m in zip(sel_idx, model['names']):
            s, lin, r = probes['names'][pi], probes['lin'][pi], real['N'][pi]
            h, hs, a, b, rp = r
            if mode == 'full' and not distinct:
                # duplicate entry names (outside the quantifier): the builder hashes the distinct names only, the
                # table is shorter than n_local and is not the model's `pack`; only the linear path is compared
                if lin and b != m[2]:
                    differ('byName', 'probe=%r real(linear)=%r model=%r' % (s, b, m[2]))
            elif mode == 'full':
                if [hs, a, b] != m:
                    differ('byName', 'probe=%r real(hs,index,linear)=%r model=%r' % (s, [hs, a, b], m))
            elif mode == 'nohash':
                if lin and b != m[2]:
                    differ('byName', 'probe=%r real(linear)=%r model=%r' % (s, b, m[2]))
            elif distinct and rp != m[1]:
                differ('findByName', 'probe=%r real=%r model=%r' % (s, rp, m[1]))
        dep_g = set(e[3] for e in dep_dump['entries'] if e[3]) if dep_dump else set()
        dep_d = set(e[4] for e in dep_dump['entries'] if e[4]) if dep_dump else set()
        for gi, m in zip(gsel, model['gtypes']):
            s, r = probes['gtypes'][gi], real['G'][gi]
            a, pm, rp, other = r
            if a != -8 and (a != m[0] or bool(pm) != m[1]):
                differ('byGTypeName', 'probe=%r real(entry,prefix)=%r model=%r' % (s, [a, pm], m[:2]))
            if rp != -2:
                mr = m[2]
                mrepo = mr[1] if mr[0] == 0 else (-3 if mr[0] > 0 else mr[0])
                ambiguous = (m[0] >= 0 and s in dep_g)        # two loaded namespaces have it: table-order dependent
                if not ambiguous and mrepo != rp:
                    differ('findByGType', 'probe=%r real=%r model=%r' % (s, rp, mr))
        for di, m in zip(dsel, model['domains']):
            s, r = probes['domains'][di], real['D'][di]
            a, rp, other = r
            if a != -8 and a != m[0]:
                differ('byErrorDomain', 'probe=%r real=%r model=%r' % (s, a, m[0]))
            mr = m[1]
            mrepo = mr[1] if mr[0] == 0 else (-3 if mr[0] > 0 else mr[0])
            ambiguous = (m[0] >= 0 and s in dep_d)
            if not ambiguous and mrepo != rp:
                differ('findByErrorDomain', 'probe=%r real=%r model=%r' % (s, rp, mr))
        if real['table'] is not None and distinct and mode == 'full':
            pk = model['pack']
            if pk is not None and not (pk['ok'] and pk['equal']):
                differ('pack', 'model pack %r vs the table in the typelib (n=%d)' % (pk, n_local))
            # the equation C14_complete uses (pack_spec), evaluated directly on the real table and hash:
            # slot h(name_i) holds i, every other slot holds 0
            want = [0] * n_local
            ok = len(real['table']) == n_local
            for s, r in zip(probes['names'], real['N']):
                if s in member_pos and 0 <= r[0] < n_local:
                    want[r[0]] = member_pos[s]
            if not ok or want != real['table']:
                differ('pack-equation', 'table in the typelib is not {h(name_i) -> i} (n=%d, first differing slot %r)'
                       % (n_local, next((i for i, (x, y) in enumerate(zip(want, real['table'])) if x != y), None)))
            cnt.hit('pack:equation-checked-on-real-table')
        if msize is not None:
            sec = real['section']
            if msize['dirmap'] != sec['dirmap'] or msize['section_now'] != sec['length'] or not msize['assert_ok_now'] \
                    or msize['packed'] > sec['length']:
                differ('size', 'real section %r model %r n=%d' % (sec, msize, n_local))
            cnt.hit('size:needs>16bit' if msize['packed'] >= 65536 else 'size:fits16bit')
            if msize['packed'] >= 65536 and msize['assert_ok']:
                differ('size16', 'model says a 16-bit required_size would still pass the assertion: %r' % msize)

        # ---- oracle from the statement, on the REAL results
        for s, lin, r in zip(probes['names'], probes['lin'], real['N']):
            h, hs, a, b, rp = r
            res.evals += 1
            is_member = s in member_pos
            cnt.hit('name:member' if is_member else 'name:absent')
            if real['section']:
                if h >= n_local:
                    cnt.hit('name:hash-clamped')
                if not is_member and 0 <= hs < len(dump) and a == -1:
                    cnt.hit('name:absent-rejected-by-strcmp')
            if lin:
                cnt.hit('name:linear-path')
            cnt.case(['n', s, names_l[hs] if 0 <= hs < len(names_l) else None, a], nontrivial=True)
            results = [('index path' if real['section'] else 'only path (no index section)', a)]
            if lin:
                results.append(('linear path', b))
            results.append(('g_irepository_find_by_name', rp))
            for path, got in results:
                bad = None
                if got in (-8, -9):
                    continue
                if got >= 0:
                    # soundness: whatever is found has exactly that name and is a local entry
                    if got >= n_local or dump[got][0] != s:
                        bad = 'answered entry #%d named %r' % (got, dump[got][0] if got < len(dump) else None)
                    elif distinct and got != member_pos[s]:
                        bad = 'answered entry #%d instead of #%d' % (got, member_pos[s])
                elif got == -1:
                    if is_member:
                        bad = 'reported absent'
                else:
                    bad = 'unexpected result code %d' % got
                if bad and (distinct or got >= 0):
                    ctx.report_failure('name:%s:%s' % (path.split(' ')[0], json.dumps([recipe_key(recipe), s])),
                                       '%s: %s for probe %r (%s) in a namespace of %d entries'
                                       % (path, bad, s, 'member #%d' % member_pos[s] if is_member else 'not a member', n_local),
                                       {'kind': 'set', 'recipe': recipe, 'probe': ['name', s], 'path': path, 'got': got})
        gt_pos = {}
        for i, d in enumerate(dump[:n_local]):
            if d[3] is not None:
                gt_pos.setdefault(d[3], []).append(i)
        for s, r in zip(probes['gtypes'], real['G']):
            a, pm, rp, other = r
            res.evals += 1
            want = gt_pos.get(s, [])
            cnt.hit('gtype:member' if want else 'gtype:absent')
            cnt.hit('gtype:prefix-match' if pm else 'gtype:prefix-nomatch')
            cnt.case(['g', s, a, pm], nontrivial=True)
            checks = [('g_typelib_get_dir_entry_by_gtype_name', a)]
            if rp != -2:
                cnt.hit('gtype:repo-level-with-real-GType')
                if not (s in dep_g):
                    checks.append(('g_irepository_find_by_gtype', rp))
                elif not want and rp != -3:
                    ctx.report_failure('gtype:repo-dep:' + json.dumps([recipe_key(recipe), s]),
                                       'g_irepository_find_by_gtype(%r) = %d although the loaded dependency defines it' % (s, rp),
                                       {'kind': 'set', 'recipe': recipe, 'probe': ['gtype', s]})
            else:
                cnt.hit('gtype:repo-level-n/a(no valid GType name)')
            for fn, got in checks:
                bad = None
                key = 'gtype:%s:%s' % (fn, json.dumps([recipe_key(recipe), s]))
                if got == -8:
                    continue
                if got >= 0:
                    if got >= n_local or dump[got][3] != s:
                        bad = 'answered entry #%d whose GType name is %r' % (got, dump[got][3] if got < len(dump) else None)
                    elif got != want[0] and len(want) == 1:
                        bad = 'answered entry #%d instead of #%d' % (got, want[0])
                elif got == -1:
                    if len(want) >= 1:
                        bad = 'reported absent although entry #%d (%s, blob type %d) has that GType name' \
                              % (want[0], dump[want[0]][0], dump[want[0]][2])
                else:
                    bad = 'unexpected result code %d' % got
                if bad:
                    ctx.report_failure(key, '%s(%r): %s' % (fn, s, bad),
                                       {'kind': 'set', 'recipe': recipe, 'probe': ['gtype', s], 'fn': fn, 'got': got})
        dom_pos = {}
        flags_dom = set()
        for i, d in enumerate(dump[:n_local]):
            if d[4] is not None:
                if d[2] == BT_ENUM:
                    dom_pos.setdefault(d[4], []).append(i)
                else:
                    flags_dom.add(d[4])          # a bitfield is not an error enumeration: outside the statement
        for s, r in zip(probes['domains'], real['D']):
            a, rp, other = r
            res.evals += 1
            want = dom_pos.get(s, [])
            cnt.hit('domain:member' if want else ('domain:only-on-a-bitfield(outside)' if s in flags_dom else 'domain:absent'))
            cnt.case(['d', s, a], nontrivial=True)
            checks = [('g_typelib_get_dir_entry_by_error_domain', a)]
            if s not in dep_d:
                checks.append(('g_irepository_find_by_error_domain', rp))
            elif not want and rp != -3:
                ctx.report_failure('domain:repo-dep:' + json.dumps([recipe_key(recipe), s]),
                                   'g_irepository_find_by_error_domain(%r) = %d although the loaded dependency defines it' % (s, rp),
                                   {'kind': 'set', 'recipe': recipe, 'probe': ['domain', s]})
            for fn, got in checks:
                bad = None
                if got == -8:
                    continue
                if got >= 0:
                    if got >= n_local or dump[got][4] != s or dump[got][2] != BT_ENUM:
                        bad = 'answered entry #%d (blob type %s, domain %r)' % (
                            got, dump[got][2] if got < len(dump) else None, dump[got][4] if got < len(dump) else None)
                    elif got != want[0] and len(want) == 1:
                        bad = 'answered entry #%d instead of #%d' % (got, want[0])
                elif got == -1:
                    if want:
                        bad = 'reported absent although enumeration #%d (%s) has that error domain' % (want[0], dump[want[0]][0])
                else:
                    bad = 'unexpected result code %d' % got
                if bad:
                    ctx.report_failure('domain:%s:%s' % (fn, json.dumps([recipe_key(recipe), s])),
                                       '%s(%r): %s' % (fn, s, bad),
                                       {'kind': 'set', 'recipe': recipe, 'probe': ['domain', s], 'fn': fn, 'got': got})
        cnt.hit('size:n=%s' % size_bucket(n_local))
        if hdr['n_entries'] > n_local:
            cnt.hit('set:has-non-local-entries')
        if samples is not None and len(samples) < 4:
            k = min(3, len(probes['names']))
            samples.append({'recipe': recipe_key(recipe), 'n_local': n_local, 'cprefix': real['cprefix'],
                            'first_entries': [list(d) for d in dump[:3]],
                            'name_probes(real h,hs,index,linear,repo)': [[probes['names'][-i - 1]] + list(real['N'][-i - 1])
                                                                          for i in range(k)],
                            'gtype_probe': [probes['gtypes'][0], list(real['G'][0])] if probes['gtypes'] else None})
        return res
    finally:
        for fn in os.listdir(workdir):
            try:
                os.unlink(os.path.join(workdir, fn))
            except OSError:
                pass


def size_bucket(n):
    for b in (1, 2, 4, 16, 64, 256, 1024, 4096, 16384, 32766, 65535):
        if n <= b:
            return '<=%d' % b
    return '>65535'


def recipe_key(recipe):
    if 'entries' in recipe:
        ents = recipe['entries']
        return {'explicit': [[e['k'], e['name'], e.get('gtype'), e.get('domain')] for e in ents[:40]],
                'n': len(ents), 'cprefix': recipe.get('cprefix', 'T')}
    return {k: recipe[k] for k in sorted(recipe)}


def neighbourhood(ctx, tools, cnt, desc, probes, dis, rng):
    """failing-input search around a correspondence disagreement: the same probes (plus one-edit
    mutants of the probe involved) against shrunk versions of the set"""
    ents = desc['entries']
    m = re.search(r"probe='((?:[^'\\]|\\.)*)'", dis[1])
    focus = m.group(1) if m else None
    extra = mutants_of(rng, focus) if focus else []
    subsets = []
    n = len(ents)
    for size in (1, 2, 3, 5, 9, n // 2, n - 1):
        if 0 < size < n:
            subsets.append(ents[:size])
            subsets.append(ents[n - size:])
            subsets.append(rng.sample(ents, size))
    for k, sub in enumerate(subsets[:14]):
        d2 = {'ns': desc['ns'], 'cprefix': desc['cprefix'], 'dep': desc['dep'], 'entries': sub,
              'recipe': {'entries': sub, 'cprefix': desc['cprefix'], 'dep': desc['dep']}}
        p2 = make_probes(d2, rng, 50, 10 ** 7)
        for x in extra + probes['names'][:200]:
            if x not in p2['names'] and '\x00' not in x:
                p2['names'].append(x)
                p2['lin'].append(1)
        check_set(ctx, tools, cnt, d2, p2, 'nb%d' % k)
        cnt.hit('search:shrunk-set')


# ---------------------------------------------------------------- histories (lookup state machine)
LAZY = 1        # G_IREPOSITORY_LOAD_FLAG_LAZY
# GType names a plain GObject process has registered (or registers on first use); for every other
# valid name the driver registers a pointer type on demand
REAL_GTYPES = ['GObject', 'GInitiallyUnowned', 'GBinding', 'GTypeModule', 'GTypePlugin', 'GParam', 'GParamInt',
               'GParamString', 'GParamObject', 'GStrv', 'GValue', 'GClosure', 'GDate', 'GString', 'GHashTable',
               'GArray', 'GBytes', 'GByteArray', 'GPtrArray', 'GVariant', 'GError', 'GType', 'GBoxed', 'GEnum',
               'GFlags', 'GSignalGroup', 'GBindingGroup', 'GValueArray', 'GRegex', 'GMatchInfo', 'GDateTime',
               'GTimeZone', 'GKeyFile', 'GMainLoop', 'GMainContext', 'GSource', 'GIOChannel', 'GThread',
               'GChecksum', 'GOptionGroup', 'GUri', 'GTree', 'GPollFD', 'GMarkupParseContext', 'GMappedFile',
               'GBookmarkFile', 'GPatternSpec', 'GVariantBuilder', 'GVariantDict', 'GVariantType',
               'gchararray', 'gint', 'gboolean', 'gdouble', 'gpointer', 'GBindingFlags', 'GIOCondition',
               'GNormalizeMode', 'GUnicodeType']
HIST_KINDS = ('record', 'boxed', 'union', 'enum', 'flags', 'class', 'interface')    # every kind of registered type
REGISTERED_BT = (BT_STRUCT, BT_BOXED, BT_UNION, BT_ENUM, BT_FLAGS, BT_OBJECT, BT_INTERFACE)


def build_world(recipe):
    """recipe = {'wseed':..., 'nns':...}  or explicit {'namespaces': [{'ns','cprefix','deps','entries'}]}
    -> {'namespaces': [...], 'recipe': recipe}.  Deterministic in the recipe.  Namespaces are listed so
    that dependencies come first (a DAG)."""
    if 'namespaces' in recipe:
        nss = []
        for n in recipe['namespaces']:
            n = dict(n)
            n.setdefault('cprefix', n['ns'])
            n.setdefault('deps', [])
            nss.append(n)
        return {'namespaces': nss, 'recipe': recipe}
    rng = random.Random(recipe['wseed'])
    nns = recipe['nns']
    pool = list(REAL_GTYPES)
    rng.shuffle(pool)
    used_g, used_d = [], []
    nss = []
    for k in range(nns):
        ns = 'H' + 'abcdefghijklmnop'[k] + rng.choice(['', 'x', 'Lib', '2'])
        cprefix = rng.choice([ns, ns, 'G', ns + ',G', 'Q' + ns, ns.upper()])
        deps = [n['ns'] for n in nss if rng.random() < 0.3]
        entries = []
        names = set()
        for i in range(rng.randint(2, 9)):
            nm = rng.choice(vocabulary()) if rng.random() < 0.5 else rand_name(rng, 2, 10)
            if not valid_name(nm) or nm in names:
                nm = 'e%d' % i
            names.add(nm)
            r = rng.random()
            if r < 0.15:
                entries.append({'k': 'constant', 'name': nm})
                continue
            if r < 0.25:
                entries.append({'k': 'function', 'name': nm})
                continue
            e = {'k': rng.choice(HIST_KINDS), 'name': nm}
            must = e['k'] in ('class', 'interface', 'boxed')  # the compiler insists on glib:type-name for these
            if must or rng.random() < 0.85:
                style = rng.random()
                if style < 0.45 and pool:
                    g = pool.pop()
                elif style < 0.60 and used_g:
                    g = rng.choice(used_g)                 # also described by another namespace
                elif style < 0.85:
                    g = cprefix.split(',')[0] + (camel(nm) or 'X')
                else:
                    g = rng.choice(['Other', 'Xy', 'g']) + (camel(nm) or 'X')
                g = ''.join(c for c in g if c.isalnum() or c == '_')
                if must and (len(g) < 3 or g in [x.get('gtype') for x in entries]):
                    g = '%sT%d%s' % (cprefix.split(',')[0], i, camel(nm) or 'X')
                    g = ''.join(c for c in g if c.isalnum() or c == '_')
                if len(g) >= 3 and g not in [x.get('gtype') for x in entries]:
                    e['gtype'] = g
                    used_g.append(g)
            if e['k'] == 'enum' and rng.random() < 0.6:
                d = rng.choice(used_d) if (used_d and rng.random() < 0.2) else \
                    rng.choice(['%s-%s-quark' % (ns.lower(), nm.lower()), '%s_error' % nm, 'g-io-error-quark',
                                'q%d%d' % (k, i)])
                if d not in [x.get('domain') for x in entries]:
                    e['domain'] = d
                    used_d.append(d)
            entries.append(e)
        nss.append({'ns': ns, 'cprefix': cprefix, 'deps': deps, 'entries': entries})
    return {'namespaces': nss, 'recipe': recipe}


def render_world_gir(n):
    out = [GIR_HEAD]
    for d in n['deps']:
        out.append('<include name="%s" version="1.0"/>\n' % d)
    out.append('<namespace name="%s" version="1.0" c:identifier-prefixes="%s" c:symbol-prefixes="t">\n'
               % (n['ns'], xml_attr(n['cprefix'])))
    for i, e in enumerate(n['entries']):
        out.append(render_entry(e, i, False))
    out.append('</namespace></repository>\n')
    return ''.join(out)


def world_truth(world):
    """what the generated GIRs say: per namespace, the typelib-level answers by key (first matching
    entry).  Only used when the driver cannot call the typelib-level functions (public build) and to
    name entries."""
    truth = {}
    for n in world['namespaces']:
        g, d, nm = {}, {}, {}
        for i, e in enumerate(n['entries']):
            nm.setdefault(e['name'], i)
            if e.get('gtype') and KIND_BT[e['k']] in REGISTERED_BT:
                g.setdefault(e['gtype'], i)
            if e.get('domain') and e['k'] == 'enum':
                d.setdefault(e['domain'], i)
        truth[n['ns']] = {'G': g, 'D': d, 'N': nm}
    return truth


class HistTools(object):
    """the history driver, built against the tree under test; falls back to the public API"""

    def __init__(self, ctx, tools):
        self.exe = None
        self.mode = None
        b = tools.cb
        src = os.path.join(VERIF, 'cdrivers', 'c14_history.c')
        for mode, flags in (('full', []), ('public', ['-DC14_PUBLIC_ONLY'])):
            try:
                self.exe = b.link('c14_history_' + mode, src, extra_cflags=flags)
                self.mode = mode
                break
            except cbuild.CBuildError as e:
                errs = re.findall(r'error: [^\n]*', str(e))
                ctx.broken.append('correspondence c14.history: the typelib-level lookup functions / gitypelib-internal.h '
                                  'no longer exist/have changed (cdrivers/c14_history.c, %s build, does not compile: %s)%s'
                                  % (mode, '; '.join(errs[:3]) or str(e)[-300:],
                                     '; falling back to the public build' if mode == 'full' else ''))
        if self.exe is None:
            raise HarnessError('no build of cdrivers/c14_history.c links against %s' % REPO)


def compile_world(tools, ctx, world, tag):
    workdir = os.path.join(ctx.scratch, 'world-%s' % tag)
    os.makedirs(workdir, exist_ok=True)
    for n in world['namespaces']:
        with open(os.path.join(workdir, '%s-1.0.gir' % n['ns']), 'w', encoding='utf-8') as f:
            f.write(render_world_gir(n))
    for n in world['namespaces']:
        gir = os.path.join(workdir, '%s-1.0.gir' % n['ns'])
        out = os.path.join(workdir, '%s-1.0.typelib' % n['ns'])
        try:
            rc, so, se = cbuild.run_compiler(tools.compiler, gir, out, includedirs=[workdir], timeout=tools.timeout)
        except subprocess.TimeoutExpired:
            return workdir, 'g-ir-compiler did not finish on namespace %s' % n['ns']
        if rc != 0:
            return workdir, 'g-ir-compiler exit %d on namespace %s: %s' % (rc, n['ns'], (so + se)[-500:])
    return workdir, None


def closure_loads(world_by_ns, eager, lazy, ns, flags):
    """the registrations a load / require of `ns` with `flags` performs, in order, as (ns, lazy) pairs;
    updates the sets (get_registered_status + register_internal + load_dependencies_recurse)"""
    regs = []
    if flags & LAZY:
        if ns in eager or ns in lazy:
            return regs
        lazy.add(ns)
        regs.append((ns, 1))
        return regs
    if ns in eager:
        return regs
    for d in world_by_ns[ns]['deps']:
        regs.extend(closure_loads(world_by_ns, eager, lazy, d, 0))
    lazy.discard(ns)
    eager.add(ns)
    regs.append((ns, 0))
    return regs


def gen_history(world, rng, length):
    """a history: list of ['G', key] / ['D', key] / ['N', ns, name] / ['L', ns, flags] / ['R', ns, flags]"""
    nss = world['namespaces']
    by_ns = dict((n['ns'], n) for n in nss)
    truth = world_truth(world)
    all_g = sorted(set(g for t in truth.values() for g in t['G']))
    all_d = sorted(set(d for t in truth.values() for d in t['D']))
    absent_g = [g for g in REAL_GTYPES if g not in all_g][:12] + ['HaNope', 'Zzz', 'GObjec', 'GObjectt']
    for g in all_g[:6]:
        absent_g.extend(m for m in mutants_of(rng, g, 'abcXYZ09_')[:3] if m not in all_g)
    absent_d = ['nope-quark', '', 'g-io-error-quar'] + [d + 'x' for d in all_d[:3]]
    eager, lazy = set(), set()
    ops = []
    asked = []

    def probe_key(kind, key):
        ops.append([kind, key])
        if [kind, key] not in asked:
            asked.append([kind, key])

    def some_probe(ns_bias=None):
        r = rng.random()
        if ns_bias is not None and r < 0.75:
            t = truth[ns_bias]
            cands = [['G', g] for g in t['G']] + [['D', d] for d in t['D']]
            if cands:
                k = rng.choice(cands)
                return probe_key(k[0], k[1])
        if r < 0.25 and asked:
            k = rng.choice(asked)
            return probe_key(k[0], k[1])
        if r < 0.60:
            return probe_key('G', rng.choice(all_g) if (all_g and rng.random() < 0.7) else rng.choice(absent_g))
        if r < 0.78:
            return probe_key('D', rng.choice(all_d) if (all_d and rng.random() < 0.7) else rng.choice(absent_d))
        loaded = sorted(eager | lazy)
        if not loaded:
            return probe_key('G', rng.choice(all_g or absent_g))
        ns = rng.choice(loaded)
        names = [e['name'] for e in by_ns[ns]['entries']]
        nm = rng.choice(names) if rng.random() < 0.75 else rng.choice(mutants_of(rng, rng.choice(names)) + ['', 'Nope'])
        if '\x00' in nm or ' ' in nm:
            nm = 'Nope'
        ops.append(['N', ns, nm])

    while len(ops) < length:
        if rng.random() < 0.30:
            unl = [n['ns'] for n in nss if n['ns'] not in eager and n['ns'] not in lazy]
            r = rng.random()
            if unl and r < 0.60:
                ns = rng.choice(unl)
            elif lazy and r < 0.90:
                ns = rng.choice(sorted(lazy))                  # lazy -> loaded transition (or a lazy no-op)
            else:
                ns = rng.choice(nss)['ns']
            flags = LAZY if rng.random() < 0.5 else 0
            primed = []
            if rng.random() < 0.8:                             # ask BEFORE the load (fills the negative cache)
                for _ in range(rng.randint(1, 3)):
                    n0 = len(ops)
                    some_probe(ns_bias=ns)
                    primed.extend(ops[n0:])
            ops.append([rng.choice(['L', 'R']), ns, flags])
            closure_loads(by_ns, eager, lazy, ns, flags)
            for p in primed:                                   # and AFTER it
                ops.append(list(p))
            if rng.random() < 0.5:
                some_probe(ns_bias=ns)
        else:
            some_probe()
    for k in asked[-12:]:
        ops.append(list(k))
    return ops


def parse_answer(tok):
    if tok == '-':
        return None
    if tok == 'NA':
        return 'NA'
    ns, _, hx = tok.partition(':')
    return (ns, unhex(hx) if hx else '')


def run_history(htools, world, workdir, ops, tag, timeout=60):
    """one process: returns {'steps': [...], 'mode':..., 'end': bool, 'crash': str|None}
    steps[i] for a probe = {'repo': None|'NA'|(ns,name), 'tl': {ns: idx}}, for a load = {'ok': bool, 'ns': [...]}"""
    nss = [n['ns'] for n in world['namespaces']]
    hf = os.path.join(workdir, 'history-%s.txt' % tag)
    with open(hf, 'w') as f:
        f.write('P %s\n' % workdir)
        for ns in nss:
            f.write('T %s\n' % os.path.join(workdir, '%s-1.0.typelib' % ns))
        for op in ops:
            if op[0] in ('G', 'D'):
                f.write('%s %s\n' % (op[0], hexs(op[1])))
            elif op[0] == 'N':
                f.write('N %s %s\n' % (op[1], hexs(op[2])))
            elif op[0] == 'L':
                f.write('L %d %d\n' % (nss.index(op[1]), op[2]))
            else:
                f.write('R %s 1.0 %d\n' % (op[1], op[2]))
    try:
        p = subprocess.run([htools.exe, hf], stdout=subprocess.PIPE, stderr=subprocess.PIPE, timeout=timeout,
                           env=dict(os.environ, G_DEBUG='', GI_TYPELIB_PATH=workdir))
    except subprocess.TimeoutExpired:
        return {'steps': [], 'end': False, 'crash': 'c14_history did not finish within %d s' % timeout, 'mode': None}
    out = p.stdout.decode('utf-8', 'surrogateescape').split('\n')
    res = {'steps': [], 'end': False, 'crash': None, 'mode': None}
    cur = None
    for line in out:
        f = line.split(' ')
        t = f[0]
        if t == 'MODE':
            res['mode'] = f[1]
        elif t in ('G', 'D', 'N') and len(f) >= 2:
            res['steps'].append({'repo': parse_answer(f[1]),
                                 'tl': dict((ns, int(x)) for ns, x in zip(nss, f[2:]))})
        elif t in ('L', 'R') and len(f) >= 2:
            cur = {'ok': f[1] == 'ok', 'detail': ' '.join(f[1:]), 'ns': None}
            res['steps'].append(cur)
        elif t == 'NS' and cur is not None:
            cur['ns'] = sorted(x for x in f[1:] if x)
        elif t == 'END':
            res['end'] = True
    if p.returncode != 0 or not res['end']:
        res['crash'] = 'c14_history exit %d after %d of %d calls: %s' % (
            p.returncode, len(res['steps']), len(ops), p.stderr.decode('utf-8', 'replace')[-400:])
    return res


def judge_history(world, ops, real):
    """the statement oracle on the REAL answers of one history.  Returns (failures, stats, loaded_trace) where
    failures = [(step index, kind, text)]; loaded_trace[i] = namespaces loaded before call i."""
    by_ns = dict((n['ns'], n) for n in world['namespaces'])
    truth = world_truth(world)
    eager, lazy = set(), set()
    fails, stats, notes = [], {}, []

    def hit(k):
        stats[k] = stats.get(k, 0) + 1
    override = None          # the loaded set reported by the library, once it differed from the expected one
    asked_before = set()
    missed = set()
    for i, op in enumerate(ops):
        if i >= len(real['steps']):
            break
        st = real['steps'][i]
        loaded = set(override) if override is not None else (eager | lazy)
        if op[0] in ('L', 'R'):
            before = set(eager | lazy)
            was_lazy = op[1] in lazy
            regs = closure_loads(by_ns, eager, lazy, op[1], op[2])
            hit('load:%s:%s%s' % ('load_typelib' if op[0] == 'L' else 'require', 'lazy' if op[2] & LAZY else 'eager',
                                   ':no-op(already registered)' if not regs else
                                   (':lazy->loaded transition' if (was_lazy and not (op[2] & LAZY)) else '')))
            if len(regs) > 1:
                hit('load:with-dependencies')
            if any(l == 0 and r != op[1] and r in before for r, l in regs):
                hit('load:dependency-transition(lazy->loaded)')
            if not st.get('ok'):
                notes.append('call %d %r failed: %s' % (i, op, st.get('detail')))
            if st.get('ns') is not None and set(st['ns']) != (eager | lazy):
                notes.append('after call %d %r the library reports the namespaces %r loaded, expected %r'
                             % (i, op, st['ns'], sorted(eager | lazy)))
                override = set(st['ns'])
            elif st.get('ns') is not None:
                override = None
            continue
        kind = op[0]
        r = st['repo']
        if kind == 'N':
            ns, key = op[1], op[2]
            if ns not in loaded:
                hit('name:namespace-not-loaded(outside)')
                continue
            t = st['tl'].get(ns, -8)
            if t == -8:
                t = truth[ns]['N'].get(key, -1)
            hit('name:member' if t >= 0 else 'name:absent')
            names = [e['name'] for e in by_ns[ns]['entries']]
            if r is None:
                if t >= 0:
                    fails.append((i, kind, 'g_irepository_find_by_name(%r, %r) = NULL although g_typelib_get_dir_entry_by_name '
                                           'on the loaded typelib finds entry #%d' % (ns, key, t)))
            elif r == 'NA' or r[0] != ns or r[1] != key or t < 0 or names.index(r[1]) != t:
                fails.append((i, kind, 'g_irepository_find_by_name(%r, %r) = %r but the typelib-level lookup answers %s'
                                       % (ns, key, r, '#%d' % t if t >= 0 else 'NULL')))
            continue
        key = op[1]
        if r == 'NA':
            hit('gtype:no-GType-of-that-name(outside)')
            continue
        want = {}
        for ns in sorted(loaded):
            t = st['tl'].get(ns, -8)
            if t == -8:
                t = truth[ns][kind].get(key, -1)
            if t >= 0:
                want[ns] = t
        label = 'gtype' if kind == 'G' else 'domain'
        fn = 'g_irepository_find_by_gtype' if kind == 'G' else 'g_irepository_find_by_error_domain'
        tlfn = 'g_typelib_get_dir_entry_by_gtype_name' if kind == 'G' else 'g_typelib_get_dir_entry_by_error_domain'
        first = (kind, key) not in asked_before
        asked_before.add((kind, key))
        hit('%s:%s:%s' % (label, 'present' if want else 'absent', 'first-ask' if first else 're-ask'))
        if len(want) > 1:
            hit('%s:in-several-loaded-typelibs' % label)
        if want and not first:
            if any(ns in lazy for ns in want):
                hit('%s:re-ask-after-miss-or-hit:in-lazy-typelib' % label)
            if (kind, key) in missed:
                # THE pattern of the negative cache: asked while absent, a load brought it, asked again
                hit('%s:present-after-an-earlier-miss:%s' % (label, 'only-in-lazily-loaded' if all(ns in lazy for ns in want)
                                                             else 'in-loaded'))
        if not want:
            missed.add((kind, key))
        if r is None:
            if want:
                ns0 = sorted(want)[0]
                fails.append((i, kind, '%s(%r) = NULL although %s on the loaded typelib %s (%s) finds entry #%d (%s); '
                                       'namespaces loaded at that moment: %s'
                                       % (fn, key, tlfn, ns0, 'lazily loaded' if ns0 in lazy else 'loaded', want[ns0],
                                          by_ns[ns0]['entries'][want[ns0]]['name'], sorted(loaded))))
        else:
            ns, name = r
            names = [e['name'] for e in by_ns[ns]['entries']] if ns in by_ns else []
            idx = names.index(name) if name in names else None
            if ns not in want or want[ns] != idx:
                fails.append((i, kind, '%s(%r) = %s.%s (entry #%s) but %s answers %s on the typelibs loaded at that moment (%s)'
                                       % (fn, key, ns, name, idx, tlfn,
                                          ', '.join('%s:#%d' % kv for kv in sorted(want.items())) or 'NULL everywhere',
                                          sorted(loaded))))
    return fails, stats, notes


def model_request(world, ops):
    """the request that runs the Lean state machine on the same history, and for every model call the
    index of the real call it belongs to (a non-lazy load is one registration per dependency + itself)"""
    nss = [n['ns'] for n in world['namespaces']]
    by_ns = dict((n['ns'], n) for n in world['namespaces'])
    libs = []
    for n in world['namespaces']:
        ents = []
        for e in n['entries']:
            bt = KIND_BT[e['k']]
            g = e.get('gtype') if bt in REGISTERED_BT else None
            d = e.get('domain') if bt in (BT_ENUM, BT_FLAGS) else None
            ents.append([e['name'], 1, bt] if g is None and d is None else [e['name'], 1, bt, g, d])
        libs.append({'ns': n['ns'], 'entries': ents, 'nlocal': len(ents), 'cprefix': n['cprefix']})
    eager, lazy = set(), set()
    mops, owner = [], []
    for i, op in enumerate(ops):
        if op[0] in ('L', 'R'):
            for ns, lz in closure_loads(by_ns, eager, lazy, op[1], op[2]):
                mops.append(['l', nss.index(ns), lz])
                owner.append(i)
        elif op[0] == 'N':
            if op[1] in eager or op[1] in lazy:
                mops.append(['n', op[1], op[2]])
                owner.append(i)
        else:
            mops.append(['g' if op[0] == 'G' else 'd', op[1]])
            owner.append(i)
    return {'op': 'c14.history', 'libs': libs, 'ops': mops}, owner, mops


def compare_model(world, ops, real, model):
    """real answers vs the Lean state machine; keys present in several loaded typelibs depend on the hash
    table order (a parameter of the model) and are compared for membership only (by the oracle)"""
    by_ns = dict((n['ns'], n) for n in world['namespaces'])
    truth = world_truth(world)
    diffs = []
    compared = 0
    for i, mop, m in model:
        if m == 'abort':
            diffs.append('model aborted at call %d %r' % (i, ops[i]))
            break
        if i >= len(real['steps']) or mop[0] == 'l':
            if mop[0] == 'l' and i < len(real['steps']) and real['steps'][i].get('ns') is not None:
                # tables after the LAST registration of this call
                pass
            continue
        st = real['steps'][i]
        r = st['repo']
        if r == 'NA':
            continue
        ans, eager, lazy, _nunknown = m
        if mop[0] in ('g', 'd'):
            kind = 'G' if mop[0] == 'g' else 'D'
            holders = [ns for ns in eager + lazy if truth[ns][kind].get(mop[1], -1) >= 0]
            if len(holders) > 1:
                continue
        if r is None:
            rr = [None, -1]
        else:
            names = [e['name'] for e in by_ns[r[0]]['entries']] if r[0] in by_ns else []
            rr = [r[0], names.index(r[1]) if r[1] in names else -4]
        compared += 1
        if rr != ans:
            diffs.append('call %d %r: real %r model %r (tables of the model: loaded %r lazy %r)' % (i, ops[i], rr, ans, eager, lazy))
    # the tables: after every load call the namespaces of the model = the namespaces the library reports
    last = {}
    for i, mop, m in model:
        if mop[0] == 'l' and m != 'abort':
            last[i] = sorted(m[1] + m[2])
    for i, nsl in last.items():
        if i < len(real['steps']) and real['steps'][i].get('ns') is not None and real['steps'][i]['ns'] != nsl:
            diffs.append('call %d %r: the library reports %r loaded, the model %r' % (i, ops[i], real['steps'][i]['ns'], nsl))
    return diffs, compared


def shrink_history(htools, world, workdir, ops, fail, budget=80):
    """greedy one-call deletion keeping 'the LAST call fails the oracle in the same way'"""
    i, kind, _ = fail
    cur = [list(o) for o in ops[:i + 1]]
    runs = 0

    def still_fails(cand):
        real = run_history(htools, world, workdir, cand, 'shrink')
        if real['crash']:
            return False
        fails, _s, _n = judge_history(world, cand, real)
        return any(f[0] == len(cand) - 1 and f[1] == kind for f in fails)
    changed = True
    while changed and runs < budget:
        changed = False
        j = len(cur) - 2
        while j >= 0 and runs < budget:
            cand = cur[:j] + cur[j + 1:]
            runs += 1
            if still_fails(cand):
                cur = cand
                changed = True
            j -= 1
    return cur


def world_key(recipe):
    if 'namespaces' in recipe:
        return {'explicit': [[n['ns'], n.get('cprefix'), n.get('deps', []),
                              [[e['k'], e['name'], e.get('gtype'), e.get('domain')] for e in n['entries']]]
                             for n in recipe['namespaces']]}
    return {k: recipe[k] for k in sorted(recipe)}


def check_history(ctx, htools, cnt, world, workdir, ops, real, model_out, state, samples=None):
    """one history: statement oracle on the real run, model comparison.  Returns the number of judged calls."""
    recipe = world['recipe']
    cnt.hit('history:run')
    cnt.hit('history-build:' + str(real.get('mode')))
    if real['crash']:
        cnt.hit('history:crash')
        cut = ops[:len(real['steps']) + 1]
        ctx.report_failure('history:crash:' + json.dumps([world_key(recipe), cut], sort_keys=True),
                           'the real library did not survive a history of lookups and loads: %s; calls so far: %r'
                           % (real['crash'], cut[-6:]),
                           {'kind': 'history', 'world': recipe, 'ops': cut})
        return 0
    fails, stats, notes = judge_history(world, ops, real)
    for k, v in stats.items():
        cnt.hit('hist:' + k, v)
    for n in notes[:1]:
        if state['tie_notes'] < 2:
            state['tie_notes'] += 1
            ctx.broken.append('tie c14.history: %s (world %r)' % (n, world_key(recipe)))
    judged = 0
    for i, op in enumerate(ops):
        if op[0] in ('G', 'D', 'N') and i < len(real['steps']):
            judged += 1
            cnt.case(['h', op, real['steps'][i]['repo'], sorted(real['steps'][i]['tl'].items())], nontrivial=True)
    if fails and state['reported'] < 3:
        state['reported'] += 1
        f = fails[0]
        small = shrink_history(htools, world, workdir, ops, f)
        real2 = run_history(htools, world, workdir, small, 'min')
        fails2, _s, _n = judge_history(world, small, real2)
        text = next((x[2] for x in fails2 if x[0] == len(small) - 1), f[2])
        ctx.report_failure('history:%s:%s' % (f[1], json.dumps([world_key(recipe), small], sort_keys=True)),
                           'after the calls %r: %s' % (small[:-1], text),
                           {'kind': 'history', 'world': recipe, 'ops': small})
    elif fails:
        cnt.hit('history:more-failing-histories(not shrunk)')
    # ---- the Lean state machine on the same history
    if model_out is not None:
        diffs, compared = compare_model(world, ops, real, model_out)
        cnt.hit('hist:model-compared-calls', compared)
        for d in diffs[:1]:
            if state['model_diffs'] < 3:
                state['model_diffs'] += 1
                ctx.broken.append('correspondence c14.history differs: %s world=%r history=%r'
                                  % (d, world_key(recipe), ops))
    if samples is not None and len(samples) < 2:
        samples.append({'world': world_key(recipe), 'history(first 12 calls)': ops[:12],
                        'real(first 12)': [s.get('repo', s.get('detail')) for s in real['steps'][:12]]})
    return judged


def run_histories(ctx, tools, cnt, corpus_hist, samples):
    htools = HistTools(ctx, tools)
    state = {'reported': 0, 'tie_notes': 0, 'model_diffs': 0}
    total = 0
    nworlds = ctx.n(10, 48)
    nhist = ctx.n(16, 36)
    length = ctx.n(28, 40)
    worlds = [dict(c) for c in corpus_hist]
    for _ in range(nworlds):
        worlds.append({'wseed': ctx.rng.getrandbits(32), 'nns': ctx.rng.randint(2, 6)})
    for w, recipe in enumerate(worlds):
        world = build_world(recipe)
        workdir, err = compile_world(tools, ctx, world, str(w))
        try:
            if err:
                cnt.hit('history:world-compile-error')
                ctx.report_failure('history:compile:' + json.dumps(world_key(recipe), sort_keys=True),
                                   'the real g-ir-compiler cannot compile a generated namespace: ' + err,
                                   {'kind': 'history', 'world': recipe, 'ops': []})
                continue
            cnt.hit('history:worlds')
            cnt.hit('history:namespaces', len(world['namespaces']))
            hists = [list(h) for h in recipe.get('histories', [])]
            hrng = random.Random(recipe.get('wseed', w) ^ 0x9e3779b9)
            if 'wseed' in recipe or not hists:
                for _ in range(nhist):
                    hists.append(gen_history(world, hrng, length))
            with concurrent.futures.ThreadPoolExecutor(max_workers=4) as ex:
                reals = list(ex.map(lambda ko: run_history(htools, world, workdir, ko[1], '%d-%d' % (w, ko[0])),
                                    enumerate(hists)))
            reqs = [model_request(world, ops) for ops in hists]
            try:
                outs = ctx.driver.batch([r[0] for r in reqs])
            except HarnessError as e:
                outs = [None] * len(hists)
                if state['model_diffs'] < 3:
                    state['model_diffs'] += 1
                    ctx.broken.append('correspondence c14.history: the model driver failed: %s' % str(e)[:300])
            for ops, real, (req, owner, mops), out in zip(hists, reals, reqs, outs):
                model_out = list(zip(owner, mops, out)) if out is not None else None
                total += check_history(ctx, htools, cnt, world, workdir, ops, real, model_out, state, samples)
        finally:
            shutil.rmtree(workdir, ignore_errors=True)
    return total



# ---------------------------------------------------------------- the plan of a run
def plan(ctx):
    rng = ctx.rng
    sets = []

    def add(gen, n, **kw):
        r = {'gen': gen, 'n': n, 'seed': rng.getrandbits(32)}
        r.update(kw)
        sets.append(r)
    if ctx.quick():
        add('seq', 1, kinds='constants')
        add('mixed', 2, cprefix='T,Tst')
        add('short', 64, cprefix='G')
        add('long', 24, cprefix='T', dep=True)
        add('near', rng.randint(150, 400), cprefix='T,,Tst,')
        add('prefix', rng.randint(150, 400), cprefix=None)
        add('shared', rng.randint(500, 1500), cprefix='Gdk', dep=True)
        add('vocab', rng.randint(300, 900), cprefix='Regress')
        add('random', rng.randint(1500, 3000), cprefix='T')
        add('mixed', rng.randint(3, 40), cprefix=rng.choice(CPREFIXES), dep=True)
        add('mixed', rng.randint(200, 600), cprefix=rng.choice(CPREFIXES), dupes=True)
        add('mixed', rng.choice([255, 256, 257, 1023, 1024]), cprefix='TT,T')
        # regression for the former 16-bit section size (fix 615129a): >= 25000 entries
        add('seq', rng.randint(25000, 27000), kinds='constants')
    else:
        for n in (1, 2, 3, 4, 5, 6, 7, 8):
            add(rng.choice(['mixed', 'short', 'random']), n, cprefix=rng.choice(CPREFIXES), dep=bool(n % 2))
        for _ in range(40):
            add(rng.choice(list(RECIPES)), rng.randint(1, 400), cprefix=rng.choice(CPREFIXES),
                dep=rng.random() < 0.3, dupes=rng.random() < 0.12)
        for _ in range(10):
            add(rng.choice(['near', 'prefix', 'shared', 'random', 'vocab', 'mixed', 'seq']), rng.randint(400, 6000),
                cprefix=rng.choice(CPREFIXES), dep=rng.random() < 0.3)
        add('long', 300, cprefix='T')
        for n in (255, 256, 257, 4095, 4096, 4097, 16383, 16384):
            add('mixed', n, cprefix='T')
        add('seq', 30000, kinds='constants')                  # the witness size of the former abort
        add('mixed', 30011, cprefix='T,Tst')
        add('seq', rng.randint(24000, 29000), kinds='constants')
        add('seq', 32766, kinds='constants')                  # 2n+4 reaches 2^16 whatever the hash size
        add('shared', rng.randint(40000, 60000), cprefix='Gdk')
        add('random', 65535, cprefix='T')
        add('seq', 65535, kinds='constants')
    return sets


def load_corpus():
    out = []
    cpath = os.path.join(VERIF, 'corpus', 'C14')
    if os.path.isdir(cpath):
        for fn in sorted(os.listdir(cpath)):
            if fn.endswith('.json'):
                with open(os.path.join(cpath, fn)) as f:
                    out.extend(json.load(f))
    return out


def register_pending(ctx):
    for pf in PENDING_FINDINGS:
        if ctx.is_known(pf['key']) is None:
            ctx.known.append(dict(pf))


def run(ctx):
    cnt = Counter()
    register_pending(ctx)
    ctx.prove(['gen_typelib_layout', 'gen_lookup'], ['GIVerif.Props.C14'], 'GIVerif.Props.C14')
    tools = Tools(ctx)
    ctx.log('C build %.1fs' % tools.build_s)
    rng = ctx.rng
    samples = []
    total = 0
    sample_cap = ctx.n(400, 1200)
    lin_budget = ctx.n(60 * 10 ** 6, 600 * 10 ** 6)

    corpus_all = load_corpus()
    corpus = [c for c in corpus_all if 'namespaces' not in c]
    corpus_hist = [c for c in corpus_all if 'namespaces' in c]
    # histories first: they are cheap and the lookup state machine is where the caches live
    t_h = time.time()
    hist_samples = []
    hist_evals = run_histories(ctx, tools, cnt, corpus_hist, hist_samples)
    total += hist_evals
    ctx.log('histories: %d judged calls in %.1fs' % (hist_evals, time.time() - t_h))
    recipes = [c for c in corpus] + plan(ctx)
    searched = 0
    for k, recipe in enumerate(recipes):
        desc = build_set(recipe)
        prng = random.Random(recipe.get('seed', k) ^ 0x5bd1e995)
        probes = make_probes(desc, prng, sample_cap, lin_budget)
        for extra_kind, key in (('names', 'probe_names'), ('gtypes', 'probe_gtypes'), ('domains', 'probe_domains')):
            for x in recipe.get(key, []):
                if x not in probes[extra_kind]:
                    probes[extra_kind].append(x)
                    if extra_kind == 'names':
                        probes['lin'].append(1)
        t0 = time.time()
        res = check_set(ctx, tools, cnt, desc, probes, str(k), samples)
        total += res.evals
        if len(desc['entries']) >= 10000 or os.environ.get('C14_TIMING'):
            ctx.log('set %d %s n=%d probes=%d %.1fs' % (k, recipe.get('gen', 'explicit'), len(desc['entries']),
                                                        len(probes['names']), time.time() - t0))
        if res.disagreements and searched < 2:
            searched += 1
            neighbourhood(ctx, tools, cnt, desc, probes, res.disagreements[0], rng)

    ctx.coverage.update({
        'evaluations': total,
        'distinct_nontrivial': cnt.n_distinct(),
        'rule': 'name sets (seq / short / long / near-colliding / prefix chains / shared prefix / random / repo vocabulary / '
                'mixed; 1..N entries; constants, functions, callbacks, records, unions, glib:boxed, enums, bitfields, classes, '
                'interfaces; with and without a dependency namespace = non-local entries; several c:identifier-prefixes) '
                'compiled by the real g-ir-compiler; probes = every member + one-edit mutants, prefixes, extensions, random, '
                'exotic and empty strings, GType names and error domains with their mutants. One evaluation = one probe '
                'answered by the real code through every path (index, linear, repository) and judged by the statement '
                'oracle, and compared with the model run on the actual hash values. All probes are non-trivial (the '
                'lookup code runs); distinct = distinct (kind, probe, entry the hash pointed at, answer).  HISTORIES: worlds of '
                '2-6 small namespaces (dependencies, GType names of real GObject types and generated ones, some described '
                'by several namespaces, error domains) compiled by the real g-ir-compiler; per world generated histories '
                '(26-40 calls, one process each) interleaving find_by_gtype / find_by_error_domain / find_by_name probes '
                '(members, absent, re-asked) with g_irepository_load_typelib / g_irepository_require, lazy and not, '
                'no-op reloads and lazy->loaded transitions; keys of a namespace are asked before AND after it is loaded. '
                'One evaluation = one probe call judged against the typelib-level lookups of the typelibs loaded at that '
                'moment and compared with the Lean state machine.',
        'samples': samples + hist_samples,
        'distribution': cnt.counts,
        'corpus_cases': len(corpus_all),
        'sets': len(recipes),
        'history_evaluations': hist_evals,
        'c_build_s': tools.build_s,
        'exhaustive': False,
        'pending_findings': [p['key'] for p in PENDING_FINDINGS],
    })
    ctx.assumptions.extend([
        'cmph (BDZ) is not modelled: the hash is a parameter; C14_complete assumes it injective and in range on the member '
        'names, which this run checked on the actual hash of every compiled typelib',
        'strings are compared as code-point lists in the model and as bytes (strcmp) in C: equivalent for valid UTF-8',
        'the caches of g_irepository_find_by_gtype / find_by_error_domain (info_by_gtype, unknown_gtypes, '
        'info_by_error_domain) are modelled by the state machine of C14_history and exercised by the histories; the '
        'single-typelib probes use a freshly registered GType per probe',
        'histories: typelibs are never unloaded (a lazy->loaded transition promotes the typelib that is loaded); one '
        'version per namespace; loads that fail are not generated (C17)',
        'histories: a GType is identified with its name (real GObject types, else a pointer type registered under the '
        'name); the set of namespaces loaded at each moment is computed from the calls made and their known dependencies '
        'and cross-checked against g_irepository_get_loaded_namespaces',
        'g_irepository_find_by_gtype is exercised with real GTypes registered by the prober '
        '(g_pointer_type_register_static) for probes that are valid GType names; other probes only reach '
        'g_typelib_get_dir_entry_by_gtype_name',
        'ALIGN_VALUE is modelled arithmetically ((x+b-1)/b*b), validated against the real section offsets',
        'order of loaded typelibs (GHashTable) is a parameter of findByGType/findByErrorDomain; probes defined in two '
        'loaded namespaces are not compared at repository level',
        'entry names are restricted by the typelib validator to [A-Za-z0-9_-]{1,2047}; probes are arbitrary NUL-free strings',
    ])


def replay(ctx, rep):
    register_pending(ctx)
    r = rep['replay']
    tools = Tools(ctx)
    cnt = Counter()
    if r.get('kind') == 'history':
        htools = HistTools(ctx, tools)
        world = build_world(r['world'])
        workdir, err = compile_world(tools, ctx, world, 'replay')
        if err:
            print('reproduced: the real g-ir-compiler cannot compile the world: ' + err)
            return 1
        real = run_history(htools, world, workdir, r['ops'], 'replay')
        print('history: %r' % (r['ops'],))
        for op, st in zip(r['ops'], real['steps']):
            print('  %-40r -> %r' % (op, st.get('repo', st.get('detail'))))
        if real['crash']:
            print('reproduced: ' + real['crash'])
            return 1
        fails, _s, notes = judge_history(world, r['ops'], real)
        for f in fails[:5]:
            print('reproduced: call %d: %s' % (f[0], f[2]))
        for n in notes[:3]:
            print('note: ' + n)
        return 1 if fails else 0
    desc = build_set(r['recipe'])
    prng = random.Random(r['recipe'].get('seed', 0) ^ 0x5bd1e995)
    probes = make_probes(desc, prng, 400, 60 * 10 ** 6)
    if 'probe' in r:
        kind, s = r['probe']
        key = {'name': 'names', 'gtype': 'gtypes', 'domain': 'domains'}[kind]
        if s not in probes[key]:
            probes[key].append(s)
            if key == 'names':
                probes['lin'].append(1)
    check_set(ctx, tools, cnt, desc, probes, 'replay')
    for v in ctx.violations[:5]:
        print('reproduced: ' + v['what'][:400])
    for h in ctx.known_hits:
        print('KNOWN-FINDING: property=C14 %s [%s]' % (h['what'], h['key']))
    for b in ctx.broken[:5]:
        print('no longer checks: ' + b[:400])
    return 1 if (ctx.violations or ctx.broken) else 0
