"""Build /repo's real girepository C code (libgirepository objects, g-ir-compiler,
g-ir-generate and our driver programs) against the hand-written GLib declarations in
/verif/glibshim, linking the system GLib runtime (.so.0).  No GLib development headers
exist in this sandbox; see DESIGN.md A.2 / Part C.

Everything is compiled from /repo's current working tree on every call, into a scratch
directory that the caller owns (and removes).
"""
import concurrent.futures
import glob
import os
import subprocess

from core import REPO, VERIF, HarnessError

SHIM = os.path.join(VERIF, 'glibshim')
LIBDIR = '/usr/lib/x86_64-linux-gnu'
GLIB_LIBS = [os.path.join(LIBDIR, 'lib%s-2.0.so.0' % n) for n in ('gio', 'gobject', 'gmodule', 'glib')]
CMPH_SKIP = {'main.c', 'wingetopt.c', 'bdz_gen_lookup_table.c', 'hashtree.c', 'buffer_manage.c',
             'djb2_hash.c', 'fnv_hash.c', 'sdbm_hash.c'}
# not compiled: ginvoke.c (needs GClosure internals), gdump.c (runtime dump writer; stubbed)
GIREPO_SKIP = {'ginvoke.c', 'gdump.c', 'docs.c', 'gi-dump-types.c', 'gthash-test.c', 'cmph-bdz-test.c'}


def _cc(args, cwd=None):
    p = subprocess.run(args, cwd=cwd, stdout=subprocess.PIPE, stderr=subprocess.STDOUT)
    return p.returncode, p.stdout.decode('utf-8', 'replace')


def cflags(extra=()):
    return ['-O1', '-g', '-w', '-std=gnu11', '-fno-strict-aliasing',
            '-DGI_COMPILATION', '-DG_LOG_DOMAIN="GLib-GIRepository"', '-DHAVE_CONFIG_H',
            '-I' + os.path.join(SHIM, 'inc'), '-I' + REPO, '-I' + os.path.join(REPO, 'girepository'),
            '-I' + os.path.join(REPO, 'girepository', 'cmph')] + list(extra)


class CBuild(object):
    def __init__(self, outdir, sanitize=False):
        self.out = outdir
        self.sanitize = sanitize
        self.extra = ['-fsanitize=address,undefined', '-fno-omit-frame-pointer'] if sanitize else []
        self.cc = 'clang' if sanitize else 'gcc'
        os.makedirs(outdir, exist_ok=True)
        self.objs = []
        self.log = ''

    def compile_all(self):
        """Compile every girepository/*.c (minus the skipped ones), the cmph files and the stub."""
        srcs = []
        for f in sorted(glob.glob(os.path.join(REPO, 'girepository', '*.c'))):
            if os.path.basename(f) not in GIREPO_SKIP:
                srcs.append(f)
        for f in sorted(glob.glob(os.path.join(REPO, 'girepository', 'cmph', '*.c'))):
            if os.path.basename(f) not in CMPH_SKIP:
                srcs.append(f)
        srcs.append(os.path.join(SHIM, 'stubs.c'))
        jobs = []
        for s in srcs:
            o = os.path.join(self.out, os.path.basename(os.path.dirname(s)) + '_' + os.path.basename(s)[:-2] + '.o')
            jobs.append((s, o))

        def one(job):
            s, o = job
            return job, _cc([self.cc] + cflags(self.extra) + ['-c', s, '-o', o])
        failed = []
        with concurrent.futures.ThreadPoolExecutor(max_workers=16) as ex:
            for (s, o), (rc, out) in ex.map(one, jobs):
                if rc != 0:
                    failed.append((s, out))
                else:
                    self.objs.append(o)
        if failed:
            raise CBuildError('C compilation of /repo failed: ' +
                              '; '.join('%s: %s' % (os.path.relpath(s, REPO), out[-600:]) for s, out in failed[:3]))
        return self

    def link(self, name, main_src, extra_cflags=()):
        """Compile main_src and link it with all library objects into out/<name>."""
        exe = os.path.join(self.out, name)
        srcs = [main_src]
        if os.path.basename(main_src) != 'compiler.c':
            srcs.append(os.path.join(SHIM, 'logged_levels.c'))
        rc, out = _cc([self.cc] + cflags(self.extra) + list(extra_cflags) + srcs + ['-o', exe] + self.objs +
                      GLIB_LIBS + ['-lffi', '-lm', '-ldl'])
        if rc != 0:
            raise CBuildError('linking %s failed: %s' % (name, out[-1500:]))
        return exe

    def compiler(self):
        return self.link('g-ir-compiler', os.path.join(REPO, 'tools', 'compiler.c'))

    def generate(self):
        return self.link('g-ir-generate', os.path.join(REPO, 'tools', 'generate.c'))

    def cdriver(self, name):
        return self.link(name, os.path.join(VERIF, 'cdrivers', name + '.c'))


class CBuildError(HarnessError):
    """The C code of /repo no longer builds with the shim: a harness-level problem unless the
    change under test broke compilation (which a compiling mutant by definition does not)."""


def run_compiler(exe, gir_path, out_path, includedirs=(), shared_library=None, extra=(), timeout=120):
    args = [exe, '-o', out_path]
    for d in includedirs:
        args += ['--includedir', d]
    if shared_library is not None:
        args += ['--shared-library', shared_library]
    args += list(extra) + [gir_path]
    env = dict(os.environ, ASAN_OPTIONS='detect_leaks=0', G_DEBUG='')
    p = subprocess.run(args, stdout=subprocess.PIPE, stderr=subprocess.PIPE, timeout=timeout, env=env)
    return p.returncode, p.stdout.decode('utf-8', 'replace'), p.stderr.decode('utf-8', 'replace')
