"""C11 — Comment parsing never aborts, and its diagnostics point at the source.

Proof: lean/GIVerif/Props/C11.lean over lean/GIVerif/Model/AnnParse/*.lean: totality of the
tokenizer AND of the block state machine for every string (partial Python operations are explicit
Except steps), atomicity of a failing annotation field, caret positions inside the field, line
numbers of everything the state machine logs, and the message log (every log call counted,
warnings-as-errors fails iff count > 0).
Tie: translators + correspondence of tokenizer, matchers, message log and of the whole block
parser (block tree and every diagnostic with line, caret and quoted line) with the real code.
Independently of the model the statement is judged by oracles run on the real
GtkDocCommentBlockParser for arbitrary strings: never raises, other blocks survive, every
diagnostic names the file and the line of the offending text, a quoted line is that source
line and the caret lies within it, counting is independent of display.
"""
import io
import json
import os
import re

from core import Counter
import anncommon as ac

HERE = os.path.dirname(os.path.dirname(os.path.abspath(__file__)))
LINE_BREAK = re.compile(r'\r\n|\r|\n')
PAREN_KINDS = ('unbalancedParens', 'unexpectedParens')


def load_corpus():
    out = []
    cpath = os.path.join(HERE, 'corpus', 'C11')
    if os.path.isdir(cpath):
        for fn in sorted(os.listdir(cpath)):
            if fn.endswith('.json'):
                with open(os.path.join(cpath, fn)) as f:
                    out.extend(json.load(f))
    return out


# ---------------------------------------------------------------- generators
DEPRECATED_LINES = ['Return value: (transfer full): x', 'Returns value: x', 'Return: x', 'Rename to: new_name',
                    'Attributes: (a b) (c d)', 'Attributes: (a)', 'Attributes: (a b c)', 'Attributes: ((a b)',
                    'Transfer: full', 'Type: utf8', 'Value: 3', 'Virtual: vfunc_name', 'Get value func: f',
                    'Set value func: f', 'Ref func: f', 'Unref func: f', 'Description: old style', 'Since: ', 'Since',
                    '@Varargs: more', '@args...: more', '@returns: (transfer none): x', '@Returns: y',
                    '@p: (in-out)', '@p: (attribute a b)', '@p: (attribute a)', '@p: (type <utf8>)',
                    '@p: (transfer full=1)', '@p (in): no colon', '@p: (in) no colon', '@: x', '@', ':', '::', ' : ',
                    'SECTION:x', 'Returns: (skip) (skip)', 'Stability: Unknown', 'Deprecated: x.y: z', '(skip)',
                    '  (transfer full)', '((', '))', 'foo: (copy-func)', 'foo: (free-func x)',
                    # parentheses holding only white space, at every annotation position
                    'foo: ( )', 'foo: (  ) (skip)', '@p: ( )', '@p: (in) (\t): x', '@p: (\xa0)', 'Returns: ( )',
                    'Returns: (transfer full) (  ): r', 'Since: ( ) 2.0', '  ( )', '( ) (skip)', '(skip) ( )', '(( ))', '()',
                    '(\u2028)', '@p: ( \t )',
                    # continuation lines that start well and are rejected as a whole
                    '  (out) ((x)', '(transfer none) (in', '  (skip) ())', '(nullable) (optional) )', '(method) (a (b)']
DEGENERATE = ['', ' ', '/**', '/** */', '/**/', '/***/', '/**\n*/', '/**\n */', '/**\n', '/*\n * x:\n */', '/** x: */',
              '/**\n * \n */', '/**\n *\n *\n */', '/**\n x:\n */', '/**\nx\n*/', '/**\n * x:\n', '/**\n * x: */',
              '/** foo:\n * @a: b\n */', 'int x; /**\n * foo:\n */ int y;', '/**\r\n * foo:\r\n */', '/**\r * foo:\r */',
              '/**\n * foo:\n **/', '/**\n * foo:\n * text */', '/**\n * @p: x\n */', '/**\n *\n * foo:\n */',
              '/**\n * foo: (skip\n */', '/**\n * foo:\n * @p: (in\n * out)\n */', '/**\n * foo: (copy-func)\n */',
              '/**\n * foo:\n * @p: (in)\n *   (foo)\n */', '/**\n * foo:\n *\n * Rename to: a b\n */',
              '/**\n * foo: ( )\n */', '/**\n * foo:\n * @p: (\t)\n */', '/**\n * foo:\n *\n * Returns: (  )\n */',
              '/**\n * foo:\n * @p:\n *   ( )\n */', '/**\n * foo:\n *   ( ) (skip)\n */', '/**\n * foo: (skip) ( )\n */',
              '/**\n * foo: (\xa0)\n */', '/**\n * foo: (( ))\n */', '/**\n * foo: ()\n */']


def mutate_block_text(rng, text):
    """grammar-aware mutation of a rendered block: line operations and character operations"""
    eol = '\r\n' if '\r\n' in text else ('\r' if '\r' in text else '\n')
    lines = LINE_BREAK.split(text)
    k = rng.random()
    if k < 0.14 and len(lines) > 2:            # duplicate a line (duplicate parameter / tag)
        i = rng.randint(1, len(lines) - 2)
        lines.insert(rng.randint(1, len(lines) - 1), lines[i])
    elif k < 0.24 and len(lines) > 2:          # delete a line
        del lines[rng.randint(0, len(lines) - 1)]
    elif k < 0.32 and len(lines) > 3:          # swap two lines
        i, j = rng.randint(1, len(lines) - 2), rng.randint(1, len(lines) - 2)
        lines[i], lines[j] = lines[j], lines[i]
    elif k < 0.50:                             # insert a deprecated / odd line
        pre = rng.choice([' * ', ' * ', '* ', ' *', '', '   * ', ' *\t'])
        lines.insert(rng.randint(1, max(1, len(lines) - 1)), pre + rng.choice(DEPRECATED_LINES))
    elif k < 0.58:                             # exotic line separator inside a line
        i = rng.randint(0, len(lines) - 1)
        j = rng.randint(0, len(lines[i]))
        lines[i] = lines[i][:j] + rng.choice(['\x0b', '\x0c', '\x1c', '\x1d', '\x1e', '\x85', '\u2028', '\u2029']) + lines[i][j:]
    elif k < 0.64:                             # text next to the delimiters
        if rng.random() < 0.5:
            lines[0] = rng.choice(['int x; ', 'x', '']) + lines[0] + rng.choice([' foo:', ' text', ''])
        else:
            lines[-1] = rng.choice(['text ', '']) + lines[-1] + rng.choice([' int y;', ' x', ''])
    else:                                      # character level
        i = rng.randint(0, len(lines) - 1)
        lines[i] = ac.mutate_text(rng, lines[i], extra='@')
    return eol.join(lines)


def gen_text(rng, impl, voc, xml):
    r = rng.random()
    if r < 0.55:
        m = ac.gen_block_model(rng, impl, voc)
        t = ac.render_block(m, ac.gen_layout(rng))
        for _ in range(rng.choice([0, 1, 1, 2, 2, 3, 5])):
            t = mutate_block_text(rng, t)
        return t
    if r < 0.75 and xml:
        t = rng.choice(xml)['input']
        for _ in range(rng.choice([0, 0, 1, 2])):
            t = mutate_block_text(rng, t)
        return t
    if r < 0.85:
        t = rng.choice(DEGENERATE)
        for _ in range(rng.choice([0, 0, 1])):
            t = mutate_block_text(rng, t)
        return t
    # noise
    alpha = '/**\n * @:()<>= \t\rabR.|-' + 'é\u2028\x0b\xa0'
    return ''.join(rng.choice(alpha) for _ in range(rng.randint(0, 60)))


# ---------------------------------------------------------------- oracles from the statement
def source_lines(text):
    return LINE_BREAK.sub('\n', text).split('\n')


def opening_alone(text):
    return source_lines(text)[0].strip() == '/**'


def is_deprecated_ann_tag_line(impl, line):
    """a deprecated tag-style annotation (`Rename to:`, `Attributes:`, ...)"""
    try:
        s = line
        m = impl.ap.COMMENT_ASTERISK_RE.match(s)
        if m:
            s = s[m.end(0):]
        m = impl.ap.TAG_RE.match(s)
        return bool(m) and m.group('tag_name').lower() in impl.ap.DEPRECATED_GI_ANN_TAGS
    except Exception:  # noqa
        return False


def end_comment(impl, line):
    try:
        m = impl.ap.COMMENT_BLOCK_END_RE.match(line)
        return m.group('comment') if m else None
    except Exception:  # noqa
        return None


def check_diagnostics(ctx, impl, cnt, text, filename, lineno, recs):
    """every diagnostic names the file and the 1-based line of the offending text; a quoted
    line is that source line and the caret lies within it"""
    lines = source_lines(text)
    alone = opening_alone(text)
    for r in recs:
        kind = ac.kind_of(r['text'])
        pos = r['positions']
        if not pos:
            ctx.report_failure('noposition:' + json.dumps([text, r['text']]),
                               'diagnostic %r names no file/line for %r' % (r['text'], text),
                               {'kind': 'text', 'text': text, 'lineno': lineno, 'diagnostic': r})
            continue
        fn, ln, _col = pos[-1]
        if fn != filename or not isinstance(ln, int):
            ctx.report_failure('file:' + json.dumps([text, r['text']]), 'diagnostic %r names %r:%r, not the file %r'
                               % (r['text'], fn, ln, filename), {'kind': 'text', 'text': text, 'lineno': lineno})
            continue
        if not alone:
            cnt.hit('diag:outside(text-next-to-opening-token)')
            continue
        idx = ln - lineno
        if not (0 <= idx < len(lines)):
            ctx.report_failure('line:' + json.dumps([text, r['text']]),
                               'diagnostic %r names line %d, outside the block (lines %d..%d)'
                               % (r['text'], ln, lineno, lineno + len(lines) - 1),
                               {'kind': 'text', 'text': text, 'lineno': lineno, 'diagnostic': r})
            continue
        src = lines[idx]
        cnt.hit('diag:judged:' + ('validate' if kind in ac.VALIDATE_KINDS else kind))
        if r['marker_line'] is not None:
            if is_deprecated_ann_tag_line(impl, src):
                # deprecated tag-style annotation: the caret clause is outside the statement;
                # the quoted text must still come from that line
                cnt.hit('diag:outside-caret(deprecated-tag-annotation)')
                if not src.endswith(r['marker_line']) and r['marker_line'] != src:
                    ctx.report_failure('line:' + json.dumps([text, r['text']]),
                                       'diagnostic %r (line %d) quotes %r which is not on source line %r'
                                       % (r['text'], ln, r['marker_line'], src),
                                       {'kind': 'text', 'text': text, 'lineno': lineno, 'diagnostic': r})
                continue
            if r['marker_line'] != src:
                ctx.report_failure('line:' + json.dumps([text, r['text']]),
                                   'diagnostic %r names line %d but quotes %r; that line of the source is %r'
                                   % (r['text'], ln, r['marker_line'], src),
                                   {'kind': 'text', 'text': text, 'lineno': lineno, 'diagnostic': r})
            elif r['marker_pos'] is None or not (0 <= r['marker_pos'] <= len(src)):
                ctx.report_failure('caret:' + json.dumps([text, r['text']]),
                                   'diagnostic %r: caret at %r outside the quoted line %r (length %d)'
                                   % (r['text'], r['marker_pos'], src, len(src)),
                                   {'kind': 'text', 'text': text, 'lineno': lineno, 'diagnostic': r})
        else:
            bad = False
            if kind in ('multipleReturnsParam', 'multipleReturnsTag'):
                bad = 'return' not in src.lower()
            elif kind == 'tagAnnotationsUnsupported':
                bad = ':' not in src
            elif kind in ac.VALIDATE_KINDS:
                bad = not any(ch in src for ch in '(:')
            if bad:
                ctx.report_failure('line:' + json.dumps([text, r['text']]),
                                   'diagnostic %r names line %d (%r) where the offending text does not stand'
                                   % (r['text'], ln, src), {'kind': 'text', 'text': text, 'lineno': lineno, 'diagnostic': r})


def identifier_pending(impl, lines, i):
    """no identifier has been accepted on the lines before source line `i`: then the tokenizer call that
    rejected line `i` was the one for the identifier's annotation field (the only one made while there is no
    block yet).  Decided by the real parser on the block cut off before that line."""
    if i <= 1:
        return True
    b, _i, _r, exc = ac.parse_real(impl, '\n'.join(lines[:i] + [' */']))
    return exc is None and b is None


def neutralised(impl, text, lineno, diag_line):
    """the same block with the annotation field of source line `diag_line` taken out: on a
    part's first line (the identifier line, wherever it stands, a parameter or a tag line) the field is
    cut off, on a continuation line parentheses become text"""
    eolm = LINE_BREAK.search(text)
    eol = eolm.group(0) if eolm else '\n'
    lines = source_lines(text)
    i = diag_line - lineno
    src = lines[i]
    ap = impl.ap
    off = 0
    m = ap.COMMENT_ASTERISK_RE.match(src)
    if m:
        off = m.end(0)
    rest = src[off:]
    cut = None
    for name in ('PARAMETER_RE', 'TAG_RE'):
        mm = getattr(ap, name).match(rest)
        if mm:
            cut = mm.start('fields')
            break
    if cut is None and identifier_pending(impl, lines, i):
        for name in ('PROPERTY_RE', 'SIGNAL_RE', 'FIELD_RE', 'SYMBOL_RE'):
            mm = getattr(ap, name).match(rest)
            if mm:
                cut = mm.start('fields')
                break
    if cut is not None:
        lines[i] = src[:off + cut]
    else:
        lines[i] = src[:off] + rest.replace('(', '_').replace(')', '_')
    return eol.join(lines)


def part_annotations(b):
    if b is None:
        return None
    return {'id': [b['name'], b['annotations']], 'params': [[p[0], p[1]] for p in b['params']],
            'tags': [[t[0], t[1]] for t in b['tags']]}


def check_atomic(ctx, impl, cnt, text, filename, lineno, b, recs):
    """a malformed annotation field is ignored, not half-applied: the annotations of every
    part equal those of the same block with that field taken out"""
    if b is None or not opening_alone(text):
        return
    lines = source_lines(text)
    for r in recs:
        if ac.kind_of(r['text']) not in PAREN_KINDS or not r['positions']:
            continue
        ln = r['positions'][-1][1]
        if not (1 <= ln - lineno < len(lines)) or is_deprecated_ann_tag_line(impl, lines[ln - lineno]):
            cnt.hit('atomic:outside')
            continue
        try:
            t2 = neutralised(impl, text, lineno, ln)
        except Exception:  # noqa
            cnt.hit('atomic:outside')
            continue
        b2, _i, _r, exc = ac.parse_real(impl, t2, filename, lineno)
        if exc is not None or b2 is None:
            cnt.hit('atomic:outside')
            continue
        a1, a2 = part_annotations(b), part_annotations(b2)
        if [p[0] for p in a1['params']] != [p[0] for p in a2['params']] or \
                [t[0] for t in a1['tags']] != [t[0] for t in a2['tags']] or a1['id'][0] != a2['id'][0]:
            cnt.hit('atomic:outside')
            continue
        cnt.hit('atomic:judged')
        if a1 != a2:
            ctx.report_failure('atomic:' + json.dumps(text),
                               'a rejected annotation field (line %d) left annotations behind: %r, without that field: %r'
                               % (ln, a1, a2), {'kind': 'text', 'text': text, 'lineno': lineno})
        return


def check_text(ctx, impl, cnt, text, filename, lineno, survivors):
    """all statement oracles for one comment text"""
    b, _ind, recs, exc = ac.parse_real(impl, text, filename, lineno)
    count = impl.logger._real.get_warning_count()
    verdict = 'block' if b is not None else 'none'
    if exc is not None:
        verdict = 'raised'
        ctx.report_failure('raise:' + json.dumps(text), 'parse_comment_block raised %r for %r' % (exc, text),
                           {'kind': 'text', 'text': text, 'lineno': lineno})
    for r in recs:
        cnt.hit('kind:' + ac.kind_of(r['text']))
    check_diagnostics(ctx, impl, cnt, text, filename, lineno, recs)
    if exc is None:
        check_atomic(ctx, impl, cnt, text, filename, lineno, b, recs)
    # the other blocks survive, whatever this one does; parse_comment_blocks never raises
    (ta, ba), (tb, bb) = survivors
    impl.take()
    try:
        blocks = impl.parser.parse_comment_blocks([(ta, 'a.c', 5), (text, filename, lineno), (tb, 'b.c', 9)])
        recs2 = impl.take()
        got_a, got_b = ac.block_to_json(blocks.get(ba['name'])), ac.block_to_json(blocks.get(bb['name']))
        if got_a != ba or got_b != bb:
            ctx.report_failure('survive:' + json.dumps(text), 'a neighbouring block was lost or changed by %r: %r %r'
                               % (text, got_a, got_b), {'kind': 'text', 'text': text, 'lineno': lineno})
        if exc is not None:
            un = [r for r in recs2 if ac.kind_of(r['text']) == 'unrecoverable']
            if len(un) != 1 or un[0]['positions'][-1][:2] != (filename, lineno):
                ctx.report_failure('catchall:' + json.dumps(text), 'the catch-all did not report the internal error at '
                                   '%s:%d: %r' % (filename, lineno, un), {'kind': 'text', 'text': text, 'lineno': lineno})
    except Exception as e:  # noqa
        impl.take()
        ctx.report_failure('raise-blocks:' + json.dumps(text), 'parse_comment_blocks raised %r for %r' % (e, text),
                           {'kind': 'text', 'text': text, 'lineno': lineno})
    return verdict, len(recs), count


def check_counting(ctx, impl, cnt, text, filename, lineno):
    """every diagnostic is counted whether or not its display is enabled"""
    out = []
    for enable in (True, False):
        lg = impl.fresh_logger(enable)
        try:
            impl.parser.parse_comment_block(text, filename, lineno)
        except Exception:  # noqa
            pass
        out.append((len(lg.records), lg._real.get_warning_count(), lg._real._output.getvalue(),
                    [r['text'] for r in lg.records]))
    impl.fresh_logger(True)
    (n1, c1, o1, t1), (n0, c0, o0, t0) = out
    cnt.hit('count:judged')
    if not (n1 == c1 == n0 == c0) or t1 != t0 or o0 != '' or (n1 > 0) != bool(o1):
        ctx.report_failure('count:' + json.dumps(text),
                           'counting depends on display: enabled (%d logged, count %d, output %d chars), suppressed '
                           '(%d logged, count %d, output %r)' % (n1, c1, len(o1), n0, c0, o0[:80]),
                           {'kind': 'text', 'text': text, 'lineno': lineno})
    return c1


def check_message_log(ctx, impl, cnt, rng, n):
    """model of MessageLogger.log vs the real class: count and number of messages written"""
    msg = impl.message
    seqs = []
    for _ in range(n):
        seqs.append({'enable': rng.random() < 0.5, 'types': [rng.choice(['warning', 'warning', 'error']) for _ in
                                                             range(rng.randint(0, 8))]})
    res = ctx.driver.batch([dict(op='c11.log.run', **s) for s in seqs])
    nd = 0
    for s, m in zip(seqs, res):
        out = io.StringIO()
        lg = msg.MessageLogger(namespace=None, output=out)
        lg.enable_warnings(s['enable'])
        for t in s['types']:
            lg.log(msg.WARNING if t == 'warning' else msg.ERROR, 'text', msg.Position('f.c', 3))
        r = {'count': lg.get_warning_count(), 'written': out.getvalue().count('f.c:3'),
             'warn_fatal_fails': lg.get_warning_count() > 0}
        cnt.hit('log:run')
        if r != m:
            nd += 1
            if nd <= 3:
                ctx.broken.append('correspondence c11.log.run differs: %r impl=%r model=%r' % (s, r, m))
        # the statement, on the real class
        if r['count'] != len(s['types']):
            ctx.report_failure('logcount:' + json.dumps(s), 'MessageLogger counted %d of %d log calls (enable=%r)'
                               % (r['count'], len(s['types']), s['enable']), {'kind': 'log', 'seq': s})
    # FATAL
    lg = msg.MessageLogger(namespace=None, output=io.StringIO())
    try:
        lg.log(msg.FATAL, 'x')
        ctx.report_failure('fatal', 'FATAL did not stop the run', {'kind': 'log'})
    except SystemExit:
        pass
    # the decision in scanner_main is read from the source
    try:
        with open(os.path.join(ac.REPO, 'giscanner', 'scannermain.py')) as f:
            src = f.read()
        ok = re.search(r'warning_count\s*=\s*logger\.get_warning_count\(\)\s*\n\s*if options\.warn_fatal and warning_count > 0:'
                       r'\s*\n\s*message\.fatal\(', src) is not None
        cnt.hit('log:scanner_main-decision-' + ('as-modelled' if ok else 'CHANGED'))
        if not ok:
            ctx.broken.append('correspondence c11.warn_fatal: the decision in scanner_main no longer reads '
                              '"warn_fatal and warning_count > 0 -> fatal"')
    except OSError:
        ctx.broken.append('correspondence c11.warn_fatal: giscanner/scannermain.py not readable')
    return nd


def run(ctx):
    cnt = Counter()
    ac.install_pending(ctx)
    ctx.prove(['gen_pyclasses', 'gen_annvocab', 'gen_anncase'], ['GIVerif.Props.C11'], 'GIVerif.Props.C11')
    ctx.log('proofs checked')
    impl = ac.Impl()
    voc = ac.vocab(impl.ap)
    rng = ctx.rng
    corpus = load_corpus()
    xml = ac.load_xml_inputs()
    samples = []

    # ---- layer 1 on arbitrary strings (malformed-heavy), model vs real
    l1 = [c['case'] for c in corpus if c.get('kind') == 'field']
    while len(l1) < ctx.n(5000, 200000):
        c = ac.gen_l1_case(rng, voc, malformed=0.35)
        for _ in range(rng.choice([0, 1, 2])):
            c['fields'] = ac.mutate_text(rng, c['fields'])
        l1.append(c)
    nd1 = ac.check_layer1(ctx, impl, cnt, 'c11', l1, [ac.gen_wf_anns(rng, voc) for _ in range(200)])
    samples.append({'layer': 1, 'case': l1[-1]})
    ctx.log('layer 1 done')

    # ---- layer 2
    lcases = []
    for _ in range(ctx.n(600, 15000)):
        l = ac.gen_line(rng)
        lcases.extend((n, l) for n in ac.PATTERN_NAMES)
    nd2, nl2 = ac.check_matchers(ctx, impl, cnt, 'c11', lcases)

    # ---- message log
    nd3 = check_message_log(ctx, impl, cnt, rng, ctx.n(300, 5000))
    ctx.log('layer 2 + message log done')

    # ---- block level: statement oracles on the real parser, arbitrary strings
    good_a = '/**\n * giverif_survivor_a: (skip)\n * @x: (in): first\n *\n * Text.\n *\n * Returns: (transfer none): r\n */'
    good_b = '/**\n * GiverifSurvivor::b-signal:\n * @y: second\n *\n * Since: 2.0\n */'
    ba = ac.parse_real(impl, good_a, 'a.c', 5)[0]
    bb = ac.parse_real(impl, good_b, 'b.c', 9)[0]
    survivors = ((good_a, ba), (good_b, bb))
    texts = [(c['text'], c.get('lineno', 1)) for c in corpus if c.get('kind') == 'text']
    texts += [(t, 1) for t in DEGENERATE]
    texts += [(x['input'], 1) for x in xml]
    n_texts = ctx.n(2500, 120000)
    while len(texts) < n_texts:
        texts.append((gen_text(rng, impl, voc, xml), rng.choice([1, 1, 7, 100, 4321])))
    verdicts = Counter()
    ncount = 0
    for i, (t, ln) in enumerate(texts):
        fn = '/src/dir/file.c'
        v, nrec, _c = check_text(ctx, impl, cnt, t, fn, ln, survivors)
        verdicts.hit(v)
        verdicts.hit('diags=%s' % (nrec if nrec < 3 else '3+'))
        cnt.case(['t', t], nontrivial=nrec > 0 or v == 'block')
        if i % 4 == 0 or nrec > 0 and i % 2 == 0:
            check_counting(ctx, impl, cnt, t, fn, ln)
            ncount += 1
    samples.append({'layer': 'block', 'text': texts[-1][0], 'lineno': texts[-1][1]})
    ctx.log('block level done')

    # ---- layer 3: the block state machine (every diagnostic with line, caret and quoted line), model vs real
    nd4, nb4 = ac.check_blocks(ctx, impl, cnt, 'c11', texts)
    ctx.log('block model correspondence done')

    dist = dict(cnt.counts)
    dist.update({'verdict:' + k: v for k, v in verdicts.counts.items()})
    ctx.coverage.update({
        'evaluations': len(l1) + nl2 + len(texts) + ncount + cnt.counts.get('log:run', 0) + nb4,
        'distinct_nontrivial': cnt.n_distinct(),
        'rule': 'seeded generators. Tokenizer: annotation fields from the vocabulary with 0-5 mutations (unbalanced / '
                'nested parentheses, <> forms, in-out/attribute, "=", upper case, Unicode spaces, non-ASCII) plus pure '
                'noise; non-trivial = contains a parenthesis. Blocks: rendered well-formed block models and the '
                'repo\'s XML test inputs with 0-5 grammar-aware mutations (duplicate / delete / swap lines, deprecated tag '
                'and parameter forms, stray colons, exotic line separators, text next to the delimiters, character edits), '
                'degenerate and one-line blocks, byte noise; non-trivial = a block was returned or something was '
                'diagnosed. Distinct by content hash. Every text: the statement oracles on the real parser; every 2nd-4th '
                'text additionally parsed with display enabled and suppressed.',
        'samples': samples,
        'distribution': dist,
        'corpus_cases': len(corpus),
        'xml_test_inputs': len(xml),
        'correspondence_disagreements': {'layer1': nd1, 'layer2': nd2, 'message_log': nd3, 'layer3': nd4},
        'layers': {'1 tokenizer': 'modelled, proved (C11_ann_total, C11_atomic_annotations, C11_caret, ...), corresponded',
                   '2 line matchers': 'modelled, corresponded',
                   'message log': 'modelled, proved (C11_count, C11_warn_fatal), corresponded',
                   '3 block state machine': 'modelled (parseBlock), proved total (C11_block_total) with line numbers '
                   '(C11_line_step, C11_line incl. the positions validate() reports), corresponded (block tree with every '
                   'annotations.position + every diagnostic) on every text',
                   'validate()': 'len(options) total (C11_validate_len), reported positions modelled (validatePositions, C11_line); '
                   'its message texts are validated on the real code by the statement oracles'},
        'exhaustive': False,
    })
    ctx.assumptions.extend([
        'block level: never-raises and line numbers are proved for the model of the state machine (without validate()) '
        'and the model is compared with the real parser on every text; quoted line / caret at block level, validate() '
        'diagnostics and survival of other blocks are validated on the real parser for generated strings, not proved',
        'a "line" is what the parser itself separates: \\r\\n, \\r or \\n; the line clause is judged only when the '
        'opening token stands alone on its line, the caret clause only outside deprecated tag-style annotation lines '
        '(for those: the quoted text must come from that line)',
        'a caret position equal to the length of the quoted line (pointing just behind its last character) counts as '
        'within the line',
        'diagnostics without quoted line: the named line must lie inside the block and carry the kind of text the '
        'message talks about; validate() diagnostics are attributed to the line where the part\'s annotations start',
        'scanner_main is not run (needs a compiler); its warn_fatal decision is pattern-checked in the source and '
        'modelled as `warn_fatal && count > 0`',
        'str.lower() character-wise (no final-sigma rule) in the model',
    ])


def replay(ctx, rep):
    ac.install_pending(ctx)
    impl = ac.Impl()
    cnt = Counter()
    r = rep['replay']
    if r['kind'] == 'text':
        good_a = '/**\n * giverif_survivor_a:\n */'
        good_b = '/**\n * giverif_survivor_b:\n */'
        survivors = ((good_a, ac.parse_real(impl, good_a, 'a.c', 5)[0]), (good_b, ac.parse_real(impl, good_b, 'b.c', 9)[0]))
        ln = r.get('lineno', 1)
        b, _i, recs, exc = ac.parse_real(impl, r['text'], '/src/dir/file.c', ln)
        print('block:', b)
        print('exception:', repr(exc))
        for d in recs:
            print('diag:', d)
        check_text(ctx, impl, cnt, r['text'], '/src/dir/file.c', ln, survivors)
        check_counting(ctx, impl, cnt, r['text'], '/src/dir/file.c', ln)
    for v in ctx.violations:
        print('VIOLATION:', v['what'][:1000])
    for h in ctx.known_hits:
        print('KNOWN:', h['key'])
    return 1 if ctx.violations or ctx.known_hits else 0
