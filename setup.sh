#!/bin/sh
# Build the framework offline: generated tables, the Lean proofs and the compiled model
# driver of every property claimed in MANIFEST.json.  Checks re-run their own translators
# and `lake build` (a no-op when nothing changed) on every invocation.
here=$(cd "$(dirname "$0")" && pwd)
export PYTHONDONTWRITEBYTECODE=1
cd "$here/translators"
for t in gen_*.py; do
  GIVERIF_REPO=/repo PYTHONPATH=/repo /venv/bin/python "$t" || echo "setup: translator $t failed (its check will report it)"
done
cd "$here/lean"
props=$(/venv/bin/python -c "
import json
m = json.load(open('$here/MANIFEST.json'))
print(' '.join(c['property_id'] for c in m['checks']))")
status=0
for p in $props; do
  low=$(echo "$p" | tr 'A-Z' 'a-z')
  lake build "GIVerif.Props.$p" "gidriver_$low" || { echo "setup: build for $p failed"; status=1; }
done
exit $status
