#!/bin/sh
# Build the framework offline: the Lean library (all models, lemmas, property theorems)
# and the compiled model driver.  Generated tables are refreshed first so that the build
# matches /repo's current tree.
set -e
here=$(cd "$(dirname "$0")" && pwd)
export PYTHONDONTWRITEBYTECODE=1
cd "$here/translators"
for t in gen_*.py; do
  GIVERIF_REPO=/repo PYTHONPATH=/repo /venv/bin/python "$t"
done
cd "$here/lean"
targets="GIVerif"
for f in Driver/C*.lean; do
  n=$(basename "$f" .lean | tr 'A-Z' 'a-z')
  targets="$targets gidriver_$n"
done
lake build $targets
