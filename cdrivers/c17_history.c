/* C17: execute ONE history of repository calls through the PUBLIC girepository API in a
   fresh process (the typelib search path is process-global) and print one canonical
   result line per call.

   usage: c17_history <history-file>      ("-" = stdin)
   GI_TYPELIB_PATH is taken from the environment of the process (set by the harness).

   history lines (tokens separated by one space; "-" stands for NULL):
     prepend <dir>
     require <ns> <version|-> <flags>
     require_private <dir> <ns> <version|-> <flags>
     load <file> <flags>            g_typelib_new_from_memory + g_irepository_load_typelib
     loaded                         g_irepository_get_loaded_namespaces
     version <ns> | path <ns> | ideps <ns> | deps <ns> | versions <ns>
     is_registered <ns> <version|->
     search_path

   output lines:  "<index> ok <typelib-id> <namespace> [<version>] <path>"
                                                            (require*, id = order of first return;
                                                             version/path as reported right after)
                  "<index> ok <namespace>"                 (load)
                  "<index> err <domain-ok> <code>"
                  "<index> val <string|NULL>"
                  "<index> list <n> <item>..."             (order as returned by the library)
   A final line "end" is printed when the history ran to completion (absence = abort/crash).
*/
#include <stdio.h>
#include <stdlib.h>
#include <string.h>
#include <girepository.h>

#define MAXTOK 8
#define MAXTL 256

static GITypelib *seen[MAXTL];
static int n_seen = 0;

static int typelib_id (GITypelib *t)
{
  for (int i = 0; i < n_seen; i++)
    if (seen[i] == t)
      return i;
  if (n_seen < MAXTL)
    seen[n_seen] = t;
  return n_seen++;
}

static const char *nul (const char *s)
{
  return (s[0] == '-' && s[1] == 0) ? NULL : s;
}

static void print_error (int idx, GError *error)
{
  if (error == NULL)
    {
      printf ("%d err noerror -1\n", idx);
      return;
    }
  printf ("%d err %d %d\n", idx, error->domain == G_IREPOSITORY_ERROR ? 1 : 0, error->code);
  g_error_free (error);
}

/* a successfully required typelib: identity, namespace, and what the repository reports
   for that namespace right after the call (version, path) */
static void print_typelib (int idx, GIRepository *repo, GITypelib *t)
{
  const char *ns = g_typelib_get_namespace (t);
  const char *v = g_irepository_is_registered (repo, ns, NULL) ? g_irepository_get_version (repo, ns) : NULL;
  const char *p = g_irepository_get_typelib_path (repo, ns);
  printf ("%d ok %d %s [%s] %s\n", idx, typelib_id (t), ns, v ? v : "NULL", p ? p : "NULL");
}

static void print_strv (int idx, char **v)
{
  int n = 0;
  if (v == NULL)
    {
      printf ("%d val NULL\n", idx);
      return;
    }
  while (v[n])
    n++;
  printf ("%d list %d", idx, n);
  for (int i = 0; i < n; i++)
    printf (" %s", v[i]);
  printf ("\n");
  g_strfreev (v);
}

int main (int argc, char **argv)
{
  FILE *in = stdin;
  char line[8192];
  int idx = 0;
  GIRepository *repo;

  if (argc > 1 && strcmp (argv[1], "-") != 0)
    {
      in = fopen (argv[1], "r");
      if (!in)
        {
          perror ("open history");
          return 2;
        }
    }
  setvbuf (stdout, NULL, _IOLBF, 0);
  repo = NULL;   /* every call uses the process-global default repository */

  while (fgets (line, sizeof line, in))
    {
      char *tok[MAXTOK];
      int nt = 0;
      char *p = line;
      size_t l = strlen (line);
      while (l > 0 && (line[l - 1] == '\n' || line[l - 1] == '\r'))
        line[--l] = 0;
      if (l == 0)
        continue;
      while (nt < MAXTOK && p)
        {
          tok[nt++] = p;
          p = strchr (p, ' ');
          if (p)
            *p++ = 0;
        }
      if (!strcmp (tok[0], "prepend") && nt == 2)
        {
          g_irepository_prepend_search_path (tok[1]);
          printf ("%d val done\n", idx);
        }
      else if (!strcmp (tok[0], "require") && nt == 4)
        {
          GError *error = NULL;
          GITypelib *t = g_irepository_require (repo, tok[1], nul (tok[2]), atoi (tok[3]), &error);
          if (t)
            print_typelib (idx, repo, t);
          else
            print_error (idx, error);
        }
      else if (!strcmp (tok[0], "require_private") && nt == 5)
        {
          GError *error = NULL;
          GITypelib *t = g_irepository_require_private (repo, tok[1], tok[2], nul (tok[3]), atoi (tok[4]), &error);
          if (t)
            print_typelib (idx, repo, t);
          else
            print_error (idx, error);
        }
      else if (!strcmp (tok[0], "load") && nt == 3)
        {
          GError *error = NULL;
          gchar *contents = NULL;
          gsize len = 0;
          if (!g_file_get_contents (tok[1], &contents, &len, &error))
            {
              printf ("%d err readfail -1\n", idx);
              g_clear_error (&error);
            }
          else
            {
              GITypelib *t = g_typelib_new_from_memory ((guint8 *) contents, len, &error);
              if (!t)
                {
                  printf ("%d err invalid -1\n", idx);
                  g_clear_error (&error);
                }
              else
                {
                  const char *ns = g_irepository_load_typelib (repo, t, atoi (tok[2]), &error);
                  if (ns)
                    printf ("%d ok %s\n", idx, ns);
                  else
                    print_error (idx, error);
                  /* a typelib that was not registered is leaked on purpose: the API does not
                     say who owns it after a failed load and freeing it is not part of C17 */
                }
            }
        }
      else if (!strcmp (tok[0], "loaded") && nt == 1)
        print_strv (idx, g_irepository_get_loaded_namespaces (repo));
      else if (!strcmp (tok[0], "version") && nt == 2)
        {
          const char *v = g_irepository_is_registered (repo, tok[1], NULL) ? g_irepository_get_version (repo, tok[1]) : NULL;
          printf ("%d val %s\n", idx, v ? v : "NULL");
        }
      else if (!strcmp (tok[0], "path") && nt == 2)
        {
          const char *v = g_irepository_get_typelib_path (repo, tok[1]);
          printf ("%d val %s\n", idx, v ? v : "NULL");
        }
      else if (!strcmp (tok[0], "ideps") && nt == 2)
        {
          if (g_irepository_is_registered (repo, tok[1], NULL))
            print_strv (idx, g_irepository_get_immediate_dependencies (repo, tok[1]));
          else
            printf ("%d val NULL\n", idx);
        }
      else if (!strcmp (tok[0], "deps") && nt == 2)
        {
          if (g_irepository_is_registered (repo, tok[1], NULL))
            print_strv (idx, g_irepository_get_dependencies (repo, tok[1]));
          else
            printf ("%d val NULL\n", idx);
        }
      else if (!strcmp (tok[0], "versions") && nt == 2)
        {
          GList *vs = g_irepository_enumerate_versions (repo, tok[1]);
          int n = g_list_length (vs);
          printf ("%d list %d", idx, n);
          for (GList *k = vs; k; k = k->next)
            printf (" [%s]", (char *) k->data);
          printf ("\n");
          g_list_free_full (vs, g_free);
        }
      else if (!strcmp (tok[0], "is_registered") && nt == 3)
        printf ("%d val %s\n", idx, g_irepository_is_registered (repo, tok[1], nul (tok[2])) ? "true" : "false");
      else if (!strcmp (tok[0], "search_path") && nt == 1)
        {
          GSList *sp;
          int n;
          g_irepository_get_default ();   /* init_globals */
          sp = g_irepository_get_search_path ();
          n = g_slist_length (sp);
          printf ("%d list %d", idx, n);
          for (GSList *k = sp; k; k = k->next)
            printf (" %s", (char *) k->data);
          printf ("\n");
        }
      else
        {
          printf ("%d err badcommand -1\n", idx);
          return 2;
        }
      idx++;
    }
  printf ("end\n");
  return 0;
}
