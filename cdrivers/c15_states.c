/* C15 state tracer: runs /repo's REAL GIR parser (girepository/girparser.c, included here
   as a translation unit so that its static handlers and ParseContext are visible) on a GIR
   file and prints the parser state after every start / end element event of that file:

     S|E <TAB> element <TAB> state <TAB> prev_state <TAB> unknown_depth <TAB> node-stack depth

   The handlers called are the unmodified start_element_handler / end_element_handler; the
   only change is that the (static, writable) GMarkupParser table points at two wrappers that
   call them and then print.  Linked WITHOUT girparser.o (see harness/c15.py).

   usage: c15_states <file.gir> <includedir>...                                              */
#include "girparser.c"
#include <stdio.h>

static const char *main_path;

static void
wrap_start (GMarkupParseContext *context, const gchar *element_name, const gchar **attribute_names,
            const gchar **attribute_values, gpointer user_data, GError **error)
{
  ParseContext *ctx = user_data;
  start_element_handler (context, element_name, attribute_names, attribute_values, user_data, error);
  if (ctx->file_path && strcmp (ctx->file_path, main_path) == 0)
    printf ("S\t%s\t%d\t%d\t%d\t%u\n", element_name, (int) ctx->state, (int) ctx->prev_state, ctx->unknown_depth,
            g_slist_length (ctx->node_stack));
  fflush (stdout);
}

static void
wrap_end (GMarkupParseContext *context, const gchar *element_name, gpointer user_data, GError **error)
{
  ParseContext *ctx = user_data;
  end_element_handler (context, element_name, user_data, error);
  if (ctx->file_path && strcmp (ctx->file_path, main_path) == 0)
    printf ("E\t%s\t%d\t%d\t%d\t%u\n", element_name, (int) ctx->state, (int) ctx->prev_state, ctx->unknown_depth,
            g_slist_length (ctx->node_stack));
  fflush (stdout);
}

int
main (int argc, char **argv)
{
  GError *error = NULL;
  GIrParser *parser;
  GIrModule *module;

  if (argc < 2)
    return 2;
  main_path = argv[1];
  markup_parser.start_element = wrap_start;
  markup_parser.end_element = wrap_end;
  parser = _g_ir_parser_new ();
  _g_ir_parser_set_includes (parser, (const gchar *const *) (argv + 2));
  module = _g_ir_parser_parse_file (parser, argv[1], &error);
  printf ("R\t%s\n", module ? "ok" : (error ? error->message : "failed"));
  return module ? 0 : 1;
}
