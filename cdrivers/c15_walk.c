/* C15 typelib walker: validate a compiled typelib, load it through the public
   repository API and print everything it exposes (kinds, names, flags) as one JSON
   document on stdout.  Everything is read through the public GI*Info accessors of
   /repo's girepository, built this run; g_typelib_validate is the only internal entry.

   usage: c15_walk <typelib-file> <Namespace> <searchdir>...                          */
#include <stdio.h>
#include <string.h>
#include <girepository.h>
#include "gitypelib-internal.h"
#include "girepository-private.h"

static void jstr (const char *s)
{
  if (!s) { fputs ("null", stdout); return; }
  putchar ('"');
  for (const unsigned char *p = (const unsigned char *) s; *p; p++)
    {
      if (*p == '"' || *p == '\\') { putchar ('\\'); putchar (*p); }
      else if (*p < 0x20) printf ("\\u%04x", *p);
      else putchar (*p);
    }
  putchar ('"');
}
static void key (const char *k) { jstr (k); putchar (':'); }
static void kb (const char *k, int v) { key (k); fputs (v ? "true" : "false", stdout); putchar (','); }
static void ki (const char *k, long long v) { key (k); printf ("%lld,", v); }
static void ks (const char *k, const char *v) { key (k); jstr (v); putchar (','); }
static void endobj (void) { fputs ("\"_\":0}", stdout); }

static const char *transfer_name (GITransfer t)
{
  switch (t) { case GI_TRANSFER_NOTHING: return "none"; case GI_TRANSFER_CONTAINER: return "container";
    case GI_TRANSFER_EVERYTHING: return "full"; default: return "?"; }
}
static const char *scope_name (GIScopeType s)
{
  switch (s) { case GI_SCOPE_TYPE_INVALID: return "invalid"; case GI_SCOPE_TYPE_CALL: return "call";
    case GI_SCOPE_TYPE_ASYNC: return "async"; case GI_SCOPE_TYPE_NOTIFIED: return "notified";
    case GI_SCOPE_TYPE_FOREVER: return "forever"; default: return "?"; }
}
static const char *dir_name (GIDirection d)
{
  switch (d) { case GI_DIRECTION_IN: return "in"; case GI_DIRECTION_OUT: return "out";
    case GI_DIRECTION_INOUT: return "inout"; default: return "?"; }
}
static const char *info_kind (GIInfoType t)
{
  switch (t)
    {
    case GI_INFO_TYPE_FUNCTION: return "function"; case GI_INFO_TYPE_CALLBACK: return "callback";
    case GI_INFO_TYPE_STRUCT: return "struct"; case GI_INFO_TYPE_BOXED: return "boxed";
    case GI_INFO_TYPE_ENUM: return "enum"; case GI_INFO_TYPE_FLAGS: return "flags";
    case GI_INFO_TYPE_OBJECT: return "object"; case GI_INFO_TYPE_INTERFACE: return "interface";
    case GI_INFO_TYPE_CONSTANT: return "constant"; case GI_INFO_TYPE_UNION: return "union";
    case GI_INFO_TYPE_VALUE: return "value"; case GI_INFO_TYPE_SIGNAL: return "signal";
    case GI_INFO_TYPE_VFUNC: return "vfunc"; case GI_INFO_TYPE_PROPERTY: return "property";
    case GI_INFO_TYPE_FIELD: return "field"; case GI_INFO_TYPE_ARG: return "arg";
    case GI_INFO_TYPE_TYPE: return "type"; case GI_INFO_TYPE_UNRESOLVED: return "unresolved";
    default: return "invalid";
    }
}

static void emit_attrs (GIBaseInfo *info)
{
  GIAttributeIter it = { 0, };
  char *n, *v;
  key ("attributes"); putchar ('{');
  while (g_base_info_iterate_attributes (info, &it, &n, &v))
    { key (n); jstr (v); putchar (','); }
  endobj (); putchar (',');
}

static void emit_info (GIBaseInfo *info);

static void emit_type (GITypeInfo *ti)
{
  GITypeTag tag = g_type_info_get_tag (ti);
  putchar ('{');
  ks ("tag", g_type_tag_to_string (tag));
  kb ("pointer", g_type_info_is_pointer (ti));
  if (tag == GI_TYPE_TAG_INTERFACE)
    {
      GIBaseInfo *iface = g_type_info_get_interface (ti);
      if (iface)
        {
          GIInfoType it = g_base_info_get_type (iface);
          ks ("iface_kind", info_kind (it));
          ks ("iface_ns", g_base_info_get_namespace (iface));
          ks ("iface_name", g_base_info_get_name (iface));
          if (it == GI_INFO_TYPE_CALLBACK && g_base_info_get_name (iface) == NULL)
            { key ("anon_callback"); emit_info (iface); putchar (','); }
          g_base_info_unref (iface);
        }
      else
        ks ("iface_kind", "null");
    }
  else if (tag == GI_TYPE_TAG_ARRAY)
    {
      GITypeInfo *p = g_type_info_get_param_type (ti, 0);
      ki ("array_type", g_type_info_get_array_type (ti));
      kb ("zero_terminated", g_type_info_is_zero_terminated (ti));
      ki ("length", g_type_info_get_array_length (ti));
      ki ("fixed_size", g_type_info_get_array_fixed_size (ti));
      if (p) { key ("p0"); emit_type (p); putchar (','); g_base_info_unref (p); }
    }
  else if (tag == GI_TYPE_TAG_GLIST || tag == GI_TYPE_TAG_GSLIST || tag == GI_TYPE_TAG_GHASH)
    {
      GITypeInfo *p = g_type_info_get_param_type (ti, 0);
      if (p) { key ("p0"); emit_type (p); putchar (','); g_base_info_unref (p); }
      if (tag == GI_TYPE_TAG_GHASH)
        {
          p = g_type_info_get_param_type (ti, 1);
          if (p) { key ("p1"); emit_type (p); putchar (','); g_base_info_unref (p); }
        }
    }
  endobj ();
}

static void emit_callable (GICallableInfo *ci)
{
  int n = g_callable_info_get_n_args (ci);
  GITypeInfo *rt = g_callable_info_get_return_type (ci);
  kb ("can_throw", g_callable_info_can_throw_gerror (ci));
  kb ("is_method", g_callable_info_is_method (ci));
  ks ("instance_transfer", transfer_name (g_callable_info_get_instance_ownership_transfer (ci)));
  key ("ret"); putchar ('{');
  ks ("transfer", transfer_name (g_callable_info_get_caller_owns (ci)));
  kb ("nullable", g_callable_info_may_return_null (ci));
  kb ("skip", g_callable_info_skip_return (ci));
  {
    GIAttributeIter it = { 0, };
    char *an, *av;
    key ("attributes"); putchar ('{');
    while (g_callable_info_iterate_return_attributes (ci, &it, &an, &av))
      { key (an); jstr (av); putchar (','); }
    endobj (); putchar (',');
  }
  key ("type"); emit_type (rt); putchar (',');
  endobj (); putchar (',');
  g_base_info_unref (rt);
  key ("args"); putchar ('[');
  for (int i = 0; i < n; i++)
    {
      GIArgInfo *a = g_callable_info_get_arg (ci, i);
      GITypeInfo *t = g_arg_info_get_type (a);
      if (i) putchar (',');
      putchar ('{');
      ks ("name", g_base_info_get_name (a));
      ks ("direction", dir_name (g_arg_info_get_direction (a)));
      ks ("transfer", transfer_name (g_arg_info_get_ownership_transfer (a)));
      kb ("nullable", g_arg_info_may_be_null (a));
      kb ("optional", g_arg_info_is_optional (a));
      kb ("caller_allocates", g_arg_info_is_caller_allocates (a));
      kb ("is_return_value", g_arg_info_is_return_value (a));
      kb ("skip", g_arg_info_is_skip (a));
      ks ("scope", scope_name (g_arg_info_get_scope (a)));
      ki ("closure", g_arg_info_get_closure (a));
      ki ("destroy", g_arg_info_get_destroy (a));
      emit_attrs (a);
      key ("type"); emit_type (t); putchar (',');
      endobj ();
      g_base_info_unref (t);
      g_base_info_unref (a);
    }
  fputs ("],", stdout);
}

static void emit_function (GIFunctionInfo *fi)
{
  GIFunctionInfoFlags fl = g_function_info_get_flags (fi);
  ks ("symbol", g_function_info_get_symbol (fi));
  kb ("f_method", fl & GI_FUNCTION_IS_METHOD);
  kb ("f_constructor", fl & GI_FUNCTION_IS_CONSTRUCTOR);
  kb ("f_getter", fl & GI_FUNCTION_IS_GETTER);
  kb ("f_setter", fl & GI_FUNCTION_IS_SETTER);
  kb ("f_wraps_vfunc", fl & GI_FUNCTION_WRAPS_VFUNC);
  kb ("f_throws", fl & GI_FUNCTION_THROWS);
  emit_callable (fi);
}

static void emit_field (GIFieldInfo *f)
{
  GIFieldInfoFlags fl = g_field_info_get_flags (f);
  GITypeInfo *t = g_field_info_get_type (f);
  putchar ('{');
  ks ("name", g_base_info_get_name (f));
  kb ("readable", fl & GI_FIELD_IS_READABLE);
  kb ("writable", fl & GI_FIELD_IS_WRITABLE);
  ki ("bits", g_field_info_get_size (f));
  ki ("offset", g_field_info_get_offset (f));
  emit_attrs (f);
  key ("type"); emit_type (t); putchar (',');
  g_base_info_unref (t);
  endobj ();
}

static void emit_list_begin (const char *k) { key (k); putchar ('['); }
static void emit_list_end (void) { fputs ("],", stdout); }

static void emit_property (GIPropertyInfo *p)
{
  GParamFlags fl = g_property_info_get_flags (p);
  GITypeInfo *t = g_property_info_get_type (p);
  GIFunctionInfo *s = g_property_info_get_setter (p), *g = g_property_info_get_getter (p);
  putchar ('{');
  ks ("name", g_base_info_get_name (p));
  kb ("deprecated", g_base_info_is_deprecated (p));
  emit_attrs (p);
  kb ("readable", fl & G_PARAM_READABLE);
  kb ("writable", fl & G_PARAM_WRITABLE);
  kb ("construct", fl & G_PARAM_CONSTRUCT);
  kb ("construct_only", fl & G_PARAM_CONSTRUCT_ONLY);
  ks ("transfer", transfer_name (g_property_info_get_ownership_transfer (p)));
  ks ("setter", s ? g_base_info_get_name (s) : NULL);
  ks ("getter", g ? g_base_info_get_name (g) : NULL);
  key ("type"); emit_type (t); putchar (',');
  if (s) g_base_info_unref (s);
  if (g) g_base_info_unref (g);
  g_base_info_unref (t);
  endobj ();
}

static void emit_signal (GISignalInfo *s)
{
  GSignalFlags fl = g_signal_info_get_flags (s);
  putchar ('{');
  ks ("name", g_base_info_get_name (s));
  kb ("deprecated", g_base_info_is_deprecated (s));
  emit_attrs (s);
  kb ("run_first", fl & G_SIGNAL_RUN_FIRST);
  kb ("run_last", fl & G_SIGNAL_RUN_LAST);
  kb ("run_cleanup", fl & G_SIGNAL_RUN_CLEANUP);
  kb ("no_recurse", fl & G_SIGNAL_NO_RECURSE);
  kb ("detailed", fl & G_SIGNAL_DETAILED);
  kb ("action", fl & G_SIGNAL_ACTION);
  kb ("no_hooks", fl & G_SIGNAL_NO_HOOKS);
  emit_callable (s);
  endobj ();
}

static void emit_vfunc (GIVFuncInfo *v)
{
  GIVFuncInfoFlags fl = g_vfunc_info_get_flags (v);
  GIFunctionInfo *inv = g_vfunc_info_get_invoker (v);
  putchar ('{');
  ks ("name", g_base_info_get_name (v));
  emit_attrs (v);
  kb ("must_chain_up", fl & GI_VFUNC_MUST_CHAIN_UP);
  kb ("must_override", fl & GI_VFUNC_MUST_OVERRIDE);
  kb ("must_not_override", fl & GI_VFUNC_MUST_NOT_OVERRIDE);
  kb ("v_throws", fl & GI_VFUNC_THROWS);
  ki ("offset", g_vfunc_info_get_offset (v));
  ks ("invoker", inv ? g_base_info_get_name (inv) : NULL);
  if (inv) g_base_info_unref (inv);
  emit_callable (v);
  endobj ();
}

static void emit_methods (int n, GIFunctionInfo *(*get) (GIBaseInfo *, int), GIBaseInfo *c)
{
  emit_list_begin ("methods");
  for (int i = 0; i < n; i++)
    {
      GIFunctionInfo *m = get (c, i);
      if (i) putchar (',');
      emit_info (m);
      g_base_info_unref (m);
    }
  emit_list_end ();
}

static void emit_constant (GIConstantInfo *c)
{
  GITypeInfo *t = g_constant_info_get_type (c);
  GIArgument v;
  GITypeTag tag = g_type_info_get_tag (t);
  g_constant_info_get_value (c, &v);
  key ("type"); emit_type (t); putchar (',');
  key ("value");
  switch (tag)
    {
    case GI_TYPE_TAG_BOOLEAN: printf ("\"%d\"", v.v_boolean ? 1 : 0); break;
    case GI_TYPE_TAG_INT8: printf ("\"%d\"", v.v_int8); break;
    case GI_TYPE_TAG_UINT8: printf ("\"%u\"", v.v_uint8); break;
    case GI_TYPE_TAG_INT16: printf ("\"%d\"", v.v_int16); break;
    case GI_TYPE_TAG_UINT16: printf ("\"%u\"", v.v_uint16); break;
    case GI_TYPE_TAG_INT32: printf ("\"%d\"", v.v_int32); break;
    case GI_TYPE_TAG_UINT32: printf ("\"%u\"", v.v_uint32); break;
    case GI_TYPE_TAG_INT64: printf ("\"%lld\"", (long long) v.v_int64); break;
    case GI_TYPE_TAG_UINT64: printf ("\"%llu\"", (unsigned long long) v.v_uint64); break;
    case GI_TYPE_TAG_FLOAT: printf ("\"%.9g\"", v.v_float); break;
    case GI_TYPE_TAG_DOUBLE: printf ("\"%.17g\"", v.v_double); break;
    case GI_TYPE_TAG_UTF8: case GI_TYPE_TAG_FILENAME: jstr (v.v_string); break;
    default: fputs ("null", stdout); break;
    }
  putchar (',');
  g_constant_info_free_value (c, &v);
  g_base_info_unref (t);
}

static void emit_info (GIBaseInfo *info)
{
  GIInfoType t = g_base_info_get_type (info);
  putchar ('{');
  ks ("kind", info_kind (t));
  ks ("name", g_base_info_get_name (info));
  kb ("deprecated", g_base_info_is_deprecated (info));
  emit_attrs (info);
  if (t == GI_INFO_TYPE_STRUCT || t == GI_INFO_TYPE_UNION || t == GI_INFO_TYPE_ENUM || t == GI_INFO_TYPE_FLAGS
      || t == GI_INFO_TYPE_OBJECT || t == GI_INFO_TYPE_INTERFACE || t == GI_INFO_TYPE_BOXED)
    {
      ks ("type_name", g_registered_type_info_get_type_name (info));
      ks ("type_init", g_registered_type_info_get_type_init (info));
    }
  switch (t)
    {
    case GI_INFO_TYPE_FUNCTION:
      emit_function (info);
      break;
    case GI_INFO_TYPE_CALLBACK:
      emit_callable (info);
      break;
    case GI_INFO_TYPE_STRUCT:
    case GI_INFO_TYPE_BOXED:
      {
        int n = g_struct_info_get_n_fields (info);
        kb ("is_gtype_struct", g_struct_info_is_gtype_struct (info));
        kb ("foreign", g_struct_info_is_foreign (info));
        ki ("size", g_struct_info_get_size (info));
        ks ("copy_function", g_struct_info_get_copy_function (info));
        ks ("free_function", g_struct_info_get_free_function (info));
        emit_list_begin ("fields");
        for (int i = 0; i < n; i++)
          {
            GIFieldInfo *f = g_struct_info_get_field (info, i);
            if (i) putchar (',');
            emit_field (f);
            g_base_info_unref (f);
          }
        emit_list_end ();
        emit_methods (g_struct_info_get_n_methods (info), (void *) g_struct_info_get_method, info);
      }
      break;
    case GI_INFO_TYPE_UNION:
      {
        int n = g_union_info_get_n_fields (info);
        /* g_base_info_is_deprecated has no case for unions: also read the bit the compiler wrote */
        kb ("deprecated_blob", ((UnionBlob *) &((GIRealInfo *) info)->typelib->data[((GIRealInfo *) info)->offset])->deprecated);
        ki ("size", g_union_info_get_size (info));
        ks ("copy_function", g_union_info_get_copy_function (info));
        ks ("free_function", g_union_info_get_free_function (info));
        emit_list_begin ("fields");
        for (int i = 0; i < n; i++)
          {
            GIFieldInfo *f = g_union_info_get_field (info, i);
            if (i) putchar (',');
            emit_field (f);
            g_base_info_unref (f);
          }
        emit_list_end ();
        emit_methods (g_union_info_get_n_methods (info), (void *) g_union_info_get_method, info);
      }
      break;
    case GI_INFO_TYPE_ENUM:
    case GI_INFO_TYPE_FLAGS:
      {
        int n = g_enum_info_get_n_values (info);
        ks ("error_domain", g_enum_info_get_error_domain (info));
        ks ("storage", g_type_tag_to_string (g_enum_info_get_storage_type (info)));
        emit_list_begin ("values");
        for (int i = 0; i < n; i++)
          {
            GIValueInfo *v = g_enum_info_get_value (info, i);
            if (i) putchar (',');
            putchar ('{');
            ks ("name", g_base_info_get_name (v));
            ki ("value", g_value_info_get_value (v));
            kb ("deprecated", g_base_info_is_deprecated (v));
            emit_attrs (v);
            endobj ();
            g_base_info_unref (v);
          }
        emit_list_end ();
        emit_methods (g_enum_info_get_n_methods (info), (void *) g_enum_info_get_method, info);
      }
      break;
    case GI_INFO_TYPE_OBJECT:
      {
        GIObjectInfo *parent = g_object_info_get_parent (info);
        GIStructInfo *cs = g_object_info_get_class_struct (info);
        int n;
        if (parent)
          {
            char *pn = g_strdup_printf ("%s.%s", g_base_info_get_namespace (parent), g_base_info_get_name (parent));
            ks ("parent", pn);
            g_free (pn);
            g_base_info_unref (parent);
          }
        else
          ks ("parent", NULL);
        ks ("class_struct", cs ? g_base_info_get_name (cs) : NULL);
        if (cs) g_base_info_unref (cs);
        kb ("abstract", g_object_info_get_abstract (info));
        kb ("final", g_object_info_get_final (info));
        kb ("fundamental", g_object_info_get_fundamental (info));
        ks ("ref_function", g_object_info_get_ref_function (info));
        ks ("unref_function", g_object_info_get_unref_function (info));
        ks ("set_value_function", g_object_info_get_set_value_function (info));
        ks ("get_value_function", g_object_info_get_get_value_function (info));
        emit_list_begin ("interfaces");
        n = g_object_info_get_n_interfaces (info);
        for (int i = 0; i < n; i++)
          {
            GIInterfaceInfo *ii = g_object_info_get_interface (info, i);
            char *pn = g_strdup_printf ("%s.%s", g_base_info_get_namespace (ii), g_base_info_get_name (ii));
            if (i) putchar (',');
            jstr (pn);
            g_free (pn);
            g_base_info_unref (ii);
          }
        emit_list_end ();
        emit_list_begin ("fields");
        n = g_object_info_get_n_fields (info);
        for (int i = 0; i < n; i++)
          {
            GIFieldInfo *f = g_object_info_get_field (info, i);
            if (i) putchar (',');
            emit_field (f);
            g_base_info_unref (f);
          }
        emit_list_end ();
        emit_list_begin ("properties");
        n = g_object_info_get_n_properties (info);
        for (int i = 0; i < n; i++)
          {
            GIPropertyInfo *p = g_object_info_get_property (info, i);
            if (i) putchar (',');
            emit_property (p);
            g_base_info_unref (p);
          }
        emit_list_end ();
        emit_methods (g_object_info_get_n_methods (info), (void *) g_object_info_get_method, info);
        emit_list_begin ("signals");
        n = g_object_info_get_n_signals (info);
        for (int i = 0; i < n; i++)
          {
            GISignalInfo *s = g_object_info_get_signal (info, i);
            if (i) putchar (',');
            emit_signal (s);
            g_base_info_unref (s);
          }
        emit_list_end ();
        emit_list_begin ("vfuncs");
        n = g_object_info_get_n_vfuncs (info);
        for (int i = 0; i < n; i++)
          {
            GIVFuncInfo *v = g_object_info_get_vfunc (info, i);
            if (i) putchar (',');
            emit_vfunc (v);
            g_base_info_unref (v);
          }
        emit_list_end ();
        emit_list_begin ("constants");
        n = g_object_info_get_n_constants (info);
        for (int i = 0; i < n; i++)
          {
            GIConstantInfo *c = g_object_info_get_constant (info, i);
            if (i) putchar (',');
            emit_info (c);
            g_base_info_unref (c);
          }
        emit_list_end ();
      }
      break;
    case GI_INFO_TYPE_INTERFACE:
      {
        GIStructInfo *cs = g_interface_info_get_iface_struct (info);
        int n;
        ks ("class_struct", cs ? g_base_info_get_name (cs) : NULL);
        if (cs) g_base_info_unref (cs);
        emit_list_begin ("prerequisites");
        n = g_interface_info_get_n_prerequisites (info);
        for (int i = 0; i < n; i++)
          {
            GIBaseInfo *ii = g_interface_info_get_prerequisite (info, i);
            char *pn = g_strdup_printf ("%s.%s", g_base_info_get_namespace (ii), g_base_info_get_name (ii));
            if (i) putchar (',');
            jstr (pn);
            g_free (pn);
            g_base_info_unref (ii);
          }
        emit_list_end ();
        emit_list_begin ("properties");
        n = g_interface_info_get_n_properties (info);
        for (int i = 0; i < n; i++)
          {
            GIPropertyInfo *p = g_interface_info_get_property (info, i);
            if (i) putchar (',');
            emit_property (p);
            g_base_info_unref (p);
          }
        emit_list_end ();
        emit_methods (g_interface_info_get_n_methods (info), (void *) g_interface_info_get_method, info);
        emit_list_begin ("signals");
        n = g_interface_info_get_n_signals (info);
        for (int i = 0; i < n; i++)
          {
            GISignalInfo *s = g_interface_info_get_signal (info, i);
            if (i) putchar (',');
            emit_signal (s);
            g_base_info_unref (s);
          }
        emit_list_end ();
        emit_list_begin ("vfuncs");
        n = g_interface_info_get_n_vfuncs (info);
        for (int i = 0; i < n; i++)
          {
            GIVFuncInfo *v = g_interface_info_get_vfunc (info, i);
            if (i) putchar (',');
            emit_vfunc (v);
            g_base_info_unref (v);
          }
        emit_list_end ();
        emit_list_begin ("constants");
        n = g_interface_info_get_n_constants (info);
        for (int i = 0; i < n; i++)
          {
            GIConstantInfo *c = g_interface_info_get_constant (info, i);
            if (i) putchar (',');
            emit_info (c);
            g_base_info_unref (c);
          }
        emit_list_end ();
      }
      break;
    case GI_INFO_TYPE_CONSTANT:
      emit_constant (info);
      break;
    default:
      break;
    }
  endobj ();
}

int main (int argc, char **argv)
{
  GError *error = NULL;
  GIRepository *repo;
  GMappedFile *mf;
  GITypelib *tl;
  const char *ns;
  int n;

  if (argc < 3)
    return 2;
  mf = g_mapped_file_new (argv[1], FALSE, &error);
  if (!mf)
    {
      printf ("{\"error\":\"map\",\"message\":"); jstr (error->message); printf ("}\n");
      return 1;
    }
  tl = g_typelib_new_from_mapped_file (mf, &error);
  if (!tl)
    {
      printf ("{\"error\":\"new\",\"message\":"); jstr (error->message); printf ("}\n");
      return 1;
    }
  if (!g_typelib_validate (tl, &error))
    {
      printf ("{\"error\":\"validate\",\"message\":"); jstr (error->message); printf ("}\n");
      return 1;
    }
  repo = g_irepository_get_default ();
  for (int i = argc - 1; i >= 3; i--)
    g_irepository_prepend_search_path (argv[i]);
  ns = g_irepository_load_typelib (repo, tl, 0, &error);
  if (!ns)
    {
      printf ("{\"error\":\"load\",\"message\":"); jstr (error->message); printf ("}\n");
      return 1;
    }
  if (strcmp (ns, argv[2]) != 0)
    {
      printf ("{\"error\":\"namespace\",\"message\":"); jstr (ns); printf ("}\n");
      return 1;
    }
  putchar ('{');
  ks ("namespace", ns);
  ks ("version", g_irepository_get_version (repo, ns));
  ks ("shared_library", g_irepository_get_shared_library (repo, ns));
  ks ("c_prefix", g_irepository_get_c_prefix (repo, ns));
  {
    char **deps = g_irepository_get_immediate_dependencies (repo, ns);
    emit_list_begin ("dependencies");
    for (int i = 0; deps && deps[i]; i++)
      { if (i) putchar (','); jstr (deps[i]); }
    emit_list_end ();
  }
  n = g_irepository_get_n_infos (repo, ns);
  emit_list_begin ("infos");
  for (int i = 0; i < n; i++)
    {
      GIBaseInfo *info = g_irepository_get_info (repo, ns, i);
      if (i) putchar (',');
      emit_info (info);
      g_base_info_unref (info);
    }
  emit_list_end ();
  endobj ();
  putchar ('\n');
  return 0;
}
