/* C06: run /repo's own g_typelib_validate on typelib files.
   usage: c06_validate FILE...      one line per file: "OK <size>" or "INVALID <message>" or "ERROR <message>"
   g_typelib_validate is exported by girepository but declared in the internal header. */
#include <stdio.h>
#include <string.h>
#include <girepository.h>
#include "gitypelib-internal.h"

int main (int argc, char **argv)
{
  int i;
  for (i = 1; i < argc; i++)
    {
      GError *error = NULL;
      gchar *data = NULL;
      gsize len = 0;
      GITypelib *tl;
      if (!g_file_get_contents (argv[i], &data, &len, &error))
        {
          printf ("ERROR %s\n", error->message);
          g_clear_error (&error);
          continue;
        }
      tl = g_typelib_new_from_memory ((guint8 *) data, len, &error);
      if (!tl)
        {
          printf ("INVALID new_from_memory: %s\n", error->message);
          g_clear_error (&error);
          continue;
        }
      if (!g_typelib_validate (tl, &error))
        {
          char *nl;
          while ((nl = strchr (error->message, '\n')) != NULL)
            *nl = ' ';
          printf ("INVALID %s\n", error->message);
          g_clear_error (&error);
        }
      else
        printf ("OK %lu\n", (unsigned long) len);
      fflush (stdout);
    }
  return 0;
}
