/* C08 layout dumper: load typelibs through the public repository API and print, for
   every struct / boxed / union: size, alignment and each field's offset (and the
   "size" the field accessor reports, i.e. the bit width); for every enum / flags the
   storage type; for objects the field offsets.
   usage: c08_layout <dir> <Namespace> [<Namespace> ...]
   output (one record per line, space separated):
     N <namespace>
     S|U <name> <size> <alignment> <n_fields>
     O <name> <n_fields>
     F <name> <offset> <bits>
     E <name> <storage-tag> <storage-tag-name>
     X <namespace> <error message>            (typelib could not be loaded)            */
#include <stdio.h>
#include <girepository.h>

/* a name as one token: a typelib that indexes its field blobs wrongly hands back arbitrary bytes */
static const char *
token (const char *name)
{
  static char buf[4][80];
  static int which;
  char *out = buf[which = (which + 1) % 4];
  int i;

  if (name == NULL || *name == 0)
    return "?";
  for (i = 0; i < 64 && name[i]; i++)
    {
      unsigned char c = (unsigned char) name[i];
      out[i] = ((c >= '0' && c <= '9') || (c >= 'A' && c <= 'Z') || (c >= 'a' && c <= 'z') || c == '_' || c == '-') ? (char) c : '?';
    }
  out[i] = 0;
  return out;
}

static void
dump_field (GIFieldInfo *f)
{
  printf ("F %s %d %d\n", token (g_base_info_get_name ((GIBaseInfo *) f)),
          g_field_info_get_offset (f), g_field_info_get_size (f));
  g_base_info_unref ((GIBaseInfo *) f);
}

int
main (int argc, char **argv)
{
  GIRepository *repo = g_irepository_get_default ();
  int a;

  if (argc < 3)
    return 2;
  g_irepository_prepend_search_path (argv[1]);
  for (a = 2; a < argc; a++)
    {
      GError *error = NULL;
      const char *ns = argv[a];
      GITypelib *tl = g_irepository_require (repo, ns, NULL, 0, &error);
      int n, i, k;

      if (!tl)
        {
          printf ("X %s %s\n", ns, error->message);
          g_error_free (error);
          continue;
        }
      printf ("N %s\n", ns);
      n = g_irepository_get_n_infos (repo, ns);
      for (i = 0; i < n; i++)
        {
          GIBaseInfo *info = g_irepository_get_info (repo, ns, i);
          const char *name = token (g_base_info_get_name (info));

          switch (g_base_info_get_type (info))
            {
            case GI_INFO_TYPE_STRUCT:
            case GI_INFO_TYPE_BOXED:
              {
                int nf = g_struct_info_get_n_fields ((GIStructInfo *) info);
                printf ("S %s %lu %lu %d\n", name,
                        (unsigned long) g_struct_info_get_size ((GIStructInfo *) info),
                        (unsigned long) g_struct_info_get_alignment ((GIStructInfo *) info), nf);
                for (k = 0; k < nf; k++)
                  dump_field (g_struct_info_get_field ((GIStructInfo *) info, k));
                break;
              }
            case GI_INFO_TYPE_UNION:
              {
                int nf = g_union_info_get_n_fields ((GIUnionInfo *) info);
                printf ("U %s %lu %lu %d\n", name,
                        (unsigned long) g_union_info_get_size ((GIUnionInfo *) info),
                        (unsigned long) g_union_info_get_alignment ((GIUnionInfo *) info), nf);
                for (k = 0; k < nf; k++)
                  dump_field (g_union_info_get_field ((GIUnionInfo *) info, k));
                break;
              }
            case GI_INFO_TYPE_OBJECT:
              {
                int nf = g_object_info_get_n_fields ((GIObjectInfo *) info);
                printf ("O %s %d\n", name, nf);
                for (k = 0; k < nf; k++)
                  dump_field (g_object_info_get_field ((GIObjectInfo *) info, k));
                break;
              }
            case GI_INFO_TYPE_ENUM:
            case GI_INFO_TYPE_FLAGS:
              {
                GITypeTag t = g_enum_info_get_storage_type ((GIEnumInfo *) info);
                printf ("E %s %d %s\n", name, (int) t, g_type_tag_to_string (t));
                break;
              }
            default:
              break;
            }
          g_base_info_unref (info);
        }
    }
  return 0;
}
