/* C14 lookup prober.  Runs /repo's REAL lookup code on a typelib produced by the real
   g-ir-compiler and prints, for every probe, what each lookup path answered.

   usage: c14_lookup <dir> <Namespace> <version> <probes-file>

   Three build modes (the harness falls back from one to the next when the previous one no
   longer compiles against /repo's headers, e.g. because a private function was renamed):
     default            private headers gitypelib-internal.h, girepository-private.h, cmph.h
     -DC14_NO_HASH      no _gi_typelib_hash_search / cmph_* calls (h, hs, own mph size = -1)
     -DC14_PUBLIC_ONLY  only the installed public API of <girepository.h>: the directory is
                        listed with g_irepository_get_info, the lookups are
                        g_irepository_find_by_name / find_by_gtype / find_by_error_domain;
                        typelib-level answers are printed as -8 (not available)

   default / NO_HASH: <dir>/<Namespace>-<version>.typelib is (a) read into private memory and
   wrapped with g_typelib_new_from_memory (direct g_typelib_* calls), (b) copied a second time
   with the directory-index section blanked (forces the linear path of
   g_typelib_get_dir_entry_by_name), (c) loaded through g_irepository_require.

   probes-file: one probe per line, "<kind> <hex of the bytes>" (hex may be empty):
     N name probe, index path + linear path + repository      n  same without the linear path
     G GType-name probe                                        D  error-domain probe

   output (stdout), all strings hex-encoded ('.' = empty string, '-' = none), directory indices
   0-based, -1 = NULL, -8 = path not available in this build mode:
     MODE full|nohash|public
     HDR <n_entries> <n_local> <directory> <entry_blob_size> <sections> <size> <c_prefix off>
     CPREFIX <hex of the string at header->c_prefix>
     SECTION <present 0/1> <offset> <dirmap_offset> <section length> <own cmph_packed_size or -1>
     TABLE <n_local guint16 values read at section+dirmap_offset>      (only if present)
     E <idx> <local> <blob_type> <name> <gtype_name|-> <error_domain|->    for every entry
     N <h> <hs> <index path> <linear path|-9> <repo find_by_name>
        h  = cmph_search_packed (raw perfect-hash value, -1 without section)
        hs = _gi_typelib_hash_search (table value actually used, -1 without section)
     G <g_typelib_get_dir_entry_by_gtype_name> <matches_prefix 0/1> <repo find_by_gtype | -2 n/a> <other-namespace 0/1>
     D <g_typelib_get_dir_entry_by_error_domain> <repo find_by_error_domain> <other-namespace 0/1>
     END
   The dump of the directory (E lines) reads the blob fields directly (public mode: the info
   accessors); it does not go through any of the lookup functions under test. */
#include <stdio.h>
#include <stdlib.h>
#include <string.h>
#include <girepository.h>
#ifndef C14_PUBLIC_ONLY
#include "gitypelib-internal.h"
#include "girepository-private.h"
#ifndef C14_NO_HASH
#include "cmph/cmph.h"
#endif
#endif

extern GType g_pointer_type_register_static (const gchar *name);

static void
die (const char *msg, const char *arg)
{
  fprintf (stderr, "c14_lookup: %s %s\n", msg, arg ? arg : "");
  exit (3);
}

static void
put_hex (FILE *f, const char *s)
{
  static const char d[] = "0123456789abcdef";
  if (*s == 0)
    fputc ('.', f);             /* empty string marker */
  for (; *s; s++)
    {
      fputc (d[((unsigned char) *s) >> 4], f);
      fputc (d[((unsigned char) *s) & 15], f);
    }
}

static int
hexval (int c)
{
  if (c >= '0' && c <= '9') return c - '0';
  if (c >= 'a' && c <= 'f') return c - 'a' + 10;
  return -1;
}

/* decode in place; returns 0 on success */
static int
unhex (char *s)
{
  char *o = s;
  while (*s && *s != '\n' && *s != '\r')
    {
      int a = hexval (s[0]), b = a < 0 ? -1 : hexval (s[1]);
      if (a < 0 || b < 0)
        return -1;
      *o++ = (char) (a * 16 + b);
      s += 2;
    }
  *o = 0;
  return 0;
}

static int
valid_type_name (const char *s)
{
  const char *p;
  if (!s[0] || !s[1] || !s[2])
    return 0;
  if (!((s[0] >= 'A' && s[0] <= 'Z') || (s[0] >= 'a' && s[0] <= 'z') || s[0] == '_'))
    return 0;
  for (p = s + 1; *p; p++)
    if (!((*p >= 'A' && *p <= 'Z') || (*p >= 'a' && *p <= 'z') || (*p >= '0' && *p <= '9') ||
          *p == '-' || *p == '_' || *p == '+'))
      return 0;
  return 1;
}

/* a real GType whose name is `s` (registered on demand), or 0 */
static GType
gtype_for_name (const char *s)
{
  GType t = g_type_from_name (s);
  if (t == 0 && valid_type_name (s))
    t = g_pointer_type_register_static (s);
  return t;
}

static const char *the_ns;

#ifdef C14_PUBLIC_ONLY
/* ------------------------------------------------------------------ public API only */
typedef struct { const char *name; gint idx; } NameIdx;
static NameIdx *namemap;
static guint n_namemap;

static int
cmp_nameidx (const void *a, const void *b)
{
  int c = strcmp (((const NameIdx *) a)->name, ((const NameIdx *) b)->name);
  if (c)
    return c;
  return ((const NameIdx *) a)->idx - ((const NameIdx *) b)->idx;
}

static int
cmp_name_only (const void *a, const void *b)
{
  return strcmp (((const NameIdx *) a)->name, ((const NameIdx *) b)->name);
}

/* index of the info by the name it carries (-3: other namespace, -4: unknown name) */
static gint
info_index (GIBaseInfo *info, gint *other)
{
  NameIdx key, *r;
  if (info == NULL)
    return -1;
  if (strcmp (g_base_info_get_namespace (info), the_ns) != 0)
    {
      if (other)
        *other = 1;
      return -3;
    }
  key.name = g_base_info_get_name (info);
  r = bsearch (&key, namemap, n_namemap, sizeof (NameIdx), cmp_name_only);
  if (!r)
    return -4;
  while (r > namemap && strcmp (r[-1].name, key.name) == 0)
    r--;
  return r->idx;
}

int
main (int argc, char **argv)
{
  GError *error = NULL;
  GIRepository *repo;
  gint n, i;
  const char *cp;
  FILE *pf;
  char *line = NULL;
  size_t cap = 0;

  if (argc < 5)
    die ("usage: c14_lookup <dir> <Namespace> <version> <probes>", NULL);
  the_ns = argv[2];
  repo = g_irepository_get_default ();
  g_irepository_prepend_search_path (argv[1]);
  if (!g_irepository_require (repo, the_ns, argv[3], 0, &error))
    die ("g_irepository_require:", error->message);
  n = g_irepository_get_n_infos (repo, the_ns);
  printf ("MODE public\n");
  printf ("HDR %d %d 0 0 0 0 0\n", n, n);
  cp = g_irepository_get_c_prefix (repo, the_ns);
  printf ("CPREFIX ");
  if (cp)
    put_hex (stdout, cp);
  else
    printf ("-");
  printf ("\nSECTION 0 0 0 0 -1\n");
  namemap = g_new (NameIdx, n + 1);
  for (i = 0; i < n; i++)
    {
      GIBaseInfo *info = g_irepository_get_info (repo, the_ns, i);
      GIInfoType t = g_base_info_get_type (info);
      const char *g = NULL, *d = NULL;
      namemap[i].name = g_strdup (g_base_info_get_name (info));
      namemap[i].idx = i;
      if (GI_IS_REGISTERED_TYPE_INFO (info))
        g = g_registered_type_info_get_type_name ((GIRegisteredTypeInfo *) info);
      if (t == GI_INFO_TYPE_ENUM || t == GI_INFO_TYPE_FLAGS)
        d = g_enum_info_get_error_domain ((GIEnumInfo *) info);
      printf ("E %d 1 %d ", i, (int) t);
      put_hex (stdout, namemap[i].name);
      printf (" ");
      if (g) put_hex (stdout, g); else printf ("-");
      printf (" ");
      if (d) put_hex (stdout, d); else printf ("-");
      printf ("\n");
      g_base_info_unref (info);
    }
  n_namemap = n;
  qsort (namemap, n_namemap, sizeof (NameIdx), cmp_nameidx);

  pf = fopen (argv[4], "r");
  if (!pf)
    die ("cannot open", argv[4]);
  while (getline (&line, &cap, pf) > 0)
    {
      char kind = line[0];
      char *s = line + 2;
      gint other = 0, r;
      GIBaseInfo *info;
      if (line[1] != ' ' || unhex (s) != 0)
        die ("bad probe line", line);
      if (kind == 'N' || kind == 'n')
        {
          info = g_irepository_find_by_name (repo, the_ns, s);
          r = info_index (info, NULL);
          printf ("N -1 -1 -8 %d %d\n", kind == 'N' ? -8 : -9, r);
        }
      else if (kind == 'G')
        {
          GType t = gtype_for_name (s);
          r = -2;
          info = NULL;
          if (t != 0)
            {
              info = g_irepository_find_by_gtype (repo, t);
              r = info_index (info, &other);
            }
          printf ("G -8 -8 %d %d\n", r, other);
        }
      else if (kind == 'D')
        {
          info = (GIBaseInfo *) g_irepository_find_by_error_domain (repo, g_quark_from_string (s));
          r = info_index (info, &other);
          printf ("D -8 %d %d\n", r, other);
        }
      else
        die ("unknown probe kind", line);
      if (info)
        g_base_info_unref (info);
    }
  printf ("END\n");
  return 0;
}

#else
/* ------------------------------------------------------------------ private headers */
typedef struct { guint32 offset; gint idx; } OffIdx;

static int
cmp_offidx (const void *a, const void *b)
{
  guint32 x = ((const OffIdx *) a)->offset, y = ((const OffIdx *) b)->offset;
  return x < y ? -1 : x > y;
}

static OffIdx *offmap;
static guint n_offmap;

/* directory index of the local entry whose blob lives at `offset`, or -4 */
static gint
index_of_offset (guint32 offset)
{
  OffIdx key, *r;
  key.offset = offset;
  r = bsearch (&key, offmap, n_offmap, sizeof (OffIdx), cmp_offidx);
  return r ? r->idx : -4;
}

static gint
entry_index (GITypelib *tl, DirEntry *e)
{
  Header *header = (Header *) tl->data;
  if (e == NULL)
    return -1;
  return (gint) (((guint8 *) e - (tl->data + header->directory)) / header->entry_blob_size);
}

static Section *
find_section (guint8 *data, guint32 id)
{
  Header *header = (Header *) data;
  Section *s;
  if (header->sections == 0)
    return NULL;
  for (s = (Section *) &data[header->sections]; s->id != GI_SECTION_END; s++)
    if (s->id == id)
      return s;
  return NULL;
}

static gint
repo_index (GIBaseInfo *info, GITypelib *tl_repo, gint *other)
{
  if (info == NULL)
    return -1;
  if (((GIRealInfo *) info)->typelib == tl_repo)
    return index_of_offset (((GIRealInfo *) info)->offset);
  if (other)
    *other = 1;
  return -3;
}

int
main (int argc, char **argv)
{
  GError *error = NULL;
  gchar *path, *contents = NULL;
  gsize len = 0;
  guint8 *mem, *mem_lin;
  GITypelib *tl, *tl_lin, *tl_repo;
  Header *header;
  Section *sec;
  guint8 *hashmem = NULL;
  guint i;
  FILE *pf;
  char *line = NULL;
  size_t cap = 0;
  GIRepository *repo;
  glong mph_size = -1;

  if (argc < 5)
    die ("usage: c14_lookup <dir> <Namespace> <version> <probes>", NULL);
  the_ns = argv[2];
  path = g_strdup_printf ("%s/%s-%s.typelib", argv[1], argv[2], argv[3]);
  if (!g_file_get_contents (path, &contents, &len, &error))
    die ("cannot read", path);

  /* (a) private copy, untouched */
  mem = g_malloc (len);
  memcpy (mem, contents, len);
  tl = g_typelib_new_from_memory (mem, len, &error);
  if (!tl)
    die ("g_typelib_new_from_memory:", error->message);
  /* (b) private copy with the directory index blanked */
  mem_lin = g_malloc (len);
  memcpy (mem_lin, contents, len);
  sec = find_section (mem_lin, GI_SECTION_DIRECTORY_INDEX);
  if (sec)
    {
      guint32 off = sec->offset, end = ((Header *) mem_lin)->size;
      if (off < end && end <= len)
        memset (mem_lin + off, 0xAA, end - off);        /* the table and the mph are gone */
      sec->id = 0x7fffffff;                             /* and the section is no longer an index */
    }
  tl_lin = g_typelib_new_from_memory (mem_lin, len, &error);
  if (!tl_lin)
    die ("g_typelib_new_from_memory (linear copy):", error->message);

  /* (c) the repository */
  repo = g_irepository_get_default ();
  g_irepository_prepend_search_path (argv[1]);
  tl_repo = g_irepository_require (repo, the_ns, argv[3], 0, &error);
  if (!tl_repo)
    die ("g_irepository_require:", error->message);

  header = (Header *) tl->data;
#ifdef C14_NO_HASH
  printf ("MODE nohash\n");
#else
  printf ("MODE full\n");
#endif
  printf ("HDR %u %u %u %u %u %u %u\n", header->n_entries, header->n_local_entries, header->directory,
          header->entry_blob_size, header->sections, header->size, header->c_prefix);
  printf ("CPREFIX ");
  put_hex (stdout, g_typelib_get_string (tl, header->c_prefix));
  printf ("\n");

  sec = find_section (tl->data, GI_SECTION_DIRECTORY_INDEX);
#ifndef C14_NO_HASH
  /* own build of the minimal perfect hash, only to learn cmph_packed_size for this key count */
  if (sec && header->n_local_entries > 0)
    {
      guint n = header->n_local_entries;
      char **strs = g_new (char *, n + 1);
      cmph_io_adapter_t *io;
      cmph_config_t *config;
      cmph_t *c;
      for (i = 0; i < n; i++)
        {
          DirEntry *e = g_typelib_get_dir_entry (tl, i + 1);
          strs[i] = g_strdup (g_typelib_get_string (tl, e->name));
        }
      strs[n] = NULL;
      io = cmph_io_vector_adapter (strs, n);
      config = cmph_config_new (io);
      cmph_config_set_algo (config, CMPH_BDZ);
      c = cmph_new (config);
      if (c)
        {
          mph_size = cmph_packed_size (c);
          cmph_destroy (c);
        }
      cmph_config_destroy (config);
      cmph_io_vector_adapter_destroy (io);
    }
#endif
  if (sec)
    {
      guint32 dirmap;
      hashmem = &tl->data[sec->offset];
      dirmap = *((guint32 *) hashmem);
      printf ("SECTION 1 %u %u %u %ld\n", sec->offset, dirmap, header->size - sec->offset, mph_size);
      printf ("TABLE");
      if ((gsize) sec->offset + dirmap + 2 * (gsize) header->n_local_entries <= len)
        for (i = 0; i < header->n_local_entries; i++)
          printf (" %u", ((guint16 *) (hashmem + dirmap))[i]);
      printf ("\n");
    }
  else
    printf ("SECTION 0 0 0 0 -1\n");

  /* the directory, read field by field */
  offmap = g_new (OffIdx, header->n_local_entries + 1);
  n_offmap = 0;
  for (i = 0; i < header->n_entries; i++)
    {
      DirEntry *e = g_typelib_get_dir_entry (tl, i + 1);
      guint bt = e->blob_type;
      printf ("E %u %u %u ", i, e->local, bt);
      put_hex (stdout, g_typelib_get_string (tl, e->name));
      if (e->local && (bt == BLOB_TYPE_STRUCT || bt == BLOB_TYPE_BOXED || bt == BLOB_TYPE_ENUM ||
                       bt == BLOB_TYPE_FLAGS || bt == BLOB_TYPE_OBJECT || bt == BLOB_TYPE_INTERFACE ||
                       bt == BLOB_TYPE_UNION))
        {
          RegisteredTypeBlob *b = (RegisteredTypeBlob *) &tl->data[e->offset];
          printf (" ");
          if (b->gtype_name)
            put_hex (stdout, g_typelib_get_string (tl, b->gtype_name));
          else
            printf ("-");
        }
      else
        printf (" -");
      if (e->local && (bt == BLOB_TYPE_ENUM || bt == BLOB_TYPE_FLAGS))
        {
          EnumBlob *b = (EnumBlob *) &tl->data[e->offset];
          printf (" ");
          if (b->error_domain)
            put_hex (stdout, g_typelib_get_string (tl, b->error_domain));
          else
            printf ("-");
        }
      else
        printf (" -");
      printf ("\n");
      if (e->local && i < header->n_local_entries)
        {
          offmap[n_offmap].offset = e->offset;
          offmap[n_offmap].idx = (gint) i;
          n_offmap++;
        }
    }
  qsort (offmap, n_offmap, sizeof (OffIdx), cmp_offidx);
  fflush (stdout);

  pf = fopen (argv[4], "r");
  if (!pf)
    die ("cannot open", argv[4]);
  while (getline (&line, &cap, pf) > 0)
    {
      char kind = line[0];
      char *s = line + 2;
      if (line[1] != ' ' || unhex (s) != 0)
        die ("bad probe line", line);
      if (kind == 'N' || kind == 'n')
        {
          glong h = -1, hs = -1;
          gint a, b = -9, r;
          GIBaseInfo *info;
#ifndef C14_NO_HASH
          if (hashmem)
            {
              h = cmph_search_packed (((guint32 *) hashmem) + 1, s, strlen (s));
              hs = _gi_typelib_hash_search (hashmem, s, header->n_local_entries);
            }
#endif
          a = entry_index (tl, g_typelib_get_dir_entry_by_name (tl, s));
          if (kind == 'N')
            b = entry_index (tl_lin, g_typelib_get_dir_entry_by_name (tl_lin, s));
          info = g_irepository_find_by_name (repo, the_ns, s);
          r = repo_index (info, tl_repo, NULL);
          if (info)
            g_base_info_unref (info);
          printf ("N %ld %ld %d %d %d\n", h, hs, a, b, r);
        }
      else if (kind == 'G')
        {
          gint a = entry_index (tl, g_typelib_get_dir_entry_by_gtype_name (tl, s));
          gint m = g_typelib_matches_gtype_name_prefix (tl, s) ? 1 : 0;
          gint r = -2, other = 0;
          GType t = gtype_for_name (s);
          if (t != 0)
            {
              GIBaseInfo *info = g_irepository_find_by_gtype (repo, t);
              r = repo_index (info, tl_repo, &other);
              if (info)
                g_base_info_unref (info);
            }
          printf ("G %d %d %d %d\n", a, m, r, other);
        }
      else if (kind == 'D')
        {
          GQuark q = g_quark_from_string (s);
          gint a = entry_index (tl, g_typelib_get_dir_entry_by_error_domain (tl, q));
          gint r, other = 0;
          GIBaseInfo *info = (GIBaseInfo *) g_irepository_find_by_error_domain (repo, q);
          r = repo_index (info, tl_repo, &other);
          if (info)
            g_base_info_unref (info);
          printf ("D %d %d %d\n", a, r, other);
        }
      else
        die ("unknown probe kind", line);
    }
  printf ("END\n");
  return 0;
}
#endif
