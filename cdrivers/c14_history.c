/* C14: execute ONE history of repository-level lookups and loads on /repo's REAL library, in a
   fresh process (the default repository, its caches and the GType system are process-global),
   and print what every call answered together with what the TYPELIB-LEVEL lookups
   (g_typelib_get_dir_entry_by_gtype_name / _by_error_domain / _by_name) answer on private copies
   of every typelib file of the history.

   usage: c14_history <history-file>

   history lines (one call per line, fields separated by one space, <hex> = hex of the bytes,
   may be empty):
     P <dir>                    g_irepository_prepend_search_path
     T <file>                   declare typelib file number 0,1,2,... (private copy, never registered)
     L <id> <flags>             fresh g_typelib_new_from_memory copy of file <id>, then
                                g_irepository_load_typelib (flags: 0, 1 = G_IREPOSITORY_LOAD_FLAG_LAZY)
     R <ns> <version> <flags>   g_irepository_require
     G <hex>                    g_irepository_find_by_gtype of the GType of that name
     D <hex>                    g_irepository_find_by_error_domain
     N <ns> <hex>               g_irepository_find_by_name (the harness only asks loaded namespaces)

   output lines:
     MODE full|public
     T <id> <n_local_entries> <namespace>
     L ok <namespace> | L err <code>      R ok <namespace> | R err <code>
     NS <loaded namespaces, sorted>       (after every L and R)
     G <repo> <t0> <t1> ...               D <repo> <t0> ...            N <repo> <t0> ...
        <repo> = "-" (NULL), "NA" (no GType of that name can exist), or <namespace>:<hex of the
        info's name>; <ti> = 0-based directory index answered by the typelib-level lookup on file
        i, -1 = NULL, -8 = not available (public build)
     END
   Build modes: default uses gitypelib-internal.h for the typelib-level lookups;
   -DC14_PUBLIC_ONLY uses <girepository.h> only (all <ti> are -8). */
#include <stdio.h>
#include <stdlib.h>
#include <string.h>
#include <girepository.h>
#ifndef C14_PUBLIC_ONLY
#include "gitypelib-internal.h"
#endif

extern GType g_pointer_type_register_static (const gchar *name);

#define MAXT 64

static GITypelib *tls[MAXT];
static char *tl_file[MAXT];
static int n_tls = 0;

static void
die (const char *msg, const char *arg)
{
  fprintf (stderr, "c14_history: %s %s\n", msg, arg ? arg : "");
  exit (3);
}

static void
put_hex (const char *s)
{
  static const char d[] = "0123456789abcdef";
  if (*s == 0)
    fputc ('.', stdout);
  for (; *s; s++)
    {
      fputc (d[((unsigned char) *s) >> 4], stdout);
      fputc (d[((unsigned char) *s) & 15], stdout);
    }
}

static int
hexval (int c)
{
  if (c >= '0' && c <= '9') return c - '0';
  if (c >= 'a' && c <= 'f') return c - 'a' + 10;
  return -1;
}

static int
unhex (char *s)
{
  char *o = s;
  while (*s)
    {
      int a = hexval (s[0]), b = a < 0 ? -1 : hexval (s[1]);
      if (a < 0 || b < 0)
        return -1;
      *o++ = (char) (a * 16 + b);
      s += 2;
    }
  *o = 0;
  return 0;
}

static int
valid_type_name (const char *s)
{
  const char *p;
  if (!s[0] || !s[1] || !s[2])
    return 0;
  if (!((s[0] >= 'A' && s[0] <= 'Z') || (s[0] >= 'a' && s[0] <= 'z') || s[0] == '_'))
    return 0;
  for (p = s + 1; *p; p++)
    if (!((*p >= 'A' && *p <= 'Z') || (*p >= 'a' && *p <= 'z') || (*p >= '0' && *p <= '9') ||
          *p == '-' || *p == '_' || *p == '+'))
      return 0;
  return 1;
}

/* the GType whose name is `s`: one that GObject itself registered (GObject, GInitiallyUnowned,
   GBinding, GStrv, ...) or a pointer type registered on demand under that name */
static GType
gtype_for_name (const char *s)
{
  GType t = g_type_from_name (s);
  if (t == 0 && valid_type_name (s))
    t = g_pointer_type_register_static (s);
  return t;
}

static GITypelib *
typelib_from_file (const char *file)
{
  GError *error = NULL;
  gchar *contents = NULL;
  gsize len = 0;
  GITypelib *tl;
  if (!g_file_get_contents (file, &contents, &len, &error))
    die ("cannot read", file);
  tl = g_typelib_new_from_memory ((guint8 *) contents, len, &error);
  if (!tl)
    die ("g_typelib_new_from_memory:", error->message);
  return tl;
}

static void
print_info (GIBaseInfo *info)
{
  if (info == NULL)
    {
      printf ("-");
      return;
    }
  printf ("%s:", g_base_info_get_namespace (info));
  put_hex (g_base_info_get_name (info));
}

#ifndef C14_PUBLIC_ONLY
static gint
entry_index (GITypelib *tl, DirEntry *e)
{
  Header *header = (Header *) tl->data;
  if (e == NULL)
    return -1;
  return (gint) (((guint8 *) e - (tl->data + header->directory)) / header->entry_blob_size);
}
#endif

static int
cmp_str (const void *a, const void *b)
{
  return strcmp (*(char *const *) a, *(char *const *) b);
}

static void
print_loaded (void)
{
  gchar **ns = g_irepository_get_loaded_namespaces (NULL);
  int n = 0, i;
  while (ns && ns[n])
    n++;
  qsort (ns, n, sizeof (gchar *), cmp_str);
  printf ("NS");
  for (i = 0; i < n; i++)
    printf (" %s", ns[i]);
  printf ("\n");
  g_strfreev (ns);
}

int
main (int argc, char **argv)
{
  FILE *in;
  char *line = NULL;
  size_t cap = 0;
  ssize_t got;

  if (argc < 2)
    die ("usage: c14_history <history-file>", NULL);
  in = fopen (argv[1], "r");
  if (!in)
    die ("cannot open", argv[1]);
  setvbuf (stdout, NULL, _IOLBF, 0);
#ifdef C14_PUBLIC_ONLY
  printf ("MODE public\n");
#else
  printf ("MODE full\n");
#endif
  g_irepository_get_default ();

  while ((got = getline (&line, &cap, in)) > 0)
    {
      char *tok[4];
      int nt = 0, i;
      char *p = line;
      while (got > 0 && (line[got - 1] == '\n' || line[got - 1] == '\r'))
        line[--got] = 0;
      if (got == 0)
        continue;
      while (nt < 4 && p)
        {
          tok[nt++] = p;
          p = strchr (p, ' ');
          if (p)
            *p++ = 0;
        }
      if (!strcmp (tok[0], "P") && nt == 2)
        g_irepository_prepend_search_path (tok[1]);
      else if (!strcmp (tok[0], "T") && nt == 2)
        {
          if (n_tls >= MAXT)
            die ("too many typelib files", NULL);
          tls[n_tls] = typelib_from_file (tok[1]);
          tl_file[n_tls] = g_strdup (tok[1]);
#ifdef C14_PUBLIC_ONLY
          printf ("T %d -8 %s\n", n_tls, g_typelib_get_namespace (tls[n_tls]));
#else
          printf ("T %d %u %s\n", n_tls, ((Header *) tls[n_tls]->data)->n_local_entries,
                  g_typelib_get_namespace (tls[n_tls]));
#endif
          n_tls++;
        }
      else if (!strcmp (tok[0], "L") && nt == 3)
        {
          GError *error = NULL;
          int id = atoi (tok[1]);
          const char *ns;
          if (id < 0 || id >= n_tls)
            die ("bad typelib id", tok[1]);
          /* a typelib that is not registered (namespace already loaded) is leaked on purpose */
          ns = g_irepository_load_typelib (NULL, typelib_from_file (tl_file[id]), atoi (tok[2]), &error);
          if (ns)
            printf ("L ok %s\n", ns);
          else
            printf ("L err %d\n", error ? error->code : -1);
          g_clear_error (&error);
          print_loaded ();
        }
      else if (!strcmp (tok[0], "R") && nt == 4)
        {
          GError *error = NULL;
          GITypelib *t = g_irepository_require (NULL, tok[1], tok[2], atoi (tok[3]), &error);
          if (t)
            printf ("R ok %s\n", g_typelib_get_namespace (t));
          else
            printf ("R err %d\n", error ? error->code : -1);
          g_clear_error (&error);
          print_loaded ();
        }
      else if (!strcmp (tok[0], "G") && nt <= 2)
        {
          char *s = nt == 2 ? tok[1] : tok[0] + 1;
          GType t;
          if (unhex (s) != 0)
            die ("bad hex", s);
          t = gtype_for_name (s);
          printf ("G ");
          if (t == 0)
            printf ("NA");
          else
            {
              GIBaseInfo *info = g_irepository_find_by_gtype (NULL, t);
              print_info (info);
              if (info)
                g_base_info_unref (info);
            }
          for (i = 0; i < n_tls; i++)
#ifdef C14_PUBLIC_ONLY
            printf (" -8");
#else
            printf (" %d", entry_index (tls[i], g_typelib_get_dir_entry_by_gtype_name (tls[i], s)));
#endif
          printf ("\n");
        }
      else if (!strcmp (tok[0], "D") && nt <= 2)
        {
          char *s = nt == 2 ? tok[1] : tok[0] + 1;
          GQuark q;
          GIBaseInfo *info;
          if (unhex (s) != 0)
            die ("bad hex", s);
          q = g_quark_from_string (s);
          info = (GIBaseInfo *) g_irepository_find_by_error_domain (NULL, q);
          printf ("D ");
          print_info (info);
          if (info)
            g_base_info_unref (info);
          for (i = 0; i < n_tls; i++)
#ifdef C14_PUBLIC_ONLY
            printf (" -8");
#else
            printf (" %d", entry_index (tls[i], g_typelib_get_dir_entry_by_error_domain (tls[i], q)));
#endif
          printf ("\n");
        }
      else if (!strcmp (tok[0], "N") && (nt == 3 || nt == 2))
        {
          char *s = nt == 3 ? tok[2] : tok[1] + strlen (tok[1]);
          GIBaseInfo *info;
          if (unhex (s) != 0)
            die ("bad hex", s);
          info = g_irepository_find_by_name (NULL, tok[1], s);
          printf ("N ");
          print_info (info);
          if (info)
            g_base_info_unref (info);
          for (i = 0; i < n_tls; i++)
#ifdef C14_PUBLIC_ONLY
            printf (" -8");
#else
            printf (" %d", entry_index (tls[i], g_typelib_get_dir_entry_by_name (tls[i], s)));
#endif
          printf ("\n");
        }
      else
        die ("bad history line", tok[0]);
    }
  printf ("END\n");
  return 0;
}
