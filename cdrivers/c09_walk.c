/* C09 walker: loads a typelib through the PUBLIC repository API only and prints a canonical,
   one-item-per-line dump of everything the accessors report: the namespace directory, and for
   every entry every count and i-th accessor, flags, types (recursively), attributes by
   iteration and by name, and the find_* lookups.  The Lean model (Model/InfoAccess.lean,
   `dumpTypelib`) prints the same dump from the raw bytes; harness/c09.py diffs the two.

   usage: c09_walk <dir> <Namespace> [version]

   Line format:  <path> <item> k=v k=v ...      (strings are printed raw, NULL as (null)) */
#include <stdio.h>
#include <string.h>
#include <girepository.h>

#define S(x) ((x) ? (x) : "(null)")

static const char *NS;

static void dump_callable (const char *path, GICallableInfo *c);

static void qname (char *buf, size_t n, GIBaseInfo *info)
{
  if (info == NULL)
    snprintf (buf, n, "(null)");
  else
    snprintf (buf, n, "%s.%s", S (g_base_info_get_namespace (info)), S (g_base_info_get_name (info)));
}

/* attributes: by iteration (table order), then by name for every iterated name, then a miss */
static void dump_attrs (const char *path, GIBaseInfo *info)
{
  GIAttributeIter iter = { 0, };
  char *name, *value;
  char *names[256];
  int k = 0, i;
  while (g_base_info_iterate_attributes (info, &iter, &name, &value))
    {
      printf ("%s attr.%d %s=%s\n", path, k, name, value);
      if (k < 256)
        names[k] = name;
      k++;
    }
  for (i = 0; i < k && i < 256; i++)
    printf ("%s attrget.%d %s=%s\n", path, i, names[i], S (g_base_info_get_attribute (info, names[i])));
  printf ("%s attrget.missing=%s\n", path, S (g_base_info_get_attribute (info, "c09:no-such-attribute")));
}

static void dump_ret_attrs (const char *path, GICallableInfo *info)
{
  GIAttributeIter iter = { 0, };
  char *name, *value;
  char *names[256];
  int k = 0, i;
  while (g_callable_info_iterate_return_attributes (info, &iter, &name, &value))
    {
      printf ("%s retattr.%d %s=%s\n", path, k, name, value);
      if (k < 256)
        names[k] = name;
      k++;
    }
  for (i = 0; i < k && i < 256; i++)
    printf ("%s retattrget.%d %s=%s\n", path, i, names[i], S (g_callable_info_get_return_attribute (info, names[i])));
  printf ("%s retattrget.missing=%s\n", path, S (g_callable_info_get_return_attribute (info, "c09:no-such-attribute")));
}

static void dump_type (const char *path, GITypeInfo *t)
{
  char sub[512];
  GITypeTag tag = g_type_info_get_tag (t);
  printf ("%s type tag=%d pointer=%d\n", path, (int) tag, g_type_info_is_pointer (t) ? 1 : 0);
  if (tag == GI_TYPE_TAG_ARRAY)
    {
      GITypeInfo *p;
      printf ("%s array array_type=%d length=%d fixed_size=%d zero_terminated=%d\n", path,
              (int) g_type_info_get_array_type (t), g_type_info_get_array_length (t),
              g_type_info_get_array_fixed_size (t), g_type_info_is_zero_terminated (t) ? 1 : 0);
      p = g_type_info_get_param_type (t, 0);
      snprintf (sub, sizeof sub, "%s.p0", path);
      dump_type (sub, p);
      g_base_info_unref ((GIBaseInfo *) p);
    }
  else if (tag == GI_TYPE_TAG_GLIST || tag == GI_TYPE_TAG_GSLIST || tag == GI_TYPE_TAG_GHASH)
    {
      int n = tag == GI_TYPE_TAG_GHASH ? 2 : 1, i;
      for (i = 0; i < n; i++)
        {
          GITypeInfo *p = g_type_info_get_param_type (t, i);
          snprintf (sub, sizeof sub, "%s.p%d", path, i);
          dump_type (sub, p);
          g_base_info_unref ((GIBaseInfo *) p);
        }
    }
  else if (tag == GI_TYPE_TAG_INTERFACE)
    {
      GIBaseInfo *iface = g_type_info_get_interface (t);
      char qn[512];
      int local, embedded;
      qname (qn, sizeof qn, iface);
      local = strcmp (S (g_base_info_get_namespace (iface)), NS) == 0;
      embedded = g_base_info_get_type (iface) == GI_INFO_TYPE_CALLBACK
                 && g_base_info_get_container (iface) == (GIBaseInfo *) t;
      if (local)
        printf ("%s iface=%s ikind=%d embedded=%d\n", path, qn, (int) g_base_info_get_type (iface), embedded);
      else
        printf ("%s iface=%s ikind=x embedded=%d\n", path, qn, embedded);
      if (embedded)
        {
          snprintf (sub, sizeof sub, "%s.cb", path);
          printf ("%s callback name=%s deprecated=%d\n", sub, S (g_base_info_get_name (iface)),
                  g_base_info_is_deprecated (iface) ? 1 : 0);
          dump_attrs (sub, iface);
          dump_callable (sub, (GICallableInfo *) iface);
        }
      g_base_info_unref (iface);
    }
}

static void dump_callable (const char *path, GICallableInfo *c)
{
  char sub[512];
  int n = g_callable_info_get_n_args (c), j;
  GITypeInfo *rt;
  printf ("%s callable throws=%d is_method=%d may_return_null=%d skip_return=%d caller_owns=%d instance_transfer=%d n_args=%d\n",
          path, g_callable_info_can_throw_gerror (c) ? 1 : 0, g_callable_info_is_method (c) ? 1 : 0,
          g_callable_info_may_return_null (c) ? 1 : 0, g_callable_info_skip_return (c) ? 1 : 0,
          (int) g_callable_info_get_caller_owns (c), (int) g_callable_info_get_instance_ownership_transfer (c), n);
  rt = g_callable_info_get_return_type (c);
  snprintf (sub, sizeof sub, "%s.ret", path);
  dump_type (sub, rt);
  g_base_info_unref ((GIBaseInfo *) rt);
  dump_ret_attrs (path, c);
  for (j = 0; j < n; j++)
    {
      GIArgInfo *a = g_callable_info_get_arg (c, j);
      GITypeInfo *at;
      snprintf (sub, sizeof sub, "%s.a%d", path, j);
      printf ("%s arg name=%s direction=%d retval=%d caller_allocates=%d optional=%d nullable=%d skip=%d transfer=%d scope=%d closure=%d destroy=%d\n",
              sub, S (g_base_info_get_name ((GIBaseInfo *) a)), (int) g_arg_info_get_direction (a),
              g_arg_info_is_return_value (a) ? 1 : 0, g_arg_info_is_caller_allocates (a) ? 1 : 0,
              g_arg_info_is_optional (a) ? 1 : 0, g_arg_info_may_be_null (a) ? 1 : 0, g_arg_info_is_skip (a) ? 1 : 0,
              (int) g_arg_info_get_ownership_transfer (a), (int) g_arg_info_get_scope (a),
              g_arg_info_get_closure (a), g_arg_info_get_destroy (a));
      dump_attrs (sub, (GIBaseInfo *) a);
      at = g_arg_info_get_type (a);
      snprintf (sub, sizeof sub, "%s.a%d.t", path, j);
      dump_type (sub, at);
      g_base_info_unref ((GIBaseInfo *) at);
      g_base_info_unref ((GIBaseInfo *) a);
    }
}

static void dump_function (const char *path, GIFunctionInfo *f)
{
  GIFunctionInfoFlags flags = g_function_info_get_flags (f);
  printf ("%s function name=%s deprecated=%d symbol=%s flags=%d\n", path, S (g_base_info_get_name ((GIBaseInfo *) f)),
          g_base_info_is_deprecated ((GIBaseInfo *) f) ? 1 : 0, S (g_function_info_get_symbol (f)), (int) flags);
  if (flags & (GI_FUNCTION_IS_GETTER | GI_FUNCTION_IS_SETTER))
    {
      GIPropertyInfo *p = g_function_info_get_property (f);
      printf ("%s accessor_of=%s\n", path, p ? S (g_base_info_get_name ((GIBaseInfo *) p)) : "(null)");
      if (p)
        g_base_info_unref ((GIBaseInfo *) p);
    }
  dump_attrs (path, (GIBaseInfo *) f);
  dump_callable (path, (GICallableInfo *) f);
}

static void dump_field (const char *path, GIFieldInfo *f)
{
  char sub[512];
  GITypeInfo *t;
  printf ("%s field name=%s flags=%d size=%d offset=%d\n", path, S (g_base_info_get_name ((GIBaseInfo *) f)),
          (int) g_field_info_get_flags (f), g_field_info_get_size (f), g_field_info_get_offset (f));
  dump_attrs (path, (GIBaseInfo *) f);
  t = g_field_info_get_type (f);
  snprintf (sub, sizeof sub, "%s.t", path);
  dump_type (sub, t);
  g_base_info_unref ((GIBaseInfo *) t);
}

static void dump_constant (const char *path, GIConstantInfo *c)
{
  char sub[512];
  GITypeInfo *t = g_constant_info_get_type (c);
  GITypeTag tag = g_type_info_get_tag (t);
  GIArgument v;
  int size;
  memset (&v, 0, sizeof v);
  size = g_constant_info_get_value (c, &v);
  printf ("%s constant name=%s deprecated=%d size=%d value=", path, S (g_base_info_get_name ((GIBaseInfo *) c)),
          g_base_info_is_deprecated ((GIBaseInfo *) c) ? 1 : 0, size);
  switch (tag)
    {
    case GI_TYPE_TAG_BOOLEAN: printf ("%d", v.v_boolean ? 1 : 0); break;
    case GI_TYPE_TAG_INT8: printf ("%d", (int) v.v_int8); break;
    case GI_TYPE_TAG_UINT8: printf ("%u", (unsigned) v.v_uint8); break;
    case GI_TYPE_TAG_INT16: printf ("%d", (int) v.v_int16); break;
    case GI_TYPE_TAG_UINT16: printf ("%u", (unsigned) v.v_uint16); break;
    case GI_TYPE_TAG_INT32: printf ("%d", (int) v.v_int32); break;
    case GI_TYPE_TAG_UINT32: printf ("%u", (unsigned) v.v_uint32); break;
    case GI_TYPE_TAG_INT64: printf ("%lld", (long long) v.v_int64); break;
    case GI_TYPE_TAG_UINT64: printf ("%llu", (unsigned long long) v.v_uint64); break;
    case GI_TYPE_TAG_FLOAT: { guint32 u; memcpy (&u, &v.v_float, 4); printf ("f32:%u", (unsigned) u); } break;
    case GI_TYPE_TAG_DOUBLE: { guint64 u; memcpy (&u, &v.v_double, 8); printf ("f64:%llu", (unsigned long long) u); } break;
    case GI_TYPE_TAG_UTF8:
    case GI_TYPE_TAG_FILENAME: printf ("%s", S (v.v_string)); break;
    default: printf ("?"); break;
    }
  printf ("\n");
  g_constant_info_free_value (c, &v);
  dump_attrs (path, (GIBaseInfo *) c);
  snprintf (sub, sizeof sub, "%s.t", path);
  dump_type (sub, t);
  g_base_info_unref ((GIBaseInfo *) t);
}

static void dump_property (const char *path, GIPropertyInfo *p)
{
  char sub[512];
  GIFunctionInfo *s = g_property_info_get_setter (p), *g = g_property_info_get_getter (p);
  GITypeInfo *t;
  printf ("%s property name=%s deprecated=%d flags=%d transfer=%d setter=%s getter=%s\n", path,
          S (g_base_info_get_name ((GIBaseInfo *) p)), g_base_info_is_deprecated ((GIBaseInfo *) p) ? 1 : 0,
          (int) g_property_info_get_flags (p), (int) g_property_info_get_ownership_transfer (p),
          s ? S (g_base_info_get_name ((GIBaseInfo *) s)) : "(null)", g ? S (g_base_info_get_name ((GIBaseInfo *) g)) : "(null)");
  if (s) g_base_info_unref ((GIBaseInfo *) s);
  if (g) g_base_info_unref ((GIBaseInfo *) g);
  dump_attrs (path, (GIBaseInfo *) p);
  t = g_property_info_get_type (p);
  snprintf (sub, sizeof sub, "%s.t", path);
  dump_type (sub, t);
  g_base_info_unref ((GIBaseInfo *) t);
}

static void dump_signal (const char *path, GISignalInfo *s)
{
  GIVFuncInfo *cc = g_signal_info_get_class_closure (s);
  printf ("%s signal name=%s deprecated=%d flags=%d true_stops_emit=%d class_closure=%s\n", path,
          S (g_base_info_get_name ((GIBaseInfo *) s)), g_base_info_is_deprecated ((GIBaseInfo *) s) ? 1 : 0,
          (int) g_signal_info_get_flags (s), g_signal_info_true_stops_emit (s) ? 1 : 0,
          cc ? S (g_base_info_get_name ((GIBaseInfo *) cc)) : "(null)");
  if (cc) g_base_info_unref ((GIBaseInfo *) cc);
  dump_attrs (path, (GIBaseInfo *) s);
  dump_callable (path, (GICallableInfo *) s);
}

static void dump_vfunc (const char *path, GIVFuncInfo *v)
{
  GIFunctionInfo *inv = g_vfunc_info_get_invoker (v);
  GISignalInfo *sig = g_vfunc_info_get_signal (v);
  printf ("%s vfunc name=%s deprecated=%d flags=%d offset=%d invoker=%s signal=%s\n", path,
          S (g_base_info_get_name ((GIBaseInfo *) v)), g_base_info_is_deprecated ((GIBaseInfo *) v) ? 1 : 0,
          (int) g_vfunc_info_get_flags (v), g_vfunc_info_get_offset (v),
          inv ? S (g_base_info_get_name ((GIBaseInfo *) inv)) : "(null)",
          sig ? S (g_base_info_get_name ((GIBaseInfo *) sig)) : "(null)");
  if (inv) g_base_info_unref ((GIBaseInfo *) inv);
  if (sig) g_base_info_unref ((GIBaseInfo *) sig);
  dump_attrs (path, (GIBaseInfo *) v);
  dump_callable (path, (GICallableInfo *) v);
}

/* index j of the member the find_* call returned (g_base_info_equal with get(j)), -1 = NULL, -2 = no j */
#define FIND_INDEX(result, count, getter, owner)                                   \
  ({ int _r = -1; GIBaseInfo *_f = (GIBaseInfo *) (result);                        \
     if (_f) { int _j; _r = -2;                                                    \
       for (_j = 0; _j < (count); _j++) { GIBaseInfo *_g = (GIBaseInfo *) getter (owner, _j); \
         int _eq = g_base_info_equal (_f, _g); g_base_info_unref (_g); if (_eq) { _r = _j; break; } } \
       g_base_info_unref (_f); }                                                   \
     _r; })

static void dump_struct (const char *path, GIStructInfo *s)
{
  char sub[512], qn[512];
  int nf = g_struct_info_get_n_fields (s), nm = g_struct_info_get_n_methods (s), j;
  /* size and alignment are gsize: printed unsigned (an unknown layout is stored as all-ones) */
  printf ("%s struct n_fields=%d n_methods=%d size=%lu alignment=%lu foreign=%d gtype_struct=%d type_name=%s type_init=%s copy=%s free=%s\n",
          path, nf, nm, (unsigned long) g_struct_info_get_size (s), (unsigned long) g_struct_info_get_alignment (s),
          g_struct_info_is_foreign (s) ? 1 : 0, g_struct_info_is_gtype_struct (s) ? 1 : 0,
          S (g_registered_type_info_get_type_name ((GIRegisteredTypeInfo *) s)),
          S (g_registered_type_info_get_type_init ((GIRegisteredTypeInfo *) s)),
          S (g_struct_info_get_copy_function (s)), S (g_struct_info_get_free_function (s)));
  (void) qn;
  dump_attrs (path, (GIBaseInfo *) s);
  for (j = 0; j < nf; j++)
    {
      GIFieldInfo *f = g_struct_info_get_field (s, j);
      snprintf (sub, sizeof sub, "%s.f%d", path, j);
      dump_field (sub, f);
      printf ("%s find=%d\n", sub, FIND_INDEX (g_struct_info_find_field (s, g_base_info_get_name ((GIBaseInfo *) f)), nf, g_struct_info_get_field, s));
      g_base_info_unref ((GIBaseInfo *) f);
    }
  for (j = 0; j < nm; j++)
    {
      GIFunctionInfo *f = g_struct_info_get_method (s, j);
      snprintf (sub, sizeof sub, "%s.m%d", path, j);
      dump_function (sub, f);
      printf ("%s find=%d\n", sub, FIND_INDEX (g_struct_info_find_method (s, g_base_info_get_name ((GIBaseInfo *) f)), nm, g_struct_info_get_method, s));
      g_base_info_unref ((GIBaseInfo *) f);
    }
}

static void dump_union (const char *path, GIUnionInfo *u)
{
  char sub[512];
  int nf = g_union_info_get_n_fields (u), nm = g_union_info_get_n_methods (u), j;
  printf ("%s union n_fields=%d n_methods=%d discriminated=%d size=%lu alignment=%lu type_name=%s type_init=%s copy=%s free=%s\n",
          path, nf, nm, g_union_info_is_discriminated (u) ? 1 : 0, (unsigned long) g_union_info_get_size (u),
          (unsigned long) g_union_info_get_alignment (u),
          S (g_registered_type_info_get_type_name ((GIRegisteredTypeInfo *) u)),
          S (g_registered_type_info_get_type_init ((GIRegisteredTypeInfo *) u)),
          S (g_union_info_get_copy_function (u)), S (g_union_info_get_free_function (u)));
  dump_attrs (path, (GIBaseInfo *) u);
  for (j = 0; j < nf; j++)
    {
      GIFieldInfo *f = g_union_info_get_field (u, j);
      snprintf (sub, sizeof sub, "%s.f%d", path, j);
      dump_field (sub, f);
      g_base_info_unref ((GIBaseInfo *) f);
    }
  for (j = 0; j < nm; j++)
    {
      GIFunctionInfo *f = g_union_info_get_method (u, j);
      snprintf (sub, sizeof sub, "%s.m%d", path, j);
      dump_function (sub, f);
      printf ("%s find=%d\n", sub, FIND_INDEX (g_union_info_find_method (u, g_base_info_get_name ((GIBaseInfo *) f)), nm, g_union_info_get_method, u));
      g_base_info_unref ((GIBaseInfo *) f);
    }
}

static void dump_enum (const char *path, GIEnumInfo *e)
{
  char sub[512];
  int nv = g_enum_info_get_n_values (e), nm = g_enum_info_get_n_methods (e), j;
  printf ("%s enum n_values=%d n_methods=%d storage=%d error_domain=%s type_name=%s type_init=%s\n", path, nv, nm,
          (int) g_enum_info_get_storage_type (e), S (g_enum_info_get_error_domain (e)),
          S (g_registered_type_info_get_type_name ((GIRegisteredTypeInfo *) e)),
          S (g_registered_type_info_get_type_init ((GIRegisteredTypeInfo *) e)));
  dump_attrs (path, (GIBaseInfo *) e);
  for (j = 0; j < nv; j++)
    {
      GIValueInfo *v = g_enum_info_get_value (e, j);
      snprintf (sub, sizeof sub, "%s.v%d", path, j);
      printf ("%s value name=%s deprecated=%d value=%lld\n", sub, S (g_base_info_get_name ((GIBaseInfo *) v)),
              g_base_info_is_deprecated ((GIBaseInfo *) v) ? 1 : 0, (long long) g_value_info_get_value (v));
      dump_attrs (sub, (GIBaseInfo *) v);
      g_base_info_unref ((GIBaseInfo *) v);
    }
  for (j = 0; j < nm; j++)
    {
      GIFunctionInfo *f = g_enum_info_get_method (e, j);
      snprintf (sub, sizeof sub, "%s.m%d", path, j);
      dump_function (sub, f);
      g_base_info_unref ((GIBaseInfo *) f);
    }
}

static void dump_object (const char *path, GIObjectInfo *o)
{
  char sub[512], qp[512], qc[512];
  int ni = g_object_info_get_n_interfaces (o), nf = g_object_info_get_n_fields (o),
      np = g_object_info_get_n_properties (o), nm = g_object_info_get_n_methods (o),
      ns = g_object_info_get_n_signals (o), nv = g_object_info_get_n_vfuncs (o),
      nc = g_object_info_get_n_constants (o), j;
  GIObjectInfo *parent = g_object_info_get_parent (o);
  GIStructInfo *cs = g_object_info_get_class_struct (o);
  qname (qp, sizeof qp, (GIBaseInfo *) parent);
  qname (qc, sizeof qc, (GIBaseInfo *) cs);
  printf ("%s object abstract=%d final=%d fundamental=%d type_name=%s type_init=%s parent=%s class_struct=%s ref=%s unref=%s set_value=%s get_value=%s\n",
          path, g_object_info_get_abstract (o) ? 1 : 0, g_object_info_get_final (o) ? 1 : 0,
          g_object_info_get_fundamental (o) ? 1 : 0, S (g_object_info_get_type_name (o)), S (g_object_info_get_type_init (o)),
          qp, qc, S (g_object_info_get_ref_function (o)), S (g_object_info_get_unref_function (o)),
          S (g_object_info_get_set_value_function (o)), S (g_object_info_get_get_value_function (o)));
  if (parent) g_base_info_unref ((GIBaseInfo *) parent);
  if (cs) g_base_info_unref ((GIBaseInfo *) cs);
  printf ("%s counts n_interfaces=%d n_fields=%d n_properties=%d n_methods=%d n_signals=%d n_vfuncs=%d n_constants=%d\n",
          path, ni, nf, np, nm, ns, nv, nc);
  dump_attrs (path, (GIBaseInfo *) o);
  for (j = 0; j < ni; j++)
    {
      GIInterfaceInfo *i = g_object_info_get_interface (o, j);
      qname (qp, sizeof qp, (GIBaseInfo *) i);
      printf ("%s implements.%d=%s\n", path, j, qp);
      g_base_info_unref ((GIBaseInfo *) i);
    }
  for (j = 0; j < nf; j++)
    {
      GIFieldInfo *f = g_object_info_get_field (o, j);
      snprintf (sub, sizeof sub, "%s.f%d", path, j);
      dump_field (sub, f);
      g_base_info_unref ((GIBaseInfo *) f);
    }
  for (j = 0; j < np; j++)
    {
      GIPropertyInfo *p = g_object_info_get_property (o, j);
      snprintf (sub, sizeof sub, "%s.p%d", path, j);
      dump_property (sub, p);
      g_base_info_unref ((GIBaseInfo *) p);
    }
  for (j = 0; j < nm; j++)
    {
      GIFunctionInfo *f = g_object_info_get_method (o, j);
      snprintf (sub, sizeof sub, "%s.m%d", path, j);
      dump_function (sub, f);
      printf ("%s find=%d\n", sub, FIND_INDEX (g_object_info_find_method (o, g_base_info_get_name ((GIBaseInfo *) f)), nm, g_object_info_get_method, o));
      g_base_info_unref ((GIBaseInfo *) f);
    }
  for (j = 0; j < ns; j++)
    {
      GISignalInfo *s = g_object_info_get_signal (o, j);
      snprintf (sub, sizeof sub, "%s.s%d", path, j);
      dump_signal (sub, s);
      printf ("%s find=%d\n", sub, FIND_INDEX (g_object_info_find_signal (o, g_base_info_get_name ((GIBaseInfo *) s)), ns, g_object_info_get_signal, o));
      g_base_info_unref ((GIBaseInfo *) s);
    }
  for (j = 0; j < nv; j++)
    {
      GIVFuncInfo *v = g_object_info_get_vfunc (o, j);
      snprintf (sub, sizeof sub, "%s.v%d", path, j);
      dump_vfunc (sub, v);
      printf ("%s find=%d\n", sub, FIND_INDEX (g_object_info_find_vfunc (o, g_base_info_get_name ((GIBaseInfo *) v)), nv, g_object_info_get_vfunc, o));
      g_base_info_unref ((GIBaseInfo *) v);
    }
  for (j = 0; j < nc; j++)
    {
      GIConstantInfo *c = g_object_info_get_constant (o, j);
      snprintf (sub, sizeof sub, "%s.c%d", path, j);
      dump_constant (sub, c);
      g_base_info_unref ((GIBaseInfo *) c);
    }
}

static void dump_interface (const char *path, GIInterfaceInfo *o)
{
  char sub[512], qp[512];
  int ni = g_interface_info_get_n_prerequisites (o), np = g_interface_info_get_n_properties (o),
      nm = g_interface_info_get_n_methods (o), ns = g_interface_info_get_n_signals (o),
      nv = g_interface_info_get_n_vfuncs (o), nc = g_interface_info_get_n_constants (o), j;
  GIStructInfo *cs = g_interface_info_get_iface_struct (o);
  qname (qp, sizeof qp, (GIBaseInfo *) cs);
  printf ("%s interface type_name=%s type_init=%s iface_struct=%s\n", path,
          S (g_registered_type_info_get_type_name ((GIRegisteredTypeInfo *) o)),
          S (g_registered_type_info_get_type_init ((GIRegisteredTypeInfo *) o)), qp);
  if (cs) g_base_info_unref ((GIBaseInfo *) cs);
  printf ("%s counts n_prerequisites=%d n_properties=%d n_methods=%d n_signals=%d n_vfuncs=%d n_constants=%d\n",
          path, ni, np, nm, ns, nv, nc);
  dump_attrs (path, (GIBaseInfo *) o);
  for (j = 0; j < ni; j++)
    {
      GIBaseInfo *i = g_interface_info_get_prerequisite (o, j);
      qname (qp, sizeof qp, i);
      printf ("%s prerequisite.%d=%s\n", path, j, qp);
      g_base_info_unref (i);
    }
  for (j = 0; j < np; j++)
    {
      GIPropertyInfo *p = g_interface_info_get_property (o, j);
      snprintf (sub, sizeof sub, "%s.p%d", path, j);
      dump_property (sub, p);
      g_base_info_unref ((GIBaseInfo *) p);
    }
  for (j = 0; j < nm; j++)
    {
      GIFunctionInfo *f = g_interface_info_get_method (o, j);
      snprintf (sub, sizeof sub, "%s.m%d", path, j);
      dump_function (sub, f);
      printf ("%s find=%d\n", sub, FIND_INDEX (g_interface_info_find_method (o, g_base_info_get_name ((GIBaseInfo *) f)), nm, g_interface_info_get_method, o));
      g_base_info_unref ((GIBaseInfo *) f);
    }
  for (j = 0; j < ns; j++)
    {
      GISignalInfo *s = g_interface_info_get_signal (o, j);
      snprintf (sub, sizeof sub, "%s.s%d", path, j);
      dump_signal (sub, s);
      printf ("%s find=%d\n", sub, FIND_INDEX (g_interface_info_find_signal (o, g_base_info_get_name ((GIBaseInfo *) s)), ns, g_interface_info_get_signal, o));
      g_base_info_unref ((GIBaseInfo *) s);
    }
  for (j = 0; j < nv; j++)
    {
      GIVFuncInfo *v = g_interface_info_get_vfunc (o, j);
      snprintf (sub, sizeof sub, "%s.v%d", path, j);
      dump_vfunc (sub, v);
      printf ("%s find=%d\n", sub, FIND_INDEX (g_interface_info_find_vfunc (o, g_base_info_get_name ((GIBaseInfo *) v)), nv, g_interface_info_get_vfunc, o));
      g_base_info_unref ((GIBaseInfo *) v);
    }
  for (j = 0; j < nc; j++)
    {
      GIConstantInfo *c = g_interface_info_get_constant (o, j);
      snprintf (sub, sizeof sub, "%s.c%d", path, j);
      dump_constant (sub, c);
      g_base_info_unref ((GIBaseInfo *) c);
    }
}

int main (int argc, char **argv)
{
  GError *error = NULL;
  GIRepository *repo = g_irepository_get_default ();
  GITypelib *tl;
  int n, i;
  if (argc < 3)
    return 2;
  NS = argv[2];
  g_irepository_prepend_search_path (argv[1]);
  tl = g_irepository_require (repo, NS, argc > 3 ? argv[3] : NULL, 0, &error);
  if (!tl)
    {
      printf ("ERROR %s\n", error->message);
      return 1;
    }
  n = g_irepository_get_n_infos (repo, NS);
  printf ("ns name=%s n_infos=%d version=%s shared_library=%s c_prefix=%s\n", NS, n,
          S (g_irepository_get_version (repo, NS)), S (g_irepository_get_shared_library (repo, NS)),
          S (g_irepository_get_c_prefix (repo, NS)));
  for (i = 0; i < n; i++)
    {
      GIBaseInfo *info = g_irepository_get_info (repo, NS, i);
      GIInfoType kind = g_base_info_get_type (info);
      GIBaseInfo *byname;
      char path[64];
      snprintf (path, sizeof path, "e%d", i);
      printf ("%s entry kind=%d name=%s deprecated=%d\n", path, (int) kind, S (g_base_info_get_name (info)),
              g_base_info_is_deprecated (info) ? 1 : 0);
      byname = g_irepository_find_by_name (repo, NS, g_base_info_get_name (info));
      printf ("%s find_by_name=%d\n", path, byname ? (g_base_info_equal (byname, info) ? 1 : 0) : -1);
      if (byname)
        g_base_info_unref (byname);
      switch (kind)
        {
        case GI_INFO_TYPE_FUNCTION: dump_function (path, (GIFunctionInfo *) info); break;
        case GI_INFO_TYPE_CALLBACK:
          dump_attrs (path, info);
          dump_callable (path, (GICallableInfo *) info);
          break;
        case GI_INFO_TYPE_STRUCT:
        case GI_INFO_TYPE_BOXED: dump_struct (path, (GIStructInfo *) info); break;
        case GI_INFO_TYPE_UNION: dump_union (path, (GIUnionInfo *) info); break;
        case GI_INFO_TYPE_ENUM:
        case GI_INFO_TYPE_FLAGS: dump_enum (path, (GIEnumInfo *) info); break;
        case GI_INFO_TYPE_OBJECT: dump_object (path, (GIObjectInfo *) info); break;
        case GI_INFO_TYPE_INTERFACE: dump_interface (path, (GIInterfaceInfo *) info); break;
        case GI_INFO_TYPE_CONSTANT: dump_constant (path, (GIConstantInfo *) info); break;
        default: printf ("%s unknown-kind\n", path); break;
        }
      g_base_info_unref (info);
    }
  return 0;
}
