/* smoke test for the shim build: load a typelib through the public repository API
   and print its directory.  usage: smoke <dir> <Namespace> [version] */
#include <stdio.h>
#include <girepository.h>

int main (int argc, char **argv)
{
  GError *error = NULL;
  GIRepository *repo = g_irepository_get_default ();
  g_irepository_prepend_search_path (argv[1]);
  GITypelib *tl = g_irepository_require (repo, argv[2], argc > 3 ? argv[3] : NULL, 0, &error);
  if (!tl)
    {
      printf ("ERROR %s\n", error->message);
      return 1;
    }
  int n = g_irepository_get_n_infos (repo, argv[2]);
  printf ("n_infos %d version %s\n", n, g_irepository_get_version (repo, argv[2]));
  for (int i = 0; i < n; i++)
    {
      GIBaseInfo *info = g_irepository_get_info (repo, argv[2], i);
      printf ("%d %s type=%d\n", i, g_base_info_get_name (info), (int) g_base_info_get_type (info));
      g_base_info_unref (info);
    }
  return 0;
}
