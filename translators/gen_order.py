#!/usr/bin/env python3
"""Gen/Order.lean: every place of the scanner where an ORDER is decided or where an
unordered container is iterated, re-read from /repo's sources with Python's `ast` on
every run.

  sortSites    every `sorted(...)` / `.sort(...)` call of giscanner/girwriter.py:
               (function, expression that is sorted, key expression or "")
  listSites    every `for x in <expr>` of girwriter.py that is NOT wrapped in sorted():
               (function, iterated expression)  -- declaration-order emission
  setIters     every iteration (for / comprehension / min / max / list / tuple / join)
               over an expression typed `set` in the files that feed the writer:
               (file, function, iterated expression, how, sorted?)
               An expression is typed `set` when it is an attribute whose name is assigned
               `set(...)` somewhere in these files (includes, file_positions, ...), a local
               name assigned from `set(...)` or from a set operation on such names, or a
               direct `set(...)` call.
  nscmpShape   the body of the local key function `nscmp` of `_write_namespace`
  validateShape / aliasAnalysisShape / namespaceWalkShape / ...Digest
               the loop of IntrospectablePass.validate and the two walks it repeats
  mainPositionShape / blockDictShape / tagNsShape / parseIncludeShape
               `ast.dump` digests (structure, no line numbers) of the four functions the
               model mirrors by hand, reduced to a short list of structural facts that a
               `decide` theorem compares with the shape the model was written for.
"""
import ast
import hashlib
import os
import sys

from common import write_if_changed, lean_list, lean_str, REPO

WRITER = 'giscanner/girwriter.py'
FILES = ['giscanner/girwriter.py', 'giscanner/ast.py', 'giscanner/transformer.py',
         'giscanner/maintransformer.py', 'giscanner/cachestore.py', 'giscanner/annotationparser.py',
         'giscanner/girparser.py', 'giscanner/gdumpparser.py', 'giscanner/introspectablepass.py',
         'giscanner/message.py']


def src(node):
    return ast.unparse(node)


def parse(rel):
    with open(os.path.join(REPO, rel), encoding='utf-8') as f:
        return ast.parse(f.read(), rel)


class FuncIndex(ast.NodeVisitor):
    """maps every node to the qualified name of the innermost enclosing def"""

    def __init__(self):
        self.stack = []
        self.owner = {}

    def generic_visit(self, node):
        self.owner[id(node)] = '.'.join(self.stack) or '<module>'
        pushed = False
        if isinstance(node, (ast.FunctionDef, ast.ClassDef, ast.AsyncFunctionDef)):
            self.stack.append(node.name)
            pushed = True
        super().generic_visit(node)
        if pushed:
            self.stack.pop()


def is_set_call(node):
    return isinstance(node, ast.Call) and isinstance(node.func, ast.Name) and node.func.id in ('set', 'frozenset')


def collect_set_attrs(trees):
    """attribute names assigned a set somewhere: `self.X = set(...)`"""
    attrs = set()
    for tree in trees.values():
        for node in ast.walk(tree):
            if isinstance(node, ast.Assign) and is_set_call(node.value):
                for t in node.targets:
                    if isinstance(t, ast.Attribute):
                        attrs.add(t.attr)
    # Namespace.includes is re-bound from GIRParser._includes, GIRParser's sets are
    # handed to the namespace under these names:
    for tree in trees.values():
        for node in ast.walk(tree):
            if isinstance(node, ast.Assign) and isinstance(node.value, ast.Attribute) \
                    and node.value.attr in attrs:
                for t in node.targets:
                    if isinstance(t, ast.Attribute):
                        attrs.add(t.attr)
    return attrs


def local_sets(func, set_attrs):
    """local names of `func` bound to sets (set(...) calls, set operations, set attributes)"""
    names = set()
    changed = True

    def typed(e):
        if is_set_call(e):
            return True
        if isinstance(e, ast.Name):
            return e.id in names
        if isinstance(e, ast.BinOp) and isinstance(e.op, (ast.Sub, ast.BitOr, ast.BitAnd, ast.BitXor)):
            return typed(e.left) and typed(e.right)
        return False
    while changed:
        changed = False
        for node in ast.walk(func):
            if isinstance(node, ast.Assign) and typed(node.value):
                for t in node.targets:
                    if isinstance(t, ast.Name) and t.id not in names:
                        names.add(t.id)
                        changed = True
    return names, typed


def set_typed(e, set_attrs, typed_local):
    if isinstance(e, ast.Attribute) and e.attr in set_attrs:
        return True
    return typed_local(e)


def scan_set_iters(rel, tree, set_attrs):
    out = []
    idx = FuncIndex()
    idx.visit(tree)
    funcs = [n for n in ast.walk(tree) if isinstance(n, (ast.FunctionDef, ast.AsyncFunctionDef))]
    seen = set()
    for fn in funcs:
        names, typed_local = local_sets(fn, set_attrs)

        def classify(e):
            """(is over a set?, sorted?, inner expression)"""
            if isinstance(e, ast.Call) and isinstance(e.func, ast.Name) and e.func.id == 'sorted' and e.args:
                inner = e.args[0]
                if set_typed(inner, set_attrs, typed_local):
                    return True, True, inner
                return False, True, inner
            if set_typed(e, set_attrs, typed_local):
                return True, False, e
            return False, False, e
        for node in ast.walk(fn):
            sites = []
            if isinstance(node, (ast.For, ast.AsyncFor)):
                sites.append(('for', node.iter))
            elif isinstance(node, (ast.ListComp, ast.SetComp, ast.GeneratorExp, ast.DictComp)):
                for g in node.generators:
                    sites.append(('comp', g.iter))
            elif isinstance(node, ast.Call) and isinstance(node.func, ast.Name) \
                    and node.func.id in ('min', 'max', 'list', 'tuple', 'next', 'iter') and node.args:
                sites.append((node.func.id, node.args[0]))
            elif isinstance(node, ast.Call) and isinstance(node.func, ast.Attribute) \
                    and node.func.attr == 'join' and node.args:
                sites.append(('join', node.args[0]))
            for how, e in sites:
                is_set, is_sorted, inner = classify(e)
                if not is_set:
                    continue
                key = (id(node), how, src(inner))
                if key in seen:
                    continue
                seen.add(key)
                # innermost function only
                if idx.owner.get(id(node), '').split('.')[-1] != fn.name and \
                        not idx.owner.get(id(node), '').endswith(fn.name):
                    continue
                out.append((rel, idx.owner[id(node)], src(inner), how, is_sorted, node.lineno))
    # the same node is reached from enclosing functions too: keep the innermost owner only
    uniq = {}
    for rel_, owner, expr, how, srt, line in out:
        k = (rel_, line, expr, how)
        if k not in uniq or len(owner) > len(uniq[k][1]):
            uniq[k] = (rel_, owner, expr, how, srt, line)
    res = sorted(uniq.values(), key=lambda t: (t[0], t[5], t[2], t[3]))
    return [(a, b, c, d, e) for a, b, c, d, e, _l in res]


def scan_writer(tree):
    idx = FuncIndex()
    idx.visit(tree)
    sort_sites = []
    list_sites = []
    for node in ast.walk(tree):
        if isinstance(node, ast.Call):
            if isinstance(node.func, ast.Name) and node.func.id == 'sorted' and node.args:
                key = ''
                for kw in node.keywords:
                    if kw.arg == 'key':
                        key = src(kw.value)
                    elif kw.arg == 'reverse':
                        key += ' reverse=' + src(kw.value)
                sort_sites.append((node.lineno, idx.owner[id(node)], src(node.args[0]), key))
            elif isinstance(node.func, ast.Attribute) and node.func.attr == 'sort':
                key = ''
                for kw in node.keywords:
                    if kw.arg == 'key':
                        key = src(kw.value)
                    elif kw.arg == 'reverse':
                        key += ' reverse=' + src(kw.value)
                sort_sites.append((node.lineno, idx.owner[id(node)], src(node.func.value) + '.sort', key))
        if isinstance(node, ast.For):
            it = node.iter
            if not (isinstance(it, ast.Call) and isinstance(it.func, ast.Name) and it.func.id == 'sorted'):
                list_sites.append((node.lineno, idx.owner[id(node)], src(it)))
    sort_sites.sort()
    list_sites.sort()
    return [(f, e, k) for _l, f, e, k in sort_sites], [(f, e) for _l, f, e in list_sites]


def find_func(tree, qual):
    parts = qual.split('.')

    def rec(body, parts):
        for n in body:
            if isinstance(n, (ast.FunctionDef, ast.ClassDef)) and n.name == parts[0]:
                if len(parts) == 1:
                    return n
                return rec(n.body, parts[1:])
        return None
    return rec(tree.body, parts)


def strip_doc(fn):
    body = list(fn.body)
    if body and isinstance(body[0], ast.Expr) and isinstance(getattr(body[0], 'value', None), ast.Constant) \
            and isinstance(body[0].value.value, str):
        body = body[1:]
    return body


def shape_lines(fn):
    """one normalised source line per statement of the function body (comments and the
    docstring dropped, `ast.unparse` formatting): enough to pin the control flow the model
    mirrors, short enough for a `decide` comparison"""
    if fn is None:
        return ['<missing>']
    mod = ast.Module(body=strip_doc(fn), type_ignores=[])
    text = ast.unparse(mod)
    return [ln.rstrip() for ln in text.split('\n') if ln.strip()]


def digest(lines):
    return hashlib.sha256('\n'.join(lines).encode('utf-8')).hexdigest()[:16]


def main():
    trees = {rel: parse(rel) for rel in FILES}
    set_attrs = collect_set_attrs(trees)
    sort_sites, list_sites = scan_writer(trees[WRITER])
    set_iters = []
    for rel in FILES:
        set_iters.extend(scan_set_iters(rel, trees[rel], set_attrs))

    wns = find_func(trees[WRITER], 'GIRWriter._write_namespace')
    nscmp = None
    if wns is not None:
        for n in ast.walk(wns):
            if isinstance(n, ast.FunctionDef) and n.name == 'nscmp':
                nscmp = n
    shapes = {
        'nscmpShape': shape_lines(nscmp),
        'mainPositionShape': shape_lines(find_func(trees['giscanner/ast.py'], 'Node.get_main_position')),
        'positionEqShape': shape_lines(find_func(trees['giscanner/message.py'], 'Position._compare')) +
        shape_lines(find_func(trees['giscanner/message.py'], 'Position.__hash__')),
        'nodeCompareShape': shape_lines(find_func(trees['giscanner/ast.py'], 'Node._compare')),
        'includeCompareShape': shape_lines(find_func(trees['giscanner/ast.py'], 'Include._compare')),
        'typeCompareShape': shape_lines(find_func(trees['giscanner/ast.py'], 'Type._compare')),
        'parseIncludeShape': shape_lines(find_func(trees['giscanner/transformer.py'], 'Transformer._parse_include')),
        'sortMatchesShape': shape_lines(find_func(trees['giscanner/transformer.py'], 'Transformer._sort_matches')),
        'validateShape': shape_lines(find_func(trees['giscanner/introspectablepass.py'], 'IntrospectablePass.validate')),
        'aliasAnalysisShape': shape_lines(find_func(trees['giscanner/introspectablepass.py'],
                                                    'IntrospectablePass._introspectable_alias_analysis')),
        'namespaceWalkShape': shape_lines(find_func(trees['giscanner/ast.py'], 'Namespace.walk')),
    }
    digests = {
        'parseDigest': digest(shape_lines(find_func(trees['giscanner/transformer.py'], 'Transformer.parse'))),
        'typedefCompoundDigest': digest(shape_lines(find_func(trees['giscanner/transformer.py'],
                                                              'Transformer._create_typedef_compound'))),
        'tagNsCompoundDigest': digest(shape_lines(find_func(trees['giscanner/transformer.py'],
                                                            'Transformer._create_tag_ns_compound'))),
        'appendNewNodeDigest': digest(shape_lines(find_func(trees['giscanner/transformer.py'],
                                                            'Transformer._append_new_node'))),
        'blockDictDigest': digest(shape_lines(find_func(trees['giscanner/annotationparser.py'],
                                                        'GtkDocCommentBlockParser.parse_comment_blocks'))),
        'resolveCtypeDigest': digest(shape_lines(find_func(trees['giscanner/transformer.py'],
                                                           'Transformer._resolve_type_from_ctype'))),
        'splitMatchesDigest': digest(shape_lines(find_func(trees['giscanner/transformer.py'],
                                                           'Transformer._split_c_string_for_namespace_matches'))),
        'callableAnalysisDigest': digest(shape_lines(find_func(trees['giscanner/introspectablepass.py'],
                                                               'IntrospectablePass._introspectable_callable_analysis'))),
        'typeIsIntrospectableDigest': digest(shape_lines(find_func(trees['giscanner/introspectablepass.py'],
                                                                   'IntrospectablePass._type_is_introspectable'))),
        'countIntrospectableDigest': digest(shape_lines(find_func(trees['giscanner/introspectablepass.py'],
                                                                  'IntrospectablePass._count_introspectable'))),
    }

    def tup(items):
        return '(' + ', '.join(items) + ')'
    parts = ['-- GENERATED by translators/gen_order.py from giscanner/*.py. Do not edit.',
             'namespace GIVerif.Gen.Order', '']
    parts.append('/-- every `sorted(...)` / `.sort(...)` of girwriter.py: (function, sorted expression, key) -/')
    parts.append('def sortSites : List (String × String × String) := ' +
                 lean_list([tup([lean_str(f), lean_str(e), lean_str(k)]) for f, e, k in sort_sites]))
    parts.append('')
    parts.append('/-- every `for` of girwriter.py that is not over `sorted(...)`: (function, iterated expression) -/')
    parts.append('def listSites : List (String × String) := ' +
                 lean_list([tup([lean_str(f), lean_str(e)]) for f, e in list_sites]))
    parts.append('')
    parts.append('/-- attribute names that hold a Python `set` -/')
    parts.append('def setAttrs : List String := ' + lean_list([lean_str(a) for a in sorted(set_attrs)]))
    parts.append('')
    parts.append('/-- every iteration over a set-typed expression: (file, function, expression, how, sorted?) -/')
    parts.append('def setIters : List (String × String × String × String × Bool) := ' +
                 lean_list([tup([lean_str(a), lean_str(b), lean_str(c), lean_str(d), 'true' if e else 'false'])
                            for a, b, c, d, e in set_iters]))
    parts.append('')
    for name in sorted(shapes):
        parts.append('def %s : List String := %s' % (name, lean_list([lean_str(s) for s in shapes[name]])))
        parts.append('')
    for name in sorted(digests):
        parts.append('def %s : String := %s' % (name, lean_str(digests[name])))
        parts.append('')
    parts.append('end GIVerif.Gen.Order')
    text = '\n'.join(parts) + '\n'
    path, dg, changed = write_if_changed('Order.lean', text)
    print('gen_order: %s sha256=%s changed=%s sort_sites=%d list_sites=%d set_iters=%d set_attrs=%s'
          % (path, dg[:12], changed, len(sort_sites), len(list_sites), len(set_iters), sorted(set_attrs)))


if __name__ == '__main__':
    main()
