#!/usr/bin/env python3
"""Gen/GirReaderState.lean: which attributes of giscanner/girparser.py's GIRParser hold PER-DOCUMENT state and where
they are (re)initialised, re-extracted from /repo's current tree on every run with Python's `ast` module.

  initAssigns      attributes assigned (`self._x = …`) in `__init__`
  parseTreeResets  attributes assigned in `parse_tree` BEFORE the call of `self._parse_api(...)`
  perDocument      attributes that parsing a document reads or changes: every `self._x` that is stored to outside
                   `__init__`, or mutated through a method call (`self._x.add(...)`), or read, inside `_parse_api`
                   and the repository-header handlers it dispatches to (`_parse_include`, `_parse_pkgconfig_package`,
                   `_parse_c_include`, `_parse_doc_format`) — minus the reader's configuration / bookkeeping
                   (`_types_only`: constructor argument; `_filename_stack`: balanced push/pop in `parse`)
  headerHandlers   repository child element -> attribute it changes (`include` -> `_includes` …)

Consumed by `C07_reader_state_pinned` (a `decide` theorem: perDocument ⊆ parseTreeResets) and by the state-machine
model `GIVerif.GirCodec.parseHeader`.
"""
import ast
import os
import sys

from common import write_if_changed, lean_list, lean_str, REPO

INFRA = ('_types_only', '_filename_stack')
HANDLERS = ('_parse_include', '_parse_pkgconfig_package', '_parse_c_include', '_parse_doc_format')


class Shape(Exception):
    pass


def self_attr(n):
    if isinstance(n, ast.Attribute) and isinstance(n.value, ast.Name) and n.value.id == 'self':
        return n.attr
    return None


def compute(repo=REPO):
    path = os.path.join(repo, 'giscanner', 'girparser.py')
    with open(path, encoding='utf-8') as f:
        tree = ast.parse(f.read())
    cls = [n for n in tree.body if isinstance(n, ast.ClassDef) and n.name == 'GIRParser']
    if not cls:
        raise Shape('class GIRParser not found')
    meths = {f.name: f for f in cls[0].body if isinstance(f, ast.FunctionDef)}
    for need in ('__init__', 'parse_tree', '_parse_api'):
        if need not in meths:
            raise Shape('method %s not found' % need)

    def stores(fn_body):
        out = []
        for st in fn_body:
            for n in ast.walk(st):
                if isinstance(n, (ast.Assign, ast.AugAssign, ast.AnnAssign)):
                    targets = n.targets if isinstance(n, ast.Assign) else [n.target]
                    for t in targets:
                        for tt in (t.elts if isinstance(t, (ast.Tuple, ast.List)) else [t]):
                            a = self_attr(tt)
                            if a:
                                out.append(a)
        return out

    init_assigns = sorted(set(stores(meths['__init__'].body)))
    # parse_tree: statements before the one that calls self._parse_api
    pt = meths['parse_tree'].body
    idx = None
    for i, st in enumerate(pt):
        for n in ast.walk(st):
            if isinstance(n, ast.Call) and self_attr(n.func) == '_parse_api':
                idx = i
                break
        if idx is not None:
            break
    if idx is None:
        raise Shape('parse_tree no longer calls self._parse_api')
    resets = sorted(set(stores(pt[:idx])))
    method_names = set(meths)
    attrs_stored_anywhere = set()
    for name, fn in meths.items():
        attrs_stored_anywhere.update(stores(fn.body))
    per_doc = set()
    for name, fn in meths.items():
        if name != '__init__':
            per_doc.update(stores(fn.body))
    handlers = {}
    for name in ('_parse_api', ) + HANDLERS:
        fn = meths.get(name)
        if fn is None:
            continue
        for n in ast.walk(fn):
            a = self_attr(n)
            if a and a not in method_names and a in attrs_stored_anywhere:
                per_doc.add(a)
            # self._x.add(...) / .append(...) / .update(...)
            if isinstance(n, ast.Call) and isinstance(n.func, ast.Attribute) and n.func.attr in ('add', 'append', 'update'):
                a = self_attr(n.func.value)
                if a:
                    per_doc.add(a)
                    if name in HANDLERS:
                        handlers[name] = a
            if isinstance(n, ast.Assign) and name in HANDLERS:
                for t in n.targets:
                    a = self_attr(t)
                    if a:
                        handlers[name] = a
    per_doc -= set(INFRA)
    # which repository child goes to which handler: `node.tag == _corens('include'): self._parse_include(node)`
    elem_of = {}
    for n in ast.walk(meths['_parse_api']):
        if isinstance(n, ast.If) and isinstance(n.test, ast.Compare) and len(n.test.comparators) == 1:
            c = n.test.comparators[0]
            if isinstance(c, ast.Call) and isinstance(c.func, ast.Name) and c.args and isinstance(c.args[0], ast.Constant):
                pref = {'_corens': '', '_cns': 'c:', '_glibns': 'glib:', '_docns': 'doc:'}.get(c.func.id)
                if pref is None:
                    continue
                for st in n.body:
                    for m in ast.walk(st):
                        if isinstance(m, ast.Call) and self_attr(m.func) in handlers:
                            elem_of[pref + c.args[0].value] = handlers[self_attr(m.func)]
    return {'init': init_assigns, 'resets': resets, 'per_doc': sorted(per_doc), 'handlers': sorted(elem_of.items())}


def main():
    try:
        t = compute()
    except (Shape, OSError, SyntaxError) as e:
        print('gen_girreader_state: the source no longer has the shape this translator reads: %s' % e)
        return 1
    text = '''-- GENERATED by translators/gen_girreader_state.py from giscanner/girparser.py (class GIRParser). Do not edit.
namespace GIVerif.Gen.GirReaderState

/-- attributes assigned in `GIRParser.__init__` -/
def initAssigns : List String := %s

/-- attributes assigned in `GIRParser.parse_tree` before it calls `_parse_api` -/
def parseTreeResets : List String := %s

/-- attributes that reading a document reads or changes (without `_types_only`, `_filename_stack`) -/
def perDocument : List String := %s

/-- repository child element -> the attribute its handler changes -/
def headerHandlers : List (String × String) := %s

end GIVerif.Gen.GirReaderState
''' % (lean_list([lean_str(x) for x in t['init']]), lean_list([lean_str(x) for x in t['resets']]),
       lean_list([lean_str(x) for x in t['per_doc']]),
       lean_list(['(%s, %s)' % (lean_str(k), lean_str(v)) for k, v in t['handlers']]))
    path, digest, changed = write_if_changed('GirReaderState.lean', text)
    print('gen_girreader_state: %s sha256=%s changed=%s init=%s resets=%s per_document=%s'
          % (path, digest[:12], changed, t['init'], t['resets'], t['per_doc']))
    return 0


if __name__ == '__main__':
    sys.exit(main())
