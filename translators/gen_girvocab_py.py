#!/usr/bin/env python3
"""Gen/GirVocabPy.lean: everything giscanner/girwriter.py can emit, re-read from /repo on every run.

A Python `ast` walk of class GIRWriter (no import, no execution): a small abstract
interpretation of the `_write_*` methods starting at `_write_repository`:

  * `with self.tagcontext(TAG, attrs)` / `self.write_tag(TAG, attrs, data)` emit an element below
    the elements currently open; TAG is a string constant, a parameter (resolved at each call
    site) or a local assigned constants;
  * `attrs` lists are followed through `= [...]`, `.append((name, value))`, `.extend([...])`,
    `.insert(0, (name, value))`, `list(extra_attrs)` and through the `_append_*` helpers that
    receive the list;
  * calls `self._write_x(...)` are analysed in the context of the caller (open elements, bound
    tag names and attribute lists), recursion is cut when a (method, context) pair repeats;
  * `isinstance(E, ast.K)` tests are resolved by a case split over the node classes named in
    the tests of a method (subclass relations read from giscanner/ast.py), so that e.g. the
    attributes written for a class are not attributed to an interface;
  * attribute values: string constants are literal values; `X.transfer`, `X.direction`,
    `X.scope`, `X.when` range over the PARAM_TRANSFER_*, PARAM_DIRECTION_*, PARAM_SCOPE_*,
    SIGNAL_* constants of giscanner/ast.py minus the values excluded by an enclosing
    `X.f != 'v'` test; anything else is free-form.

Constructs the walk does not understand are listed in `c15PyShape` (a `decide` theorem demands
it to be empty); the translator itself does not fail.
"""
import ast
import os
import sys

from common import write_if_changed, lean_list, lean_str, REPO

SHAPE = []
DOMAIN_OF_FIELD = {'transfer': 'PARAM_TRANSFER_', 'direction': 'PARAM_DIRECTION_', 'scope': 'PARAM_SCOPE_', 'when': 'SIGNAL_'}


def shape(msg):
    if msg not in SHAPE:
        SHAPE.append(msg)


def code(name):
    """a name as a natural number: 1, then its bytes, base 256 (ASCII only: injective)"""
    try:
        return str(int.from_bytes(b'\x01' + name.encode('ascii'), 'big'))
    except UnicodeEncodeError:
        shape('non-ASCII name %r' % name)
        return '0'


def group_adj(pairs):
    """[(key, value)] -> [(key, [values])]: runs of adjacent equal keys (Model/GirConsume.lean groupAdj)"""
    out = []
    for k, v in pairs:
        if out and out[-1][0] == k:
            out[-1][1].append(v)
        else:
            out.append((k, [v]))
    return out


class AttrList(object):
    """abstract list of (name, value-descriptors) tuples; shared by reference like the real list"""

    def __init__(self):
        self.items = []      # (name, frozenset of value descriptors)

    def add(self, name, vals):
        self.items.append((name, frozenset(vals)))

    def copy(self):
        a = AttrList()
        a.items = list(self.items)
        return a


class StrSet(object):
    def __init__(self, vals):
        self.vals = set(vals)


class Walker(object):
    def __init__(self, writer_src, ast_src):
        self.tree = ast.parse(writer_src)
        self.consts = {}
        for node in self.tree.body:
            if isinstance(node, ast.Assign) and len(node.targets) == 1 and isinstance(node.targets[0], ast.Name) \
                    and isinstance(node.value, ast.Constant) and isinstance(node.value.value, str):
                self.consts[node.targets[0].id] = node.value.value
        cls = [n for n in self.tree.body if isinstance(n, ast.ClassDef) and n.name == 'GIRWriter']
        self.methods = {}
        if not cls:
            shape('class GIRWriter not found')
        else:
            for n in cls[0].body:
                if isinstance(n, ast.FunctionDef):
                    self.methods[n.name] = n
        # giscanner/ast.py: string constants and the class hierarchy
        self.ast_consts = {}
        self.bases = {}
        t = ast.parse(ast_src)
        for node in t.body:
            if isinstance(node, ast.Assign) and len(node.targets) == 1 and isinstance(node.targets[0], ast.Name) \
                    and isinstance(node.value, ast.Constant) and isinstance(node.value.value, str):
                self.ast_consts[node.targets[0].id] = node.value.value
            elif isinstance(node, ast.ClassDef):
                self.bases[node.name] = [b.id for b in node.bases if isinstance(b, ast.Name)]
        self.children = set()
        self.attrs = set()
        self.values = {}      # (element, attr) -> set of descriptors
        self.text = set()
        self.stack = []
        self.done = set()

    # ---- class hierarchy of giscanner.ast
    def is_sub(self, k, t):
        if k == t:
            return True
        return any(self.is_sub(b, t) for b in self.bases.get(k, []))

    def domain(self, prefix):
        return sorted(v for k, v in self.ast_consts.items() if k.startswith(prefix))

    # ---- expression evaluation
    def const_of(self, e):
        """string value of a constant-like expression (literal, module constant, ast.NAME) or None"""
        if isinstance(e, ast.Constant) and isinstance(e.value, str):
            return e.value
        if isinstance(e, ast.Name) and e.id in self.consts:
            return self.consts[e.id]
        if isinstance(e, ast.Attribute) and isinstance(e.value, ast.Name) and e.value.id == 'ast' and e.attr in self.ast_consts:
            return self.ast_consts[e.attr]
        return None

    def eval_tag(self, e, env):
        c = self.const_of(e)
        if c is not None:
            return {c}
        if isinstance(e, ast.Name) and isinstance(env.get(e.id), StrSet):
            return set(env[e.id].vals)
        shape('element name not resolved: %s' % ast.unparse(e)[:60])
        return set()

    def value_desc(self, e, guards):
        """descriptors of an attribute value expression: ('lit', s) | ('dyn', '') ; domain values are
        expanded to literals"""
        c = self.const_of(e)
        if c is not None:
            return {('lit', c)}
        if isinstance(e, ast.IfExp):
            return self.value_desc(e.body, guards) | self.value_desc(e.orelse, guards)
        if isinstance(e, ast.BoolOp) and isinstance(e.op, ast.Or):
            out = set()
            for v in e.values:
                out |= self.value_desc(v, guards)
            return out
        if isinstance(e, ast.Attribute) and e.attr in DOMAIN_OF_FIELD and not (isinstance(e.value, ast.Name) and e.value.id == 'ast'):
            dom = set(self.domain(DOMAIN_OF_FIELD[e.attr]))
            if not dom:
                shape('no %s* constants in giscanner/ast.py' % DOMAIN_OF_FIELD[e.attr])
            key = ast.dump(e)
            for g in guards:
                for ex in self.excluded_by(g, key):
                    dom.discard(ex)
            return set(('lit', v) for v in dom)
        return {('dyn', '')}

    def excluded_by(self, test, key):
        """values v such that the (true) test implies  E != v  for the expression with dump `key`"""
        out = []
        if isinstance(test, ast.BoolOp) and isinstance(test.op, ast.And):
            for v in test.values:
                out += self.excluded_by(v, key)
        elif isinstance(test, ast.Compare) and len(test.ops) == 1 and isinstance(test.ops[0], ast.NotEq):
            l, r = test.left, test.comparators[0]
            if ast.dump(l) == key and self.const_of(r) is not None:
                out.append(self.const_of(r))
            elif ast.dump(r) == key and self.const_of(l) is not None:
                out.append(self.const_of(l))
        return out

    def eval_tuple(self, e, guards):
        if isinstance(e, ast.Tuple) and len(e.elts) == 2:
            name = self.const_of(e.elts[0])
            if name is None:
                shape('attribute name not constant: %s' % ast.unparse(e)[:60])
                return None
            return name, self.value_desc(e.elts[1], guards)
        shape('attribute entry not a pair: %s' % ast.unparse(e)[:60])
        return None

    def eval_attrlist(self, e, env, guards):
        """expression -> AttrList (fresh for displays, the same object for names)"""
        if e is None:
            return AttrList()
        if isinstance(e, ast.Name):
            v = env.get(e.id)
            if isinstance(v, AttrList):
                return v
            shape('attribute list variable %s unknown' % e.id)
            return AttrList()
        if isinstance(e, ast.List):
            a = AttrList()
            for el in e.elts:
                t = self.eval_tuple(el, guards)
                if t:
                    a.add(*t)
            return a
        if isinstance(e, ast.Call) and isinstance(e.func, ast.Name) and e.func.id == 'list' and len(e.args) == 1:
            return self.eval_attrlist(e.args[0], env, guards).copy()
        shape('attribute list expression: %s' % ast.unparse(e)[:60])
        return AttrList()

    # ---- emission
    def emit(self, tags, attrs, parents, has_text):
        for t in tags:
            for p in parents:
                self.children.add((p, t))
            for name, vals in attrs.items:
                self.attrs.add((t, name))
                self.values.setdefault((t, name), set()).update(vals)
            if has_text:
                self.text.add(t)

    # ---- isinstance case split
    def isinstance_tests(self, fn):
        """{dump(E): (E, set of class names)} over all isinstance(E, ast.K | (ast.K, ...)) in fn"""
        out = {}
        for n in ast.walk(fn):
            if isinstance(n, ast.Call) and isinstance(n.func, ast.Name) and n.func.id == 'isinstance' and len(n.args) == 2:
                names = self.class_names(n.args[1])
                if names is None:
                    continue
                k = ast.dump(n.args[0])
                out.setdefault(k, (n.args[0], set()))[1].update(names)
        return out

    def class_names(self, e):
        if isinstance(e, ast.Attribute) and isinstance(e.value, ast.Name) and e.value.id == 'ast':
            return [e.attr]
        if isinstance(e, ast.Tuple):
            out = []
            for x in e.elts:
                n = self.class_names(x)
                if n is None:
                    return None
                out += n
            return out
        return None

    def eval_test(self, test, assume):
        """True / False / None (unknown) of a test under the isinstance assumptions {dump(E): class}"""
        if isinstance(test, ast.Call) and isinstance(test.func, ast.Name) and test.func.id == 'isinstance' and len(test.args) == 2:
            names = self.class_names(test.args[1])
            k = ast.dump(test.args[0])
            if names is not None and k in assume:
                if assume[k] is None:
                    return False
                return any(self.is_sub(assume[k], n) for n in names)
            return None
        if isinstance(test, ast.UnaryOp) and isinstance(test.op, ast.Not):
            v = self.eval_test(test.operand, assume)
            return None if v is None else (not v)
        if isinstance(test, ast.BoolOp):
            vals = [self.eval_test(v, assume) for v in test.values]
            if isinstance(test.op, ast.And):
                if any(v is False for v in vals):
                    return False
                return True if all(v is True for v in vals) else None
            if any(v is True for v in vals):
                return True
            return False if all(v is False for v in vals) else None
        return None

    # ---- statements
    def run_method(self, name, bound, parents):
        fn = self.methods.get(name)
        if fn is None:
            shape('method %s not found' % name)
            return
        key = (name, tuple(sorted(parents)),
               tuple(sorted((k, tuple(sorted(v.vals))) for k, v in bound.items() if isinstance(v, StrSet))),
               tuple(sorted((k, tuple((n, tuple(sorted(vs))) for n, vs in v.items)) for k, v in bound.items()
                            if isinstance(v, AttrList))))
        if key in self.stack:
            return
        # a finished analysis of the same method in the same context adds nothing new; the
        # `_append_*` helpers are re-run every time because they fill the caller's list
        if not name.startswith('_append'):
            if key in self.done:
                return
            self.done.add(key)
        self.stack.append(key)
        try:
            tests = self.isinstance_tests(fn)
            # one run per combination of concrete classes of the tested expressions
            combos = [{}]
            for k, (expr, names) in sorted(tests.items()):
                # candidates: the named classes that are not strict superclasses of another named one, plus "other"
                cands = sorted(names) + [None]
                combos = [dict(c, **{k: cand}) for c in combos for cand in cands]
                if len(combos) > 64:
                    shape('%s: too many isinstance combinations' % name)
                    combos = combos[:64]
            for assume in combos:
                env = {}
                # parameters
                args = fn.args
                pnames = [a.arg for a in args.args][1:]
                defaults = dict(zip(reversed(pnames), reversed(args.defaults)))
                for p in pnames:
                    if p in bound:
                        env[p] = bound[p]
                    elif p in defaults:
                        d = defaults[p]
                        c = self.const_of(d)
                        if c is not None:
                            env[p] = StrSet([c])
                        elif isinstance(d, ast.List):
                            env[p] = self.eval_attrlist(d, env, [])
                try:
                    self.block(fn.body, env, set(parents), [], assume, name)
                except Infeasible:
                    pass
        finally:
            self.stack.pop()

    def block(self, stmts, env, parents, guards, assume, mname):
        for st in stmts:
            self.stmt(st, env, parents, guards, assume, mname)

    def stmt(self, st, env, parents, guards, assume, mname):
        if isinstance(st, ast.Expr):
            if isinstance(st.value, ast.Call):
                self.call(st.value, env, parents, guards, assume, mname)
            return
        if isinstance(st, ast.Assign):
            if len(st.targets) == 1 and isinstance(st.targets[0], ast.Name):
                v = st.targets[0].id
                c = self.const_of(st.value)
                if c is not None:
                    if isinstance(env.get(v), StrSet) and v == 'tag_name':
                        env[v].vals.add(c)
                    else:
                        env[v] = StrSet([c])
                elif isinstance(st.value, ast.List) or (isinstance(st.value, ast.Call) and isinstance(st.value.func, ast.Name)
                                                        and st.value.func.id == 'list'):
                    # a list of tuples is an attribute list; other lists are of no interest
                    if isinstance(st.value, ast.List) and st.value.elts and not all(isinstance(x, ast.Tuple) for x in st.value.elts):
                        env.pop(v, None)
                    else:
                        env[v] = self.eval_attrlist(st.value, env, guards)
                else:
                    env.pop(v, None)
            return
        if isinstance(st, ast.If):
            val = self.eval_test(st.test, assume)
            if val is not False:
                self.block(st.body, env, parents, guards + [st.test], assume, mname)
            if val is not True:
                self.block(st.orelse, env, parents, guards, assume, mname)
            return
        if isinstance(st, (ast.For, ast.While)):
            self.block(st.body, env, parents, guards, assume, mname)
            self.block(st.orelse, env, parents, guards, assume, mname)
            return
        if isinstance(st, ast.With):
            inner = parents
            for item in st.items:
                ce = item.context_expr
                if isinstance(ce, ast.Call) and isinstance(ce.func, ast.Attribute) and ce.func.attr == 'tagcontext':
                    tags = self.eval_tag(ce.args[0], env) if ce.args else set()
                    attrs = self.eval_attrlist(ce.args[1], env, guards) if len(ce.args) > 1 else AttrList()
                    for kw in ce.keywords:
                        if kw.arg == 'attributes':
                            attrs = self.eval_attrlist(kw.value, env, guards)
                    self.emit(tags, attrs, parents, False)
                    inner = tags
                else:
                    shape('%s: with-statement on %s' % (mname, ast.unparse(ce)[:40]))
            self.block(st.body, env, set(inner), guards, assume, mname)
            return
        if isinstance(st, ast.Assert):
            if self.eval_test(st.test, assume) is False:
                raise Infeasible()
            return
        if isinstance(st, ast.Try):
            self.block(st.body, env, parents, guards, assume, mname)
            for h in st.handlers:
                self.block(h.body, env, parents, guards, assume, mname)
            self.block(st.orelse, env, parents, guards, assume, mname)
            self.block(st.finalbody, env, parents, guards, assume, mname)
            return
        if isinstance(st, (ast.Return, ast.Pass, ast.Raise, ast.FunctionDef, ast.AugAssign, ast.AnnAssign, ast.Continue, ast.Break)):
            return
        shape('%s: statement %s' % (mname, type(st).__name__))

    def call(self, c, env, parents, guards, assume, mname):
        f = c.func
        if isinstance(f, ast.Attribute) and isinstance(f.value, ast.Name) and f.value.id == 'self':
            if f.attr == 'write_tag':
                tags = self.eval_tag(c.args[0], env) if c.args else set()
                attrs = self.eval_attrlist(c.args[1], env, guards) if len(c.args) > 1 else AttrList()
                self.emit(tags, attrs, parents, len(c.args) > 2)
                return
            if f.attr in ('write_comment', ):
                return
            if f.attr in self.methods:
                callee = self.methods[f.attr]
                pnames = [a.arg for a in callee.args.args][1:]
                bound = {}
                for i, a in enumerate(c.args):
                    if i < len(pnames):
                        self.bind(bound, pnames[i], a, env, guards)
                for kw in c.keywords:
                    if kw.arg in pnames:
                        self.bind(bound, kw.arg, kw.value, env, guards)
                self.run_method(f.attr, bound, parents)
                return
            return
        if isinstance(f, ast.Attribute) and isinstance(f.value, ast.Name) and isinstance(env.get(f.value.id), AttrList):
            lst = env[f.value.id]
            if f.attr == 'append' and len(c.args) == 1:
                t = self.eval_tuple(c.args[0], guards)
                if t:
                    lst.add(*t)
            elif f.attr == 'extend' and len(c.args) == 1:
                other = self.eval_attrlist(c.args[0], env, guards)
                for n, v in other.items:
                    lst.add(n, v)
            elif f.attr == 'insert' and len(c.args) == 2:
                t = self.eval_tuple(c.args[1], guards)
                if t:
                    lst.add(*t)
            else:
                shape('%s: list operation %s' % (mname, f.attr))
            return

    def bind(self, bound, pname, a, env, guards):
        c = self.const_of(a)
        if c is not None:
            bound[pname] = StrSet([c])
        elif isinstance(a, ast.Name) and isinstance(env.get(a.id), (StrSet, AttrList)):
            bound[pname] = env[a.id]
        elif isinstance(a, ast.List) and (not a.elts or all(isinstance(x, ast.Tuple) for x in a.elts)):
            bound[pname] = self.eval_attrlist(a, env, guards)


class Infeasible(Exception):
    pass


def extract():
    with open(os.path.join(REPO, 'giscanner', 'girwriter.py'), encoding='utf-8') as f:
        wsrc = f.read()
    with open(os.path.join(REPO, 'giscanner', 'ast.py'), encoding='utf-8') as f:
        asrc = f.read()
    w = Walker(wsrc, asrc)
    init = w.methods.get('__init__')
    entry = None
    if init is not None:
        for n in ast.walk(init):
            if isinstance(n, ast.Call) and isinstance(n.func, ast.Attribute) and isinstance(n.func.value, ast.Name) \
                    and n.func.value.id == 'self' and n.func.attr.startswith('_write_'):
                entry = n.func.attr
    if entry is None:
        shape('GIRWriter.__init__ no longer calls a _write_ method')
        entry = '_write_repository'
    w.run_method(entry, {}, {''})
    return w


def main():
    w = extract()
    children = sorted(w.children)
    attrs = sorted(w.attrs)
    values = []
    dynamic = []
    for (el, at) in attrs:
        vals = w.values.get((el, at), set())
        lits = sorted(v for k, v in vals if k == 'lit')
        if any(k == 'dyn' for k, _v in vals):
            dynamic.append((el, at))
        for v in lits:
            values.append((el, at, v))
    text = '''-- GENERATED by translators/gen_girvocab_py.py from giscanner/girwriter.py and giscanner/ast.py. Do not edit.
namespace GIVerif.Gen

/-- (parent element, child element) pairs GIRWriter can emit; "" is the document -/
def c15PyChildren : List (String × String) := [
  %s]

/-- (element, attribute) pairs GIRWriter can emit -/
def c15PyAttrs : List (String × String) := [
  %s]

/-- (element, attribute, value): every value of an attribute written from a constant or from one
    of the enumerations of giscanner/ast.py -/
def c15PyValues : List (String × String × String) := [
  %s]

/-- (element, attribute) whose value can (also) be free-form text -/
def c15PyDynamic : List (String × String) := [
  %s]

/-- elements written with character data -/
def c15PyText : List String := %s

/-- what the walk did not understand (must be empty) -/
def c15PyShape : List String := %s

/-! The same tables with every name written as a natural number (1, then the bytes of the name, base 256)
    and GROUPED by their first component (runs of adjacent equal keys, `groupAdj` of Model/GirConsume.lean):
    the `decide` obligations of Props/C15.lean are evaluated on these.  Values carry their lower-cased form.
    The driver checks on every run that they are the coded, grouped string tables (op c15.coded). -/

/-- parent ↦ [child] -/
def c15PyChildrenG : List (Nat × List Nat) := [
  %s]

/-- element ↦ [attribute] -/
def c15PyAttrsG : List (Nat × List Nat) := [
  %s]

/-- element ↦ [(attribute, value, lower-cased value)] -/
def c15PyValuesG : List (Nat × List (Nat × Nat × Nat)) := [
  %s]

/-- element ↦ [attribute whose value can also be free-form] -/
def c15PyDynamicG : List (Nat × List Nat) := [
  %s]

end GIVerif.Gen
''' % (',\n  '.join('(%s, %s)' % (lean_str(a), lean_str(b)) for a, b in children),
       ',\n  '.join('(%s, %s)' % (lean_str(a), lean_str(b)) for a, b in attrs),
       ',\n  '.join('(%s, %s, %s)' % (lean_str(a), lean_str(b), lean_str(c)) for a, b, c in values),
       ',\n  '.join('(%s, %s)' % (lean_str(a), lean_str(b)) for a, b in dynamic),
       lean_list([lean_str(t) for t in sorted(w.text)]),
       lean_list([lean_str(s) for s in SHAPE]),
       ',\n  '.join('(%s, [%s])' % (k, ', '.join(vs)) for k, vs in group_adj([(code(a), code(b)) for a, b in children])),
       ',\n  '.join('(%s, [%s])' % (k, ', '.join(vs)) for k, vs in group_adj([(code(a), code(b)) for a, b in attrs])),
       ',\n  '.join('(%s, [%s])' % (k, ', '.join(vs)) for k, vs in group_adj(
           [(code(a), '(%s, %s, %s)' % (code(b), code(c), code(c.lower()))) for a, b, c in values])),
       ',\n  '.join('(%s, [%s])' % (k, ', '.join(vs)) for k, vs in group_adj([(code(a), code(b)) for a, b in dynamic])))
    p, digest, changed = write_if_changed('GirVocabPy.lean', text)
    print('gen_girvocab_py: %s sha256=%s changed=%s children=%d attrs=%d values=%d dynamic=%d shape=%d'
          % (p, digest[:12], changed, len(children), len(attrs), len(values), len(dynamic), len(SHAPE)))
    for s in SHAPE:
        print('  shape: ' + s)


if __name__ == '__main__':
    try:
        main()
    except Exception as e:  # noqa: never die without a table: leave a shape marker for the proof to trip over
        import traceback
        traceback.print_exc()
        text = '''-- GENERATED by translators/gen_girvocab_py.py (FAILED: %s). Do not edit.
namespace GIVerif.Gen
def c15PyChildren : List (String × String) := []
def c15PyAttrs : List (String × String) := []
def c15PyValues : List (String × String × String) := []
def c15PyDynamic : List (String × String) := []
def c15PyText : List String := []
def c15PyShape : List String := [%s]
def c15PyChildrenG : List (Nat × List Nat) := []
def c15PyAttrsG : List (Nat × List Nat) := []
def c15PyValuesG : List (Nat × List (Nat × Nat × Nat)) := []
def c15PyDynamicG : List (Nat × List Nat) := []
end GIVerif.Gen
''' % (type(e).__name__, lean_str('translator failed: %s: %s' % (type(e).__name__, str(e)[:200])))
        write_if_changed('GirVocabPy.lean', text)
        sys.exit(1)
