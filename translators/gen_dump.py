#!/usr/bin/env python3
"""Gen/Dump.lean: the literals of giscanner/gdumpparser.py, giscanner/maintransformer.py and
giscanner/ast.py that the C12 model (Model/Dump.lean) depends on, re-read from /repo's
current tree on every run:

  * the G_PARAM_* bit constants (module import) and, with Python's `ast`, which constant
    feeds which of readable / writable / construct / construct_only in
    `_introspect_properties` and the positional order in which they reach `ast.Property`;
  * `_split_type_and_symbol_prefix`: the two names that are fatal and the two suffixes;
  * `_initparse_function`: the suffixes that make a function a get-type / error-quark
    function, the return ctype required of a quark function, the internal get_type marker;
  * `_find_class_record`: the class-structure suffixes, in the order tried;
  * `_introspect_signals`: the attribute names and defaults, the synthesized argument names;
  * `_pass_type_resolution`: the default parent of an interface;
  * `_pair_quarks_with_enums`: the suffix cut from the symbol and the special-cased name, what
    its two loops iterate over; `Namespace.float` (ast.py) statement by statement;
  * `GIRWriter._write_property`: the test that guards the default-value attribute;
  * `Type.create_from_gtype_name`: the container GType names and what they turn into
    (by calling it).

The model takes its constants from these tables; `decide` theorems in Props/C12.lean
compare the shape strings with the shapes the model was written for."""
import ast
import hashlib
import os

from common import write_if_changed, lean_list, lean_str, install_stub_lexer, REPO


class Shape(Exception):
    pass


def find_method(tree, cls, name):
    for node in tree.body:
        if isinstance(node, ast.ClassDef) and node.name == cls:
            for f in node.body:
                if isinstance(f, ast.FunctionDef) and f.name == name:
                    return f
    raise Shape('method %s.%s not found' % (cls, name))


def lean_chars(s):
    """a Lean `List Char` literal (explicit characters: cheap for the kernel to compare)"""
    def one(c):
        if c == "'":
            return "'\\''"
        if c == '\\':
            return "'\\\\'"
        if ord(c) < 0x20 or ord(c) > 0x7e:
            return "'\\u{%x}'" % ord(c)
        return "'%s'" % c
    return '[' + ', '.join(one(c) for c in s) + ']'


def short_digest(items):
    return hashlib.sha256('\n'.join(items).encode('utf-8')).hexdigest()[:20]


def str_consts(node):
    out = []
    for n in ast.walk(node):
        if isinstance(n, ast.Constant) and isinstance(n.value, str):
            out.append(n.value)
    return out


def flag_assignments(fn):
    """[(variable, G_PARAM_X)] for every `var = (flags & G_PARAM_X) != 0` in source order"""
    out = []
    for st in ast.walk(fn):
        if isinstance(st, ast.Assign) and len(st.targets) == 1 and isinstance(st.targets[0], ast.Name):
            v = st.value
            if isinstance(v, ast.Compare) and len(v.ops) == 1 and isinstance(v.ops[0], ast.NotEq) \
                    and isinstance(v.left, ast.BinOp) and isinstance(v.left.op, ast.BitAnd) \
                    and isinstance(v.left.left, ast.Name) and v.left.left.id == 'flags' \
                    and isinstance(v.left.right, ast.Name) \
                    and isinstance(v.comparators[0], ast.Constant) and v.comparators[0].value == 0:
                out.append((st.targets[0].id, v.left.right.id))
    out.sort(key=lambda p: p[0])
    return out


def property_call_args(fn):
    for n in ast.walk(fn):
        if isinstance(n, ast.Call) and ast.unparse(n.func) == 'ast.Property':
            return [ast.unparse(a) for a in n.args]
    raise Shape('ast.Property(...) call not found in _introspect_properties')


def signal_attr_reads(fn):
    """(variable, attribute, default, compared-with) of `x = signal_info.attrib.get(A, D) == C`"""
    out = []
    for st in fn.body[0].body if isinstance(fn.body[0], ast.For) else []:
        if isinstance(st, ast.Assign) and isinstance(st.targets[0], ast.Name):
            out.append('%s = %s' % (st.targets[0].id, ast.unparse(st.value)))
    return out


def main():
    install_stub_lexer()
    from giscanner import gdumpparser, ast as giast
    with open(os.path.join(REPO, 'giscanner', 'gdumpparser.py'), encoding='utf-8') as f:
        gd = ast.parse(f.read())
    with open(os.path.join(REPO, 'giscanner', 'maintransformer.py'), encoding='utf-8') as f:
        mt = ast.parse(f.read())

    consts = [(n, getattr(gdumpparser, n)) for n in sorted(dir(gdumpparser)) if n.startswith('G_PARAM_')]
    cd = dict(consts)
    props = find_method(gd, 'GDumpParser', '_introspect_properties')
    assigns = flag_assignments(props)
    call_args = property_call_args(props)

    split = find_method(gd, 'GDumpParser', '_split_type_and_symbol_prefix')
    split_strs = [s for s in str_consts(split) if s.startswith(('get_', '_get_'))]
    initf = find_method(gd, 'GDumpParser', '_initparse_function')
    init_strs = str_consts(initf)
    quarkf = find_method(gd, 'GDumpParser', '_initparse_error_quark_function')
    quark_ret = [s for s in str_consts(quarkf)]
    parse = find_method(gd, 'GDumpParser', 'parse')
    parse_strs = [s for s in str_consts(parse) if s in ('intern', 'error-quark')]
    fcr = find_method(gd, 'GDumpParser', '_find_class_record')
    fcr_strs = [s for s in str_consts(fcr)]
    sigs = find_method(gd, 'GDumpParser', '_introspect_signals')
    sig_reads = signal_attr_reads(sigs)
    sig_names = [s for s in str_consts(sigs) if s in ('object', 'p%s')]
    parents = find_method(gd, 'GDumpParser', '_parse_parents')
    parents_src = [ast.unparse(s) for s in parents.body]
    itype = find_method(gd, 'GDumpParser', '_introspect_type')
    itype_tags = [s for s in str_consts(itype) if ' ' not in s]

    ptr = find_method(mt, 'MainTransformer', '_pass_type_resolution')
    default_parent = [s for s in str_consts(ptr) if '.' in s]
    walk_src = []
    for n in ast.walk(ptr):
        if isinstance(n, ast.For) and ast.unparse(n.iter) == 'node.parent_chain':
            walk_src = [ast.unparse(n).replace('\n', ' ; ')]
    pq = find_method(mt, 'MainTransformer', '_pair_quarks_with_enums')
    pq_strs = [s for s in str_consts(pq) if s in ('_quark', 'g_io_error', 'IOErrorEnum', 'Gio')]
    pq_iters = [ast.unparse(n.iter) for n in pq.body if isinstance(n, ast.For)]
    with open(os.path.join(REPO, 'giscanner', 'girwriter.py'), encoding='utf-8') as f:
        gw = ast.parse(f.read())
    wp = find_method(gw, 'GIRWriter', '_write_property')
    default_tests = [ast.unparse(n.test) for n in ast.walk(wp)
                     if isinstance(n, ast.If) and 'default-value' in str_consts(n)]
    vf = find_method(mt, 'MainTransformer', '_pair_class_virtuals')
    vf_src = []
    for n in ast.walk(vf):
        if isinstance(n, ast.If) and 'firstparam_type' in ast.unparse(n.test):
            vf_src.append(ast.unparse(n.test))
        if isinstance(n, ast.If) and 'len(callback.parameters)' in ast.unparse(n.test):
            vf_src.append(ast.unparse(n.test))
    vf_src.sort()

    # containers of Type.create_from_gtype_name: names from the source, behaviour by calling it
    tsrc = None
    with open(os.path.join(REPO, 'giscanner', 'ast.py'), encoding='utf-8') as f:
        at = ast.parse(f.read())
    cf = find_method(at, 'Type', 'create_from_gtype_name')
    fl = find_method(at, 'Namespace', 'float')
    float_src = [ast.unparse(st) for st in fl.body
                 if not (isinstance(st, ast.Expr) and isinstance(st.value, ast.Constant))]
    float_src = [x.replace('\n', ' ; ') for x in float_src]
    cont_names = []
    for n in ast.walk(cf):
        if isinstance(n, ast.Compare) and ast.unparse(n.left) == 'gtype_name':
            for s in str_consts(n):
                if s not in cont_names:
                    cont_names.append(s)
    cont_names.sort()
    conts = []
    for g in cont_names:
        t = giast.Type.create_from_gtype_name(g)
        kind = type(t).__name__
        if kind == 'Map':
            conts.append((g, 'map', '', t.key_type.target_fundamental + ',' + t.value_type.target_fundamental))
        elif kind == 'Array':
            conts.append((g, 'array', t.array_type or '', t.element_type.target_fundamental))
        else:
            raise Shape('create_from_gtype_name(%r) gives a %s' % (g, kind))
    probe = giast.Type.create_from_gtype_name('ZzNoSuchType')
    plain = 'gtype' if (type(probe).__name__ == 'Type' and probe.gtype_name == 'ZzNoSuchType'
                        and not probe.resolved and probe.ctype is None) else 'other'

    tn_rows = sorted((k, v.target_fundamental, v.ctype or '') for k, v in giast.type_names.items())

    text = '''-- GENERATED by translators/gen_dump.py from giscanner/gdumpparser.py, maintransformer.py, ast.py. Do not edit.
namespace GIVerif.Gen

/-- module-level `G_PARAM_*` constants of gdumpparser.py -/
def gParamConsts : List (String × Nat) := %s
def gParamReadable : Nat := %d
def gParamWritable : Nat := %d
def gParamConstruct : Nat := %d
def gParamConstructOnly : Nat := %d

/-- `_introspect_properties`: every `var = (flags & G_PARAM_X) != 0`, sorted by variable -/
def propFlagAssignments : List (String × String) := %s

/-- positional arguments of the `ast.Property(...)` call in `_introspect_properties` -/
def propCtorArgs : List String := %s

/-- `_split_type_and_symbol_prefix`: string literals starting with get_ / _get_, source order -/
def splitTypeLiterals : List String := %s

/-- `_initparse_function`: string literals (hidden prefix, get-type suffixes, quark suffix) -/
def initparseLiterals : List String := %s

/-- `_initparse_error_quark_function`: required return ctype -/
def quarkReturnCtype : List String := %s

/-- `parse`: the error-quark tag and the internal get_type marker -/
def parseLiterals : List String := %s

/-- `_introspect_type`: the tags dispatched on, source order -/
def dumpTags : List String := %s

/-- `_find_class_record`: string literals, source order -/
def classRecordSuffixes : List String := %s

/-- `_introspect_signals`: the assignments at the top of the per-signal loop -/
def signalReads : List String := %s
def signalReadsDigest : String := %s

/-- `_introspect_signals`: synthesized argument names -/
def signalArgNames : List String := %s

/-- `_parse_parents`, statement by statement -/
def parseParentsShape : List String := %s
def parseParentsDigest : String := %s

/-- `_pass_type_resolution`: the loop over `node.parent_chain` -/
def parentWalkShape : List String := %s
def parentWalkDigest : String := %s

/-- `_pass_type_resolution`: the default parent of an interface -/
def defaultIfaceParent : List String := %s

/-- `_pair_quarks_with_enums`: literals -/
def quarkLiterals : List String := %s

/-- `_pair_quarks_with_enums`: what its toplevel `for` loops iterate over (the enumerations; the
    error-quark functions) -/
def quarkLoopIters : List String := %s

/-- `Namespace.float` (ast.py), statement by statement without the docstring -/
def floatShape : List String := %s

/-- `GIRWriter._write_property`: the test guarding `attrs.append(('default-value', ...))` -/
def defaultWrittenTests : List String := %s

/-- `_pair_class_virtuals`: the two tests on the callback's parameters -/
def vfuncTests : List String := %s

/-- `Type.create_from_gtype_name`: container GType names -> (kind, array_type, element fundamentals) -/
def containerTypes : List (String × String × String × String) := %s

/-- what an unknown GType name turns into -/
def plainGtypeKind : String := %s

/-- `ast.type_names` as character lists: (GType / C name, target_fundamental, ctype) -/
def gtypeFundamentals : List (List Char × List Char × List Char) := %s

/-- `containerTypes` as character lists -/
def gtypeContainers : List (List Char × List Char × List Char × List Char) := %s

end GIVerif.Gen
''' % (lean_list(['(%s, %d)' % (lean_str(k), v) for k, v in consts]),
       cd['G_PARAM_READABLE'], cd['G_PARAM_WRITABLE'], cd['G_PARAM_CONSTRUCT'], cd['G_PARAM_CONSTRUCT_ONLY'],
       lean_list(['(%s, %s)' % (lean_str(a), lean_str(b)) for a, b in assigns]),
       lean_list([lean_str(a) for a in call_args]),
       lean_list([lean_str(a) for a in split_strs]),
       lean_list([lean_str(a) for a in init_strs]),
       lean_list([lean_str(a) for a in quark_ret]),
       lean_list([lean_str(a) for a in parse_strs]),
       lean_list([lean_str(a) for a in itype_tags]),
       lean_list([lean_str(a) for a in fcr_strs]),
       lean_list([lean_str(a) for a in sig_reads]), lean_str(short_digest(sig_reads)),
       lean_list([lean_str(a) for a in sig_names]),
       lean_list([lean_str(a) for a in parents_src]), lean_str(short_digest(parents_src)),
       lean_list([lean_str(a) for a in walk_src]), lean_str(short_digest(walk_src)),
       lean_list([lean_str(a) for a in default_parent]),
       lean_list([lean_str(a) for a in pq_strs]),
       lean_list([lean_str(a) for a in pq_iters]),
       lean_list([lean_str(a) for a in float_src]),
       lean_list([lean_str(a) for a in default_tests]),
       lean_list([lean_str(a) for a in vf_src]),
       lean_list(['(%s, %s, %s, %s)' % tuple(lean_str(x) for x in c) for c in conts]),
       lean_str(plain),
       lean_list(['(%s, %s, %s)' % (lean_chars(a), lean_chars(b), lean_chars(c)) for a, b, c in tn_rows]),
       lean_list(['(%s, %s, %s, %s)' % tuple(lean_chars(x) for x in c) for c in conts]))
    path, digest, changed = write_if_changed('Dump.lean', text)
    print('gen_dump: %s sha256=%s changed=%s consts=%d' % (path, digest[:12], changed, len(consts)))


if __name__ == '__main__':
    main()
