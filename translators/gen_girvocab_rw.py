#!/usr/bin/env python3
"""Gen/GirVocabRW.lean: what giscanner/girwriter.py can WRITE and what giscanner/girparser.py READS,
per XML element, re-extracted from /repo's current tree on every run with Python's `ast` module.

Writer side: a small abstract interpretation of the GIRWriter methods starting at
`_write_repository`: every `write_tag(tag, attrs[, text])` / `tagcontext(tag, attrs)` is an emitted
element; attribute lists are followed through `attrs = [...]`, `.append/.insert/.extend`, helper
calls that receive the list (`_append_*`) and parameters (`extra_attrs`, `tag_name`, `nodename`);
both branches of every `if` are taken (what the writer CAN emit).

Reader side: the same for GIRParser starting at `_parse_api`: every `X.attrib.get(k)` /
`X.attrib[k]` / `k in X.attrib` / `X.get(k)` is an attribute read of the element(s) X can be,
every `X.find / findall / _find_children / _find_first_child` and every tag comparison on a child
is a child read, `X.text` a text read; elements are followed through calls, loops and the
`parser_methods` dispatch dictionary.

Names are spelled as in the file: `c:type`, `glib:get-type`, `doc:format`.  The tables are
consumed by `C07_vocab` (a `decide` theorem) and by the harness' coverage report.
"""
import ast
import hashlib
import os
import sys

from common import write_if_changed, lean_list, lean_str, REPO

PREFIX = {'_corens': '', '_cns': 'c:', '_glibns': 'glib:', '_docns': 'doc:'}


class Shape(Exception):
    pass


def methods_of(path, clsname):
    with open(path, encoding='utf-8') as f:
        src = f.read()
    tree = ast.parse(src)
    for n in tree.body:
        if isinstance(n, ast.ClassDef) and n.name == clsname:
            return {f.name: f for f in n.body if isinstance(f, ast.FunctionDef)}, src
    raise Shape('class %s not found in %s' % (clsname, path))


# ---------------------------------------------------------------------------- writer
class AL(object):
    """an attribute list being built"""

    def __init__(self, names=()):
        self.names = set(names)


class Lit(object):
    def __init__(self, vals):
        self.vals = frozenset(vals)


UNK = object()


class WriterWalk(object):
    def __init__(self, methods):
        self.methods = methods
        self.elements = {}          # tag -> {'als': [AL], 'children': set, 'text': bool}
        self.stack = []
        self.seen = set()
        self.raw = {}               # method -> (attr literals, tag literals)

    def elem(self, tag):
        return self.elements.setdefault(tag, {'als': [], 'children': set(), 'text': False})

    def emit(self, tagv, attrsv, text):
        if not isinstance(tagv, Lit):
            raise Shape('writer emits an element whose tag is not a known literal')
        for tag in tagv.vals:
            e = self.elem(tag)
            if isinstance(attrsv, AL):
                e['als'].append(AL(attrsv.names))      # complete at the time the element is opened
            if text:
                e['text'] = True
            if self.stack:
                for p in self.stack[-1]:
                    self.elem(p)['children'].add(tag)

    def ev(self, node, env):
        if isinstance(node, ast.Constant):
            if isinstance(node.value, str):
                return Lit([node.value])
            return UNK
        if isinstance(node, ast.Name):
            return env.get(node.id, UNK)
        if isinstance(node, (ast.List, ast.Tuple)) and isinstance(node, ast.List):
            al = AL()
            for el in node.elts:
                if isinstance(el, ast.Tuple) and len(el.elts) == 2 and isinstance(el.elts[0], ast.Constant) \
                        and isinstance(el.elts[0].value, str):
                    al.names.add(el.elts[0].value)
                elif isinstance(el, ast.Tuple):
                    raise Shape('attribute tuple with a computed name at line %d' % el.lineno)
            return al
        if isinstance(node, ast.Call) and isinstance(node.func, ast.Name) and node.func.id == 'list' and node.args:
            v = self.ev(node.args[0], env)
            if isinstance(v, AL):
                return AL(v.names)
            return UNK
        return UNK

    def tuple_name(self, node):
        if isinstance(node, ast.Tuple) and len(node.elts) == 2 and isinstance(node.elts[0], ast.Constant) \
                and isinstance(node.elts[0].value, str):
            return node.elts[0].value
        return None

    def call_method(self, name, call, env):
        fn = self.methods.get(name)
        if fn is None:
            raise Shape('writer calls unknown method %s' % name)
        params = [a.arg for a in fn.args.args][1:]
        defaults = fn.args.defaults
        new = {}
        for p, d in zip(params[len(params) - len(defaults):], defaults):
            new[p] = self.ev(d, {})
        for p, a in zip(params, call.args):
            new[p] = self.ev(a, env)
        for kw in call.keywords:
            new[kw.arg] = self.ev(kw.value, env)
        self.run_method(name, new)

    def run_method(self, name, env):
        def key_of(v):
            if isinstance(v, Lit):
                return ('L', tuple(sorted(v.vals)))
            if isinstance(v, AL):
                return ('A', tuple(sorted(v.names)))
            return 'U'
        if name.startswith('_append_'):
            # these MUTATE the attribute list they are handed: never skipped (they do not recurse).
            # (Keying on id(list) was not deterministic: ids of collected lists are reused.)
            self.block(self.methods[name].body, env)
            return
        # `_write_*` methods only copy the lists they receive (`list(extra_attrs)`, `attrs.extend(extra_attrs)`):
        # the same method with the same literal arguments, the same list CONTENT and the same enclosing element
        # emits the same things again
        key = (name, tuple(sorted((k, key_of(v)) for k, v in env.items())),
               tuple(sorted(self.stack[-1])) if self.stack else ())
        if key in self.seen:
            return
        self.seen.add(key)
        self.block(self.methods[name].body, env)

    def merge(self, envs):
        out = {}
        for e in envs:
            for k, v in e.items():
                if k not in out:
                    out[k] = v
                elif out[k] is v:
                    pass
                elif isinstance(out[k], Lit) and isinstance(v, Lit):
                    out[k] = Lit(out[k].vals | v.vals)
                elif isinstance(out[k], AL) and isinstance(v, AL):
                    n = AL(out[k].names | v.names)
                    out[k] = n
                elif out[k] is UNK:
                    out[k] = v
        return out

    @staticmethod
    def branch_env(env):
        """a branch works on its own copies of the attribute lists"""
        return {k: (AL(v.names) if isinstance(v, AL) else v) for k, v in env.items()}

    def block(self, stmts, env):
        """returns the environment after the block (same dict object, updated)"""
        for i, st in enumerate(stmts):
            if isinstance(st, ast.Return):
                return env
            if isinstance(st, ast.If):
                e1 = self.block(st.body, self.branch_env(env))
                e2 = self.block(st.orelse, self.branch_env(env))
                decided = [k for k in set(e1) | set(e2)
                           if isinstance(e1.get(k), Lit) and isinstance(e2.get(k), Lit) and e1[k].vals != e2[k].vals]
                if decided:
                    # the branches chose different element names: follow each to the end of the block
                    # separately, so that attributes stay with the element they are written on
                    self.block(stmts[i + 1:], e1)
                    self.block(stmts[i + 1:], e2)
                    return env
                m = self.merge([e1, e2])
                for k, v in list(m.items()):
                    # lists that existed before the `if` are mutated in place (callers hold a reference)
                    if isinstance(env.get(k), AL) and isinstance(v, AL):
                        env[k].names |= v.names
                        m[k] = env[k]
                env.clear()
                env.update(m)
                continue
            self.stmt(st, env)
        return env

    def stmt(self, st, env):
        if isinstance(st, ast.Assign) and len(st.targets) == 1 and isinstance(st.targets[0], ast.Name):
            env[st.targets[0].id] = self.ev(st.value, env)
        elif isinstance(st, ast.Expr) and isinstance(st.value, ast.Call):
            self.call(st.value, env)
        elif isinstance(st, ast.With):
            pushed = False
            for item in st.items:
                c = item.context_expr
                if isinstance(c, ast.Call) and isinstance(c.func, ast.Attribute) and c.func.attr == 'tagcontext':
                    tagv = self.ev(c.args[0], env)
                    attrsv = self.ev(c.args[1], env) if len(c.args) > 1 else None
                    self.emit(tagv, attrsv, False)
                    self.stack.append(set(tagv.vals))
                    pushed = True
            self.block(st.body, env)
            if pushed:
                self.stack.pop()
        elif isinstance(st, ast.If):
            self.block([st], env)
        elif isinstance(st, (ast.For, ast.While)):
            self.block(st.body, env)
            self.block(st.orelse, env)
        elif isinstance(st, ast.Try):
            self.block(st.body, env)
            for h in st.handlers:
                self.block(h.body, env)
            self.block(st.finalbody, env)

    def call(self, c, env):
        f = c.func
        if not isinstance(f, ast.Attribute):
            return
        if isinstance(f.value, ast.Name) and f.value.id == 'self':
            if f.attr == 'write_tag':
                tagv = self.ev(c.args[0], env)
                attrsv = self.ev(c.args[1], env) if len(c.args) > 1 else None
                self.emit(tagv, attrsv, len(c.args) > 2)
            elif f.attr.startswith('_write_') or f.attr.startswith('_append_'):
                self.call_method(f.attr, c, env)
            return
        if isinstance(f.value, ast.Name) and isinstance(env.get(f.value.id), AL):
            al = env[f.value.id]
            if f.attr == 'append':
                n = self.tuple_name(c.args[0])
                if n is None:
                    raise Shape('attrs.append of something that is not (literal, value) at line %d' % c.lineno)
                al.names.add(n)
            elif f.attr == 'insert':
                n = self.tuple_name(c.args[1])
                if n is None:
                    raise Shape('attrs.insert of something that is not (literal, value) at line %d' % c.lineno)
                al.names.add(n)
            elif f.attr == 'extend':
                v = self.ev(c.args[0], env)
                if isinstance(v, AL):
                    al.names |= v.names
                else:
                    raise Shape('attrs.extend of an unknown list at line %d' % c.lineno)

    def raw_literals(self):
        for name, fn in self.methods.items():
            attrs, tags = set(), set()
            for n in ast.walk(fn):
                t = self.tuple_name(n)
                if t is not None:
                    attrs.add(t)
                if isinstance(n, ast.Call) and isinstance(n.func, ast.Attribute) and \
                        n.func.attr in ('write_tag', 'tagcontext') and n.args and isinstance(n.args[0], ast.Constant):
                    tags.add(n.args[0].value)
            if name.startswith('_write_') or name.startswith('_append_'):
                self.raw[name] = (sorted(attrs), sorted(tags))


# ---------------------------------------------------------------------------- reader
class Elem(object):
    def __init__(self, tags, parent=None):
        self.tags = frozenset(tags)
        self.parent = parent        # for '*' children: the Elem iterated


class ElemList(object):
    def __init__(self, elem):
        self.elem = elem


class Names(object):
    def __init__(self, vals):
        self.vals = frozenset(vals)


class Dispatch(object):
    def __init__(self):
        self.table = []             # (name, method)


class DispatchOn(object):
    def __init__(self, d, elem):
        self.d = d
        self.elem = elem


class Attrib(object):
    def __init__(self, elem):
        self.elem = elem


class TagOf(object):
    def __init__(self, elem):
        self.elem = elem


class ReaderWalk(object):
    def __init__(self, methods):
        self.methods = methods
        self.attrs = {}      # tag -> set
        self.children = {}   # tag -> set
        self.text = set()
        self.handlers = {}   # tag -> set(method)
        self.seen = set()
        self.returns = {}    # invocation key -> what the method returned (Elem / ElemList / UNK)
        self.ret_stack = []
        self.raw = {}

    # recording
    def rec_attr(self, elem, names):
        if not isinstance(elem, Elem) or not isinstance(names, Names):
            return
        for t in elem.tags:
            self.attrs.setdefault(t, set()).update(names.vals)

    def rec_child(self, elem, names):
        if not isinstance(elem, Elem) or not isinstance(names, Names):
            return
        for t in elem.tags:
            self.children.setdefault(t, set()).update(names.vals)

    def element_of(self, v):
        if isinstance(v, ElemList):
            return v.elem
        if isinstance(v, Elem):
            return Elem(['*'], parent=v)
        if isinstance(v, Names):
            return v
        return UNK

    def ev(self, n, env):
        if n is None:
            return UNK
        if isinstance(n, ast.Constant):
            return Names([n.value]) if isinstance(n.value, str) else UNK
        if isinstance(n, ast.Name):
            return env.get(n.id, UNK)
        if isinstance(n, (ast.Tuple, ast.List)):
            vs = [self.ev(e, env) for e in n.elts]
            if vs and all(isinstance(v, Names) for v in vs):
                return Names(set().union(*[v.vals for v in vs]))
            return UNK
        if isinstance(n, ast.Dict):
            d = Dispatch()
            for k, v in zip(n.keys, n.values):
                kv = self.ev(k, env)
                self.ev(v, env)
                if isinstance(kv, Names) and isinstance(v, ast.Attribute) and v.attr in self.methods:
                    for name in kv.vals:
                        d.table.append((name, v.attr))
            return d
        if isinstance(n, ast.Attribute):
            base = self.ev(n.value, env)
            if isinstance(base, Elem):
                if n.attr == 'attrib':
                    return Attrib(base)
                if n.attr == 'tag':
                    return TagOf(base)
                if n.attr == 'text':
                    for t in base.tags:
                        self.text.add(t)
                    return UNK
            return UNK
        if isinstance(n, ast.Subscript):
            base = self.ev(n.value, env)
            idx = self.ev(n.slice, env)
            if isinstance(base, Attrib):
                self.rec_attr(base.elem, idx)
            if isinstance(base, ElemList):
                return base.elem
            return UNK
        if isinstance(n, ast.Compare):
            left = self.ev(n.left, env)
            for op, comp in zip(n.ops, n.comparators):
                right = self.ev(comp, env)
                if isinstance(op, (ast.In, ast.NotIn)) and isinstance(right, Attrib):
                    self.rec_attr(right.elem, left)
                self.tag_test(left, right)
            return UNK
        if isinstance(n, ast.BoolOp):
            for v in n.values:
                self.ev(v, env)
            return UNK
        if isinstance(n, ast.UnaryOp):
            self.ev(n.operand, env)
            return UNK
        if isinstance(n, ast.BinOp):
            self.ev(n.left, env)
            self.ev(n.right, env)
            return UNK
        if isinstance(n, ast.IfExp):
            self.ev(n.test, env)
            a = self.ev(n.body, env)
            b = self.ev(n.orelse, env)
            return a if a is not UNK else b
        if isinstance(n, ast.Lambda):
            return n
        if isinstance(n, ast.Call):
            return self.call(n, env)
        if isinstance(n, (ast.ListComp, ast.GeneratorExp)):
            e2 = dict(env)
            for g in n.generators:
                it = self.ev(g.iter, e2)
                if isinstance(g.target, ast.Name):
                    e2[g.target.id] = self.element_of(it)
                for c in g.ifs:
                    e2, _f = self.refine_test(c, e2)
            v = self.ev(n.elt, e2)
            # `[child for child in node if child.tag in names]`: a list of (those) child elements
            if isinstance(n.elt, ast.Name) and isinstance(v, Elem):
                return ElemList(v)
            return UNK
        for c in ast.iter_child_nodes(n):
            if isinstance(c, ast.expr):
                self.ev(c, env)
        return UNK

    def tag_test(self, left, right):
        """`child.tag == NAME` / `child.tag in NAMES` on a child obtained by iteration is a child read"""
        if isinstance(left, TagOf) and isinstance(right, Names) and '*' in left.elem.tags and left.elem.parent is not None:
            self.rec_child(left.elem.parent, right)

    def call(self, c, env):
        f = c.func
        args = c.args
        if isinstance(f, ast.Name):
            if f.id in PREFIX and len(args) == 1:
                v = self.ev(args[0], env)
                if isinstance(v, Names):
                    return Names([PREFIX[f.id] + x for x in v.vals])
                raise Shape('%s() of a non-literal at line %d' % (f.id, c.lineno))
            if f.id == 'map' and len(args) == 2:
                fn, seq = args
                sv = self.ev(seq, env)
                if isinstance(fn, ast.Name) and fn.id in PREFIX:
                    if isinstance(sv, Names):
                        return Names([PREFIX[fn.id] + x for x in sv.vals])
                    raise Shape('map(%s, non-literal) at line %d' % (fn.id, c.lineno))
                if isinstance(fn, ast.Attribute) and fn.attr in self.methods:
                    el = self.element_of(sv)
                    if isinstance(el, Elem):
                        self.invoke(fn.attr, [el], {})
                    return UNK
                self.ev(fn, env)
                return UNK
            if f.id in ('list', 'tuple', 'sorted', 'enumerate', 'reversed', 'iter'):
                v = self.ev(args[0], env) if args else UNK
                for kw in c.keywords:
                    if isinstance(kw.value, ast.Lambda) and kw.value.args.args:
                        e2 = dict(env)
                        e2[kw.value.args.args[0].arg] = self.element_of(v)
                        self.ev(kw.value.body, e2)
                if f.id == 'enumerate':
                    return ('enumerate', v)
                return v
            if f.id == 'zip' and args:
                return ('zip', [self.ev(a, env) for a in args])
            if isinstance(env.get(f.id), DispatchOn):
                d = env[f.id]
                target = self.ev(args[0], env) if args else UNK
                for name, meth in d.d.table:
                    if isinstance(d.elem, Elem) and d.elem.parent is not None:
                        self.rec_child(d.elem.parent, Names([name]))
                    self.invoke(meth, [Elem([name])], {})
                return UNK
            for a in args:
                self.ev(a, env)
            for kw in c.keywords:
                self.ev(kw.value, env)
            return UNK
        if isinstance(f, ast.Attribute):
            base = self.ev(f.value, env)
            if isinstance(f.value, ast.Name) and f.value.id == 'self':
                if f.attr in ('_find_children', '_find_first_child') and len(args) == 2:
                    e = self.ev(args[0], env)
                    k = self.ev(args[1], env)
                    if not isinstance(k, Names):
                        raise Shape('%s with a non-literal name at line %d' % (f.attr, c.lineno))
                    self.rec_child(e, k)
                    el = Elem(k.vals)
                    return ElemList(el) if f.attr == '_find_children' else el
                if f.attr in self.methods:
                    vals = [self.ev(a, env) for a in args]
                    kws = {kw.arg: self.ev(kw.value, env) for kw in c.keywords}
                    return self.invoke(f.attr, vals, kws)
            if isinstance(base, Elem):
                if f.attr in ('find', 'findall') and args:
                    k = self.ev(args[0], env)
                    if not isinstance(k, Names):
                        raise Shape('find with a non-literal name at line %d' % c.lineno)
                    self.rec_child(base, k)
                    el = Elem(k.vals)
                    return ElemList(el) if f.attr == 'findall' else el
                if f.attr == 'get' and args:
                    self.rec_attr(base, self.ev(args[0], env))
                    return UNK
            if isinstance(base, Attrib) and f.attr == 'get' and args:
                self.rec_attr(base.elem, self.ev(args[0], env))
                return UNK
            if isinstance(base, Dispatch) and f.attr == 'get' and args:
                t = self.ev(args[0], env)
                if isinstance(t, TagOf):
                    return DispatchOn(base, t.elem)
                return UNK
            for a in args:
                self.ev(a, env)
            for kw in c.keywords:
                self.ev(kw.value, env)
            return UNK
        return UNK

    def invoke(self, name, vals, kws):
        fn = self.methods[name]
        params = [a.arg for a in fn.args.args][1:]
        env = {}
        for p, v in zip(params, vals):
            env[p] = v
        for k, v in kws.items():
            env[k] = v

        def key_of(v):
            if isinstance(v, Elem):
                return ('E', v.tags)
            if isinstance(v, ElemList):
                return ('EL', v.elem.tags)
            return 'U'
        key = (name, tuple(sorted((k, key_of(v)) for k, v in env.items())))
        for v in env.values():
            if isinstance(v, Elem):
                for t in v.tags:
                    self.handlers.setdefault(t, set()).add(name)
        if key in self.seen:
            return self.returns.get(key, UNK)
        self.seen.add(key)
        self.ret_stack.append([])
        self.block(fn.body, env)
        # what the method returns, when that is an element or a list of elements (a helper selecting children)
        rets = [r for r in self.ret_stack.pop() if isinstance(r, (Elem, ElemList))]
        out = UNK
        if rets and all(isinstance(r, ElemList) for r in rets):
            out = ElemList(Elem(frozenset().union(*[r.elem.tags for r in rets]), rets[0].elem.parent))
        elif rets and all(isinstance(r, Elem) for r in rets):
            out = Elem(frozenset().union(*[r.tags for r in rets]), rets[0].parent)
        self.returns[key] = out
        return out

    def merge(self, envs):
        out = {}
        for e in envs:
            for k, v in e.items():
                if k not in out or out[k] is UNK:
                    out[k] = v
                elif out[k] is v or v is UNK:
                    pass
                elif isinstance(out[k], Elem) and isinstance(v, Elem):
                    out[k] = Elem(out[k].tags | v.tags, out[k].parent or v.parent)
                elif isinstance(out[k], Names) and isinstance(v, Names):
                    out[k] = Names(out[k].vals | v.vals)
        return out

    def refine_test(self, test, env):
        """-> (env for the true branch, env for the false branch); records reads in the test"""
        t_env, f_env = dict(env), dict(env)
        if isinstance(test, ast.Compare) and len(test.ops) == 1 and isinstance(test.left, ast.Attribute) \
                and test.left.attr == 'tag' and isinstance(test.left.value, ast.Name):
            var = test.left.value.id
            elem = env.get(var)
            names = self.ev(test.comparators[0], env)
            if isinstance(elem, Elem) and isinstance(names, Names):
                self.tag_test(TagOf(elem), names)
                pos = isinstance(test.ops[0], (ast.Eq, ast.In))
                neg = isinstance(test.ops[0], (ast.NotEq, ast.NotIn))
                if pos or neg:
                    if '*' in elem.tags:
                        inside, outside = Elem(names.vals), elem
                    else:
                        inside, outside = Elem(elem.tags & names.vals), Elem(elem.tags - names.vals)
                    (t_env if pos else f_env)[var] = inside
                    (f_env if pos else t_env)[var] = outside
                return t_env, f_env
        self.ev(test, env)
        return t_env, f_env

    def block(self, stmts, env):
        for st in stmts:
            if isinstance(st, (ast.Return, ast.Raise)):
                if isinstance(st, ast.Return):
                    v = self.ev(st.value, env)
                    if self.ret_stack:
                        self.ret_stack[-1].append(v)
                return env
            self.stmt(st, env)
        return env

    def assign(self, target, value, env):
        if isinstance(target, ast.Name):
            env[target.id] = value
        elif isinstance(target, (ast.Tuple, ast.List)):
            if isinstance(value, tuple) and value and value[0] == 'enumerate' and len(target.elts) == 2:
                self.assign(target.elts[1], value[1], env)

    def stmt(self, st, env):
        if isinstance(st, ast.Assign):
            v = self.ev(st.value, env)
            for t in st.targets:
                if isinstance(t, ast.Subscript):
                    base = self.ev(t.value, env)
                    k = self.ev(t.slice, env)
                    if isinstance(base, Dispatch) and isinstance(k, Names) and isinstance(st.value, ast.Attribute) \
                            and st.value.attr in self.methods:
                        for name in k.vals:
                            base.table.append((name, st.value.attr))
                else:
                    self.assign(t, v, env)
        elif isinstance(st, ast.Expr):
            self.ev(st.value, env)
        elif isinstance(st, ast.If):
            t_env, f_env = self.refine_test(st.test, env)
            e1 = self.block(st.body, t_env)
            e2 = self.block(st.orelse, f_env)
            m = self.merge([e1, e2])
            env.clear()
            env.update(m)
        elif isinstance(st, ast.For):
            it = self.ev(st.iter, env)
            if isinstance(it, tuple) and it and it[0] == 'enumerate':
                self.assign(st.target, ('enumerate', self.element_of(it[1])), env)
            elif isinstance(it, tuple) and it and it[0] == 'zip' and isinstance(st.target, (ast.Tuple, ast.List)):
                for t, v in zip(st.target.elts, it[1]):
                    self.assign(t, self.element_of(v), env)
            else:
                self.assign(st.target, self.element_of(it), env)
            self.block(st.body, env)
            self.block(st.orelse, env)
        elif isinstance(st, ast.While):
            self.ev(st.test, env)
            self.block(st.body, env)
        elif isinstance(st, ast.Try):
            self.block(st.body, env)
            for h in st.handlers:
                self.block(h.body, env)
            self.block(st.finalbody, env)
        elif isinstance(st, ast.Assert):
            self.refine_test(st.test, env)
        elif isinstance(st, ast.With):
            self.block(st.body, env)

    def raw_reads(self):
        for name, fn in self.methods.items():
            if not name.startswith('_parse_'):
                continue
            lits = set()
            for n in ast.walk(fn):
                if isinstance(n, ast.Call) and isinstance(n.func, ast.Name) and n.func.id in PREFIX and n.args \
                        and isinstance(n.args[0], ast.Constant):
                    lits.add(PREFIX[n.func.id] + n.args[0].value)
                elif isinstance(n, ast.Call) and isinstance(n.func, ast.Attribute) and n.func.attr == 'get' \
                        and n.args and isinstance(n.args[0], ast.Constant) and isinstance(n.args[0].value, str):
                    lits.add(n.args[0].value)
                elif isinstance(n, ast.Subscript) and isinstance(n.slice, ast.Constant) and isinstance(n.slice.value, str):
                    lits.add(n.slice.value)
            self.raw[name] = sorted(lits)


def lean_assoc(d):
    return lean_list(['(%s, %s)' % (lean_str(k), lean_list([lean_str(x) for x in sorted(v)])) for k, v in sorted(d.items())])


def compute(repo=REPO):
    """-> dict of tables; raises Shape when the sources no longer have the shape read here"""
    wpath = os.path.join(repo, 'giscanner', 'girwriter.py')
    rpath = os.path.join(repo, 'giscanner', 'girparser.py')
    wm, wsrc = methods_of(wpath, 'GIRWriter')
    rm, rsrc = methods_of(rpath, 'GIRParser')
    for need, ms in (('_write_repository', wm), ('_parse_api', rm)):
        if need not in ms:
            raise Shape('entry point %s is missing' % need)
    w = WriterWalk(wm)
    w.run_method('_write_repository', {})
    w.raw_literals()
    r = ReaderWalk(rm)
    r.invoke('_parse_api', [Elem(['repository'])], {})
    r.raw_reads()
    return {
        'w_attrs': {t: set().union(*[a.names for a in e['als']]) if e['als'] else set() for t, e in w.elements.items()},
        'w_children': {t: e['children'] for t, e in w.elements.items()},
        'w_text': sorted(t for t, e in w.elements.items() if e['text']),
        'r_attrs': {t: v for t, v in r.attrs.items() if t != '*'},
        'r_children': {t: v for t, v in r.children.items() if t != '*'},
        'r_text': sorted(r.text), 'r_handlers': r.handlers, 'w_raw': w.raw, 'r_raw': r.raw,
        'source_sha': hashlib.sha256((wsrc + rsrc).encode('utf-8')).hexdigest()[:12]}


def main():
    try:
        t = compute()
    except (Shape, OSError, SyntaxError) as e:
        print('gen_girvocab_rw: the source no longer has the shape this translator reads: %s' % e)
        return 1
    w_attrs, w_children, w_text = t['w_attrs'], t['w_children'], t['w_text']
    r_attrs, r_children = t['r_attrs'], t['r_children']

    class _R(object):
        pass
    r = _R()
    r.text, r.handlers, r.raw = t['r_text'], t['r_handlers'], t['r_raw']
    w = _R()
    w.raw = t['w_raw']
    src_hash = t['source_sha']
    text = '''-- GENERATED by translators/gen_girvocab_rw.py from giscanner/girwriter.py and giscanner/girparser.py. Do not edit.
namespace GIVerif.Gen.GirVocabRW

/-- writer: element -> attributes GIRWriter can put on it (both branches of every `if` taken) -/
def wAttrs : List (String × List String) := %s

/-- writer: element -> elements it can directly contain -/
def wChildren : List (String × List String) := %s

/-- writer: elements written with text content -/
def wText : List String := %s

/-- reader: element -> attributes GIRParser looks at on it -/
def rAttrs : List (String × List String) := %s

/-- reader: element -> child elements GIRParser looks for in it -/
def rChildren : List (String × List String) := %s

/-- reader: elements whose text GIRParser reads -/
def rText : List String := %s

/-- reader: element -> `_parse_*` methods that receive it -/
def rHandlers : List (String × List String) := %s

/-- per `_write_*` / `_append_*` method: attribute-name literals and element-name literals in its body -/
def wMethods : List (String × List String × List String) := %s

/-- per `_parse_*` method: every name literal it reads -/
def rMethods : List (String × List String) := %s

end GIVerif.Gen.GirVocabRW
''' % (lean_assoc(w_attrs), lean_assoc(w_children), lean_list([lean_str(x) for x in w_text]),
       lean_assoc(r_attrs), lean_assoc(r_children), lean_list([lean_str(x) for x in sorted(r.text)]),
       lean_assoc(r.handlers),
       lean_list(['(%s, %s, %s)' % (lean_str(k), lean_list([lean_str(x) for x in v[0]]),
                                    lean_list([lean_str(x) for x in v[1]])) for k, v in sorted(w.raw.items())]),
       lean_list(['(%s, %s)' % (lean_str(k), lean_list([lean_str(x) for x in v])) for k, v in sorted(r.raw.items())]))
    path, digest, changed = write_if_changed('GirVocabRW.lean', text)
    print('gen_girvocab_rw: %s sha256=%s changed=%s elements_written=%d attrs_written=%d elements_read=%d '
          'source_sha=%s' % (path, digest[:12], changed, len(w_attrs), sum(len(v) for v in w_attrs.values()),
                             len(r_attrs), src_hash))
    return 0


if __name__ == '__main__':
    sys.exit(main())
