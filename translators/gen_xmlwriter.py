#!/usr/bin/env python3
"""Gen/XmlWriter.lean: the literals C20's model depends on, re-read on every run from
/repo's giscanner/xmlwriter.py (Python `ast` walk, nothing is imported from /repo) and from
the xml.sax.saxutils of the running CPython (source of `escape` / `quoteattr` via `ast`).

* escapeTable       the `data.replace(k, v)` chain of saxutils.escape, in source order
* quoteattrEntities the dict literal quoteattr adds ('\\n', '\\r', '\\t' -> numeric references)
* quotReplacement   the `data.replace('"', "&quot;")` of quoteattr
* wrapColumn/wrapOp the comparison `_calc_attrs_length(...) > 79` of collect_attributes
* indentUnit        XMLWriter._indent_unit
* prolog            the XML declaration written by XMLWriter.__init__
* wsOn / wsOff      (indent char, newline char) set by enable_/disable_whitespace
* xmlwriterShape    every other string / comparison the model hard-codes, as a shape list that a
                    `decide` theorem in Props/C20.lean compares with what the model was written for.
A table that changes makes the theorems stated over it fail to re-check."""
import ast
import inspect
import os
import xml.sax.saxutils as saxutils
from common import write_if_changed, lean_list, lean_str, REPO


def const_str(node):
    if isinstance(node, ast.Constant) and isinstance(node.value, str):
        return node.value
    raise SystemExit('gen_xmlwriter: expected a string literal, got %s' % ast.dump(node))


def replace_calls(fn):
    """(receiver, key, value) of every `<name>.replace(<lit>, <lit>)` in source order"""
    out = []
    for node in ast.walk(fn):
        if isinstance(node, ast.Call) and isinstance(node.func, ast.Attribute) and node.func.attr == 'replace' \
                and len(node.args) == 2:
            out.append((node.lineno, node.col_offset, const_str(node.args[0]), const_str(node.args[1])))
    out.sort()
    return [(k, v) for _l, _c, k, v in out]


def func(tree, name):
    for node in ast.walk(tree):
        if isinstance(node, ast.FunctionDef) and node.name == name:
            return node
    raise SystemExit('gen_xmlwriter: function %s not found' % name)


def lean_char(ch):
    return 'Char.ofNat %d' % ord(ch)


def pairs(tbl):
    for k, _v in tbl:
        if len(k) != 1:
            raise SystemExit('gen_xmlwriter: replacement key %r is not a single character' % k)
    return lean_list(['(%s, %s.toList)' % (lean_char(k), lean_str(v)) for k, v in tbl])


def shape_of(fn, mask=()):
    """string constants (docstrings excluded), comparison operators and augmented assignments of
    one function, in source order; nodes in `mask` (the wrap comparison and its constant, which the
    model reads as data) are rendered as WRAP"""
    items = []
    doc = ast.get_docstring(fn, clean=False)
    for node in ast.walk(fn):
        if any(node is m for m in mask):
            items.append((node.lineno, node.col_offset, ('cmp' if isinstance(node, ast.Compare) else 'i') + ':WRAP'))
        elif isinstance(node, ast.Constant) and isinstance(node.value, str) and node.value != doc:
            items.append((node.lineno, node.col_offset, 's:' + node.value))
        elif isinstance(node, ast.Constant) and isinstance(node.value, (int,)) and not isinstance(node.value, bool):
            items.append((node.lineno, node.col_offset, 'i:%d' % node.value))
        elif isinstance(node, ast.Compare):
            items.append((node.lineno, node.col_offset, 'cmp:' + ','.join(type(o).__name__ for o in node.ops)))
        elif isinstance(node, ast.AugAssign):
            items.append((node.lineno, node.col_offset, 'aug:' + type(node.op).__name__))
        elif isinstance(node, ast.UnaryOp):
            items.append((node.lineno, node.col_offset, 'un:' + type(node.op).__name__))
        elif isinstance(node, ast.BoolOp):
            items.append((node.lineno, node.col_offset, 'bool:' + type(node.op).__name__))
        elif isinstance(node, ast.BinOp):
            items.append((node.lineno, node.col_offset, 'bin:' + type(node.op).__name__))
        elif isinstance(node, (ast.Try,)):
            items.append((node.lineno, node.col_offset, 'try:finally=%d,handlers=%d' % (len(node.finalbody),
                                                                                      len(node.handlers))))
    items.sort()
    return [t for _l, _c, t in items]


def main():
    # ---- saxutils of the running CPython
    sx = ast.parse(inspect.getsource(saxutils))
    esc = func(sx, 'escape')
    qa = func(sx, 'quoteattr')
    escape_table = replace_calls(esc)
    quot = replace_calls(qa)
    if len(quot) != 1:
        raise SystemExit('gen_xmlwriter: quoteattr has %d replace calls' % len(quot))
    ents = None
    for node in ast.walk(qa):
        if isinstance(node, ast.Dict):
            ents = [(const_str(k), const_str(v)) for k, v in zip(node.keys, node.values) if k is not None]
    if ents is None:
        raise SystemExit('gen_xmlwriter: quoteattr entity dict not found')
    sax_shape = shape_of(qa)

    # ---- giscanner/xmlwriter.py
    path = os.path.join(REPO, 'giscanner', 'xmlwriter.py')
    with open(path, encoding='utf-8') as f:
        src = f.read()
    tree = ast.parse(src)
    ca = func(tree, 'collect_attributes')
    wrap = None
    mask = []
    for node in ast.walk(ca):
        if isinstance(node, ast.Compare) and isinstance(node.left, ast.Call) \
                and getattr(node.left.func, 'id', '') == '_calc_attrs_length':
            if len(node.ops) != 1 or not isinstance(node.comparators[0], ast.Constant) \
                    or not isinstance(node.comparators[0].value, int) or node.comparators[0].value < 0:
                raise SystemExit('gen_xmlwriter: wrap comparison is not `<call> <op> <non-negative int>`')
            wrap = (type(node.ops[0]).__name__, node.comparators[0].value)
            mask = [node, node.comparators[0]]
    if wrap is None:
        raise SystemExit('gen_xmlwriter: wrap comparison not found in collect_attributes')
    init = func(tree, '__init__')
    indent_unit = None
    prolog = None
    for node in ast.walk(init):
        if isinstance(node, ast.Assign) and isinstance(node.targets[0], ast.Attribute) \
                and node.targets[0].attr == '_indent_unit':
            indent_unit = node.value.value
        if isinstance(node, ast.Call) and isinstance(node.func, ast.Attribute) and node.func.attr == 'write':
            prolog = const_str(node.args[0])
    if indent_unit is None or prolog is None:
        raise SystemExit('gen_xmlwriter: indent unit / prolog not found')

    def ws(fname):
        d = {}
        for node in ast.walk(func(tree, fname)):
            if isinstance(node, ast.Assign) and isinstance(node.targets[0], ast.Attribute):
                d[node.targets[0].attr] = const_str(node.value)
        return d['_indent_char'], d['_newline_char']
    ws_on = ws('enable_whitespace')
    ws_off = ws('disable_whitespace')
    shape = []
    for name in ['_calc_attrs_length', 'collect_attributes', 'build_xml_tag', '_open_tag', '_close_tag',
                 'write_line', 'write_comment', 'write_tag', 'push_tag', 'pop_tag', 'tagcontext']:
        shape.append('def:' + name)
        shape.extend(shape_of(func(tree, name), mask))

    text = '''-- GENERATED by translators/gen_xmlwriter.py from giscanner/xmlwriter.py and the running CPython's
-- xml.sax.saxutils. Do not edit.
namespace GIVerif.Gen

/-- saxutils.escape: the chain of `data.replace(k, v)` in source order -/
def escapeTable : List (Char × List Char) := %s

/-- saxutils.quoteattr: the entities added to the dict, in dict order -/
def quoteattrEntities : List (Char × List Char) := %s

/-- saxutils.quoteattr: replacement used when both quote kinds occur -/
def quotReplacement : List (Char × List Char) := %s

/-- every other literal / operator of saxutils.quoteattr in source order -/
def quoteattrShape : List String := %s

/-- collect_attributes: `_calc_attrs_length(...) <wrapOp> <wrapColumn>` -/
def wrapOp : String := %s
def wrapColumn : Nat := %d

/-- XMLWriter._indent_unit -/
def indentUnit : Nat := %d

/-- the XML declaration XMLWriter.__init__ writes -/
def prolog : List Char := %s.toList

/-- (indent char, newline char) of enable_whitespace / disable_whitespace -/
def wsOn : List Char × List Char := (%s.toList, %s.toList)
def wsOff : List Char × List Char := (%s.toList, %s.toList)

/-- literals and operators of the modelled functions of xmlwriter.py, in source order -/
def xmlwriterShape : List String := %s

end GIVerif.Gen
''' % (pairs(escape_table), pairs(ents), pairs(quot), lean_list([lean_str(t) for t in sax_shape]),
       lean_str(wrap[0]), wrap[1], indent_unit, lean_str(prolog),
       lean_str(ws_on[0]), lean_str(ws_on[1]), lean_str(ws_off[0]), lean_str(ws_off[1]),
       lean_list([lean_str(t) for t in shape]))
    path, digest, changed = write_if_changed('XmlWriter.lean', text)
    print('gen_xmlwriter: %s sha256=%s changed=%s' % (path, digest[:12], changed))


if __name__ == '__main__':
    main()
