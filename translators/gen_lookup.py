#!/usr/bin/env python3
"""Gen/Lookup.lean: the literals the C14 model depends on, re-read from /repo's current
girepository/gitypelib-internal.h, gitypelib.c, gthash.c and girmodule.c on every run:

* the blob types `BLOB_IS_REGISTERED_TYPE` accepts (both preprocessor variants; found by
  EVALUATING the compiled predicate on every enumerator of GTypelibBlobType, so that any
  rewriting of the predicate shows up as a change of the explicit list),
* the single blob type `g_typelib_get_dir_entry_by_error_domain` accepts,
* the separator of the c_prefix list in `g_typelib_matches_gtype_name_prefix`,
* in gthash.c: the width of the size counter, of a table slot, the alignment of the table,
  the clamp statement of `_gi_typelib_hash_search`,
* in girmodule.c: the width of `required_size` and the alignment of the section,
* in girepository.c: the CACHE SKELETON of the repository-level lookups - for register_internal,
  get_registered_status, g_irepository_load_typelib, require_internal (which typelib a lazy ->
  loaded transition registers), g_irepository_find_by_gtype and g_irepository_find_by_error_domain (and
  any other function that touches priv->info_by_gtype / info_by_error_domain / unknown_gtypes)
  every statement that reads, fills or clears one of the five tables of GIRepositoryPrivate and
  every `return`, each with the chain of `if`/`else` conditions it is nested in.  The model's
  `registerInternal` takes "is the negative cache cleared on this branch" from this table.

Regex over regular C; anything that no longer has the expected shape is a translator failure
(the check then reports that the source no longer has the shape it reads)."""
import os
import re
import sys

from common import write_if_changed, lean_list, lean_str, REPO

GIR = os.path.join(REPO, 'girepository')


def read(name):
    with open(os.path.join(GIR, name), encoding='utf-8', errors='replace') as f:
        return f.read()


def strip_comments(src):
    return re.sub(r'/\*.*?\*/', ' ', src, flags=re.S)


def fail(msg):
    print('gen_lookup: ' + msg)
    sys.exit(1)


def function_body(src, name):
    """text between the braces of the definition of `name` (definition = name at line start)"""
    m = re.search(r'^%s\s*\(' % re.escape(name), src, re.M)
    if not m:
        fail('function %s not found' % name)
    i = src.index('{', m.end())
    depth = 0
    for j in range(i, len(src)):
        if src[j] == '{':
            depth += 1
        elif src[j] == '}':
            depth -= 1
            if depth == 0:
                return src[i + 1:j]
    fail('unbalanced braces in %s' % name)


def norm(s):
    return ' '.join(s.split())


def uint_bits(ctype):
    m = re.fullmatch(r'guint(8|16|32|64)', ctype)
    if not m:
        fail('unexpected integer type %r' % ctype)
    return int(m.group(1))


TABLES = ('typelibs', 'lazy_typelibs', 'info_by_gtype', 'info_by_error_domain', 'unknown_gtypes')
CACHES = ('info_by_gtype', 'info_by_error_domain', 'unknown_gtypes')
LOOKUP_FUNCS = ('get_registered_status', 'register_internal', 'g_irepository_load_typelib', 'require_internal',
                'g_irepository_find_by_gtype', 'g_irepository_find_by_error_domain')


def squeeze(s):
    return ''.join(s.split())


class StmtWalker(object):
    """walks the statements of one C function body (regular C: blocks, if/else, loops, simple
    statements) and records table uses and returns together with their guards"""

    def __init__(self, src):
        self.s = src
        self.out = []

    def ws(self, i):
        while i < len(self.s) and self.s[i].isspace():
            i += 1
        return i

    def kw(self, i, w):
        nxt = self.s[i + len(w):i + len(w) + 1]
        return self.s.startswith(w, i) and not (nxt.isalnum() or nxt == '_')

    def skipstr(self, j):
        q = self.s[j]
        j += 1
        while self.s[j] != q:
            if self.s[j] == '\\':
                j += 1
            j += 1
        return j + 1

    def parens(self, i):
        if self.s[i] != '(':
            fail('girepository.c: "(" expected near %r' % self.s[i:i + 40])
        d = 0
        j = i
        while True:
            c = self.s[j]
            if c in '"\'':
                j = self.skipstr(j)
                continue
            if c == '(':
                d += 1
            elif c == ')':
                d -= 1
                if d == 0:
                    return self.s[i + 1:j], j + 1
            j += 1

    def last_arg(self, text, i):
        j = text.index('(', i)
        d = 0
        cur = ''
        for k in range(j, len(text)):
            c = text[k]
            if c == '(':
                d += 1
                if d > 1:
                    cur += c
            elif c == ')':
                d -= 1
                if d == 0:
                    return squeeze(cur)
                cur += c
            elif c == ',' and d == 1:
                cur = ''
            else:
                cur += c
        return squeeze(cur)

    def uses(self, text, guards, cond=False):
        for m in re.finditer(r'(\w+)\s*\(\s*repository->priv->(\w+)\s*[,)]', text):
            callee, table = m.group(1), m.group(2)
            if table not in TABLES or callee == 'g_hash_table_destroy':
                continue
            if callee == 'find_by_gtype':
                callee += '(' + self.last_arg(text, m.start()) + ')'
            self.out.append((list(guards), ('cond:' if cond else '') + callee, table))

    def stmt(self, i, guards):
        i = self.ws(i)
        s = self.s
        if s[i] == '{':
            i += 1
            while True:
                i = self.ws(i)
                if s[i] == '}':
                    return i + 1
                i = self.stmt(i, guards)
        if self.kw(i, 'if'):
            cond, j = self.parens(self.ws(i + 2))
            self.uses(cond, guards, cond=True)
            c = squeeze(cond)
            j = self.stmt(j, guards + ['if:' + c])
            k = self.ws(j)
            if self.kw(k, 'else'):
                return self.stmt(k + 4, guards + ['else:' + c])
            return j
        for w in ('while', 'for', 'switch'):
            if self.kw(i, w):
                cond, j = self.parens(self.ws(i + len(w)))
                self.uses(cond, guards, cond=True)
                return self.stmt(j, guards + [w + ':' + squeeze(cond)])
        if self.kw(i, 'do'):
            j = self.ws(self.stmt(i + 2, guards + ['do']))
            if not self.kw(j, 'while'):
                fail('girepository.c: do without while')
            cond, j = self.parens(self.ws(j + 5))
            self.uses(cond, guards, cond=True)
            return s.index(';', j) + 1
        j = i
        d = 0
        while True:
            c = s[j]
            if c in '"\'':
                j = self.skipstr(j)
                continue
            if c in '([{':
                d += 1
            elif c in ')]}':
                d -= 1
            elif c == ';' and d == 0:
                break
            j += 1
        self.uses(s[i:j], guards)
        for w in ('return', 'goto'):
            if self.kw(i, w):
                self.out.append((list(guards), w, ''))
        return j + 1


def cache_sites():
    src = strip_comments(read('girepository.c'))
    src = re.sub(r'^[ \t]*#.*$', '', src, flags=re.M)
    res = []
    seen = set()
    try:
        for m in re.finditer(r'^(\w+)\s*\(', src, re.M):
            name = m.group(1)
            w = StmtWalker(src)
            _, j = w.parens(src.index('(', m.start()))
            j = w.ws(j)
            if j >= len(src) or src[j] != '{':
                continue
            # only functions that can matter are walked statement by statement: the four lookup
            # functions and whatever else mentions one of the three caches
            nxt = re.search(r'^\w+\s*\(', src[j:], re.M)
            text = src[j:j + nxt.start()] if nxt else src[j:]
            if name not in LOOKUP_FUNCS and not any(('priv->' + c) in text for c in CACHES):
                continue
            w.stmt(j, [])
            touches = any(t in CACHES for _g, _c, t in w.out)
            if not (touches or name in LOOKUP_FUNCS):
                continue
            seen.add(name)
            for g, c, t in w.out:
                if name in LOOKUP_FUNCS or t in CACHES:
                    res.append((name, g, c, t))
    except (IndexError, ValueError) as e:
        fail('girepository.c: statement structure not recognised (%r)' % (e,))
    for fn in LOOKUP_FUNCS:
        if fn not in seen:
            fail('girepository.c: function %s not found' % fn)
    return res


def eval_registered(enum, undef_inline):
    """names of the enumerators of GTypelibBlobType for which BLOB_IS_REGISTERED_TYPE is true, in the
    order of the enum, as computed by the compiled header itself"""
    import shutil
    import subprocess
    import tempfile
    from common import VERIF
    shim = os.path.join(VERIF, 'glibshim', 'inc')
    c = ['#include <stdio.h>', '#include <glib.h>']
    if undef_inline:
        c.append('#undef G_CAN_INLINE')
    c += ['#include "gitypelib-internal.h"', 'int main (void) {', '  DirEntry e;']
    for nm, _v in enum:
        c.append('  e.blob_type = %s; if (BLOB_IS_REGISTERED_TYPE (&e)) printf ("%s\\n");' % (nm, nm))
    c += ['  return 0;', '}']
    tmp = tempfile.mkdtemp(prefix='giverif.lookup.', dir=os.environ.get('TMPDIR', '/var/tmp'))
    try:
        cfile = os.path.join(tmp, 'probe.c')
        with open(cfile, 'w') as f:
            f.write('\n'.join(c))
        exe = os.path.join(tmp, 'probe')
        p = subprocess.run(['gcc', '-w', '-DGI_COMPILATION', '-I' + shim, '-I' + REPO, '-I' + GIR, cfile, '-o', exe],
                           stdout=subprocess.PIPE, stderr=subprocess.STDOUT)
        if p.returncode != 0:
            fail('BLOB_IS_REGISTERED_TYPE probe does not compile against gitypelib-internal.h: %s'
                 % p.stdout.decode('utf-8', 'replace')[-600:])
        out = subprocess.run([exe], stdout=subprocess.PIPE, check=True).stdout.decode()
    finally:
        shutil.rmtree(tmp, ignore_errors=True)
    return out.split()


def main():
    hdr = strip_comments(read('gitypelib-internal.h'))
    m = re.search(r'typedef\s+enum\s*\{([^}]*)\}\s*GTypelibBlobType\s*;', hdr)
    if not m:
        fail('enum GTypelibBlobType not found')
    enum = []
    val = -1
    for item in m.group(1).split(','):
        item = item.strip()
        if not item:
            continue
        if '=' in item:
            nm, v = [x.strip() for x in item.split('=')]
            val = int(v, 0)
        else:
            nm = item
            val += 1
        enum.append((nm, val))
    values = dict(enum)

    # BLOB_IS_REGISTERED_TYPE is EVALUATED, not parsed: a probe compiled against the header (with the
    # GLib shim) applies the predicate to every enumerator of GTypelibBlobType, once as the header is
    # normally compiled (G_CAN_INLINE variant) and once with G_CAN_INLINE undefined (plain macro
    # variant).  However the predicate is written (switch, == chain, range check), the table lists the
    # accepted blob kinds explicitly.
    inline_names = eval_registered(enum, undef_inline=False)
    macro_names = eval_registered(enum, undef_inline=True)
    if not inline_names or not macro_names:
        fail('BLOB_IS_REGISTERED_TYPE accepts no blob type')

    # which blob struct each top-level blob kind is written with (girnode.c) and which of those
    # structs carry a `gtype_name` member (the header): the blob kinds that CAN be registered types
    gn = strip_comments(read('girnode.c'))
    blob_struct = []
    cur = None
    for m in re.finditer(r'(\w+Blob)\s*\*blob\s*=\s*\(\s*\1\s*\*\s*\)|blob->blob_type\s*=\s*(BLOB_TYPE_\w+)\s*;', gn):
        if m.group(1):
            cur = m.group(1)
        elif cur is not None and m.group(2) in values and (m.group(2), cur) not in blob_struct:
            blob_struct.append((m.group(2), cur))
    if not blob_struct:
        fail('girnode.c: no `XBlob *blob = ...; blob->blob_type = BLOB_TYPE_Y;` pairs found')
    with_gtype = set()
    for m in re.finditer(r'typedef\s+struct\s*\{([^{}]*)\}\s*(\w+)\s*;', hdr):
        if re.search(r'\bguint32\s+gtype_name\s*;', m.group(1)):
            with_gtype.add(m.group(2))
    if 'RegisteredTypeBlob' not in with_gtype:
        fail('gitypelib-internal.h: RegisteredTypeBlob with a gtype_name member not found')
    gtype_kinds = sorted(set(values[b] for b, st in blob_struct if st in with_gtype))

    tl = strip_comments(read('gitypelib.c'))
    body = function_body(tl, 'g_typelib_get_dir_entry_by_error_domain')
    dm = re.findall(r'entry->blob_type\s*(==|!=)\s*(BLOB_TYPE_\w+)', body)
    if len(dm) != 1 or dm[0][0] != '!=' or dm[0][1] not in values:
        fail('error-domain scan no longer has one `entry->blob_type != BLOB_TYPE_x` test: %r' % dm)
    body = function_body(tl, 'g_typelib_matches_gtype_name_prefix')
    sm = re.search(r'strsplit_iter_init\s*\(\s*&split_iter\s*,\s*c_prefix\s*,\s*"([^"]*)"\s*\)', body)
    if not sm:
        fail('c_prefix separator not found')
    follower = re.findall(r'if\s*\(\s*(\w+)\s*\(\s*gtype_name\s*\[\s*len\s*\]\s*\)\s*\)', body)
    if len(follower) != 1:
        fail('follower test of g_typelib_matches_gtype_name_prefix not found')
    byname = function_body(tl, 'g_typelib_get_dir_entry_by_name')
    n_strcmp = len(re.findall(r'strcmp\s*\(\s*name\s*,\s*entry_name\s*\)\s*==\s*0', byname))
    bound = re.search(r'n_entries\s*=\s*\(\(Header \*\)typelib->data\)->(\w+)\s*;', byname)
    if not bound:
        fail('n_entries of g_typelib_get_dir_entry_by_name not found')

    th = strip_comments(read('gthash.c'))
    prep = function_body(th, '_gi_typelib_hash_builder_prepare')
    cm = re.search(r'offset\s*=\s*sizeof\s*\(\s*(guint\d+)\s*\)\s*\+\s*cmph_packed_size', prep)
    am = re.search(r'dirmap_offset\s*=\s*ALIGN_VALUE\s*\(\s*offset\s*,\s*(\d+)\s*\)', prep)
    pm = re.search(r'packed_size\s*=\s*builder->dirmap_offset\s*\+\s*\(\s*num_elts\s*\*\s*sizeof\s*\(\s*(guint\d+)\s*\)\s*\)', prep)
    if not (cm and am and pm):
        fail('size arithmetic of _gi_typelib_hash_builder_prepare not recognised')
    search = function_body(th, '_gi_typelib_hash_search')
    clamp = re.search(r'if\s*\(([^)]*)\)\s*offset\s*=\s*(\d+)\s*;', search)
    if not clamp:
        fail('clamp of _gi_typelib_hash_search not found')
    tm = re.search(r'table\s*=\s*\(\s*(guint\d+)\s*\*\s*\)\s*\(\s*memory\s*\+\s*dirmap_offset\s*\)', search)
    if not tm:
        fail('table pointer of _gi_typelib_hash_search not found')
    addm = re.search(r'_gi_typelib_hash_builder_add_string\s*\([^)]*?(guint\d+)\s+value\s*\)', th, re.S)
    if not addm:
        fail('_gi_typelib_hash_builder_add_string value width not found')

    gm = strip_comments(read('girmodule.c'))
    sec = function_body(gm, 'add_directory_index_section')
    rm = re.search(r'\b(guint\d+)\s+required_size\s*;', sec)
    ra = re.search(r'required_size\s*=\s*ALIGN_VALUE\s*\(\s*required_size\s*,\s*(\d+)\s*\)', sec)
    if not (rm and ra):
        fail('required_size of add_directory_index_section not recognised')

    sites = cache_sites()

    text = '''-- GENERATED by translators/gen_lookup.py from girepository/{gitypelib-internal.h,gitypelib.c,gthash.c,girmodule.c,girnode.c,girepository.c}. Do not edit.
namespace GIVerif.Gen

/-- enumerators of GTypelibBlobType as declared in the header -/
def blobTypeEnum : List (String × Nat) := %s

/-- blob types accepted by BLOB_IS_REGISTERED_TYPE as the header is compiled (G_CAN_INLINE variant),
    found by applying the compiled predicate to every enumerator: (names, values) in enum order -/
def registeredInline : List (String × Nat) := %s

/-- the same with G_CAN_INLINE undefined (plain macro variant) -/
def registeredMacro : List (String × Nat) := %s

/-- blob types g_typelib_get_dir_entry_by_gtype_name looks at -/
def registeredBlobTypes : List Nat := %s

/-- girnode.c: the struct each blob kind is written with (kind, struct, value of the kind) -/
def blobStructOf : List (String × String × Nat) := %s

/-- the blob kinds whose struct has a `gtype_name` member (the header): what can be a registered type -/
def gtypeNameBlobTypes : List Nat := %s

/-- the one blob type g_typelib_get_dir_entry_by_error_domain looks at -/
def errorDomainBlobType : String × Nat := (%s, %d)

/-- separator of the c_prefix list and the predicate applied to the character after the prefix -/
def cprefixSeparator : String := %s
def cprefixFollower : String := %s

/-- g_typelib_get_dir_entry_by_name: number of `strcmp (name, entry_name) == 0` tests, header
    field bounding both paths -/
def byNameStrcmpTests : Nat := %d
def byNameBoundField : String := %s

/-- gthash.c: bytes of the size counter, alignment of the table, bytes per table slot (prepare),
    table slot type read by the search, bits of the value stored per key, the clamp -/
def hashCounterBytes : Nat := %d
def hashTableAlign : Nat := %d
def hashSlotBytes : Nat := %d
def hashSearchSlotBits : Nat := %d
def hashValueBits : Nat := %d
def hashClampCond : String := %s
def hashClampTo : Nat := %s

/-- girmodule.c add_directory_index_section: bits of `required_size`, alignment of the section -/
def requiredSizeBits : Nat := %d
def sectionAlign : Nat := %d

/-- girepository.c: cache skeleton of the repository-level lookups: (function, guards from the
    outermost `if:`/`else:` condition inwards, callee or `return`, table of GIRepositoryPrivate) in
    source order (`cond:` = the use sits inside the condition of an `if`) -/
def cacheSites : List (String × List String × String × String) := [
%s]

end GIVerif.Gen
''' % (lean_list(['(%s, %d)' % (lean_str(n), v) for n, v in enum]),
       lean_list(['(%s, %d)' % (lean_str(n), values[n]) for n in inline_names]),
       lean_list(['(%s, %d)' % (lean_str(n), values[n]) for n in macro_names]),
       lean_list(['%d' % values[n] for n in inline_names]),
       lean_list(['(%s, %s, %d)' % (lean_str(b), lean_str(st), values[b]) for b, st in blob_struct]),
       lean_list(['%d' % v for v in gtype_kinds]),
       lean_str(dm[0][1]), values[dm[0][1]],
       lean_str(sm.group(1)), lean_str(follower[0]),
       n_strcmp, lean_str(bound.group(1)),
       uint_bits(cm.group(1)) // 8, int(am.group(1)), uint_bits(pm.group(1)) // 8,
       uint_bits(tm.group(1)), uint_bits(addm.group(1)),
       lean_str(norm(clamp.group(1))), clamp.group(2),
       uint_bits(rm.group(1)), int(ra.group(1)),
       ',\n'.join('  (%s, %s, %s, %s)' % (lean_str(f), lean_list([lean_str(x) for x in g]), lean_str(c), lean_str(t))
                  for f, g, c, t in sites))
    path, digest, changed = write_if_changed('Lookup.lean', text)
    print('gen_lookup: %s sha256=%s changed=%s registered=%s' % (path, digest[:12], changed,
                                                                 ','.join(inline_names)))


if __name__ == '__main__':
    main()
