#!/usr/bin/env python3
"""Gen/Naming.lean: what the C04 model takes from the source as data.

* the three regular expressions of giscanner/utils.py (`_upperstr_pat1..3`) parsed with
  CPython's own regex parser (re._parser) into shape strings, plus the character classes
  the scanners of the model use (`[A-Z]`, `[0-9a-z]`);
* the substitution steps of `to_underscores` / `to_underscores_noprefix` (which pattern,
  which template, which count), read from the function bodies with the `ast` module;
* the constructor-name guesses of `MainTransformer._guess_constructor_by_name`, the
  root class name of the ancestor walk of `_is_constructor`, and the get-type suffixes
  of `ast.Function.is_type_meta_function`, read with the `ast` module;
* the statements of `GDumpParser._split_type_and_symbol_prefix` (which suffix is cut off the get-type
  symbol, and that it is cut at the END), unparsed with the `ast` module.

A `decide` theorem in Props/C04.lean pins every shape string to the shape the model was
written for, so a changed regex / template / literal breaks a proof obligation."""
import ast as pyast
import os
import re._parser as sre_parse
import sys
from common import write_if_changed, lean_list, lean_str, REPO
from gen_shlibs import render, class_ranges

sys.path.insert(0, REPO)


def read(rel):
    with open(os.path.join(REPO, rel), encoding='utf-8') as f:
        return f.read()


def find_func(tree, name, cls=None):
    for node in pyast.walk(tree):
        if cls is not None:
            if isinstance(node, pyast.ClassDef) and node.name == cls:
                for sub in node.body:
                    if isinstance(sub, pyast.FunctionDef) and sub.name == name:
                        return sub
        elif isinstance(node, pyast.FunctionDef) and node.name == name:
            return node
    raise SystemExit('gen_naming: function %s not found' % name)


def sub_steps(fn):
    """the `name = PAT.sub(TEMPLATE, name[, count=N])` statements of a function, in order"""
    steps = []
    for st in fn.body:
        if isinstance(st, pyast.Assign) and isinstance(st.value, pyast.Call) \
                and isinstance(st.value.func, pyast.Attribute) and st.value.func.attr == 'sub':
            call = st.value
            pat = call.func.value.id if isinstance(call.func.value, pyast.Name) else pyast.dump(call.func.value)
            tmpl = call.args[0].value if isinstance(call.args[0], pyast.Constant) else '?'
            arg = call.args[1].id if isinstance(call.args[1], pyast.Name) else '?'
            count = 'all'
            for kw in call.keywords:
                if kw.arg == 'count':
                    count = str(pyast.literal_eval(kw.value))
            if len(call.args) > 2:
                count = str(pyast.literal_eval(call.args[2]))
            tgt = st.targets[0].id if isinstance(st.targets[0], pyast.Name) else '?'
            steps.append('%s=%s.sub(%s,%s,%s)' % (tgt, pat, tmpl, arg, count))
        elif isinstance(st, pyast.Return):
            steps.append('return ' + (st.value.id if isinstance(st.value, pyast.Name) else pyast.dump(st.value)))
        elif isinstance(st, pyast.Expr) and isinstance(st.value, pyast.Constant):
            continue            # docstring
        else:
            steps.append('stmt:' + type(st).__name__)
    return steps


def groups_classes(tree):
    """[(negated, ranges)] for every `in(...)` node inside the groups of a parsed pattern"""
    out = []

    def walk(nodes):
        for op, av in nodes:
            op = str(op)
            if op == 'SUBPATTERN':
                walk(av[3])
            elif op == 'IN':
                neg = any(str(o) == 'NEGATE' for o, _ in av)
                out.append((neg, class_ranges(av)))
    walk(tree)
    return out


def string_tests(fn):
    """the literal string tests of a small predicate: endswith('x') / 'x' in name, in order"""
    out = []
    for node in pyast.walk(fn):
        if isinstance(node, pyast.Call) and isinstance(node.func, pyast.Attribute) \
                and node.func.attr in ('endswith', 'startswith') and node.args \
                and isinstance(node.args[0], pyast.Constant):
            out.append('%s(%s)' % (node.func.attr, node.args[0].value))
        elif isinstance(node, pyast.Compare) and len(node.ops) == 1 and isinstance(node.ops[0], pyast.In) \
                and isinstance(node.left, pyast.Constant):
            out.append('in(%s)' % node.left.value)
    return out


def main():
    from giscanner import utils
    shapes = []
    classes = []
    for nm in ('_upperstr_pat1', '_upperstr_pat2', '_upperstr_pat3'):
        pat = getattr(utils, nm)
        tree = list(sre_parse.parse(pat.pattern, pat.flags))
        shapes.append('%s[flags=%d]: %s' % (nm, pat.flags & ~32, ' '.join(render(tree))))
        classes.append(groups_classes(tree))
    # the classes the model scans with: pat1 group 2 = [A-Z]; pat2 group 2 second item = [0-9a-z]
    upper = classes[0][1][1] if len(classes[0]) > 1 else []
    lowdig = classes[1][3][1] if len(classes[1]) > 3 else []

    utree = pyast.parse(read('giscanner/utils.py'))
    steps_tu = sub_steps(find_func(utree, 'to_underscores'))
    steps_np = sub_steps(find_func(utree, 'to_underscores_noprefix'))

    mtree = pyast.parse(read('giscanner/maintransformer.py'))
    guess = string_tests(find_func(mtree, '_guess_constructor_by_name', 'MainTransformer'))
    isctor = find_func(mtree, '_is_constructor', 'MainTransformer')
    roots = sorted(set(n.value for n in pyast.walk(isctor)
                       if isinstance(n, pyast.Constant) and isinstance(n.value, str) and n.value.startswith('GObject.')))
    # GDumpParser._split_type_and_symbol_prefix: the symbol prefix of a registered type is its get-type
    # symbol minus the namespace prefix and the FINAL suffix; statements normalised (fatal message elided)
    dtree = pyast.parse(read('giscanner/gdumpparser.py'))
    split_shape = []
    for stmt in find_func(dtree, '_split_type_and_symbol_prefix', 'GDumpParser').body:
        if isinstance(stmt, pyast.Expr) and isinstance(stmt.value, pyast.Constant):
            continue                                     # docstring
        if isinstance(stmt, pyast.If) and any(isinstance(n, pyast.Attribute) and n.attr == 'fatal'
                                              for n in pyast.walk(stmt)):
            split_shape.append('if %s: fatal' % pyast.unparse(stmt.test))
        else:
            split_shape.append(' '.join(pyast.unparse(stmt).split()))
    atree = pyast.parse(read('giscanner/ast.py'))
    meta = string_tests(find_func(atree, 'is_type_meta_function', 'Function'))

    text = '''-- GENERATED by translators/gen_naming.py from giscanner/utils.py, maintransformer.py, gdumpparser.py, ast.py. Do not edit.
namespace GIVerif.Gen

/-- `_upperstr_pat1..3` as parsed by CPython's regex parser -/
def upperstrShapes : List String := %s

/-- the class `[A-Z]` of the patterns (second group of pat1), inclusive code point ranges -/
def reUpper : List (Nat × Nat) := %s

/-- the class `[0-9a-z]` of pat2 -/
def reLowerDigit : List (Nat × Nat) := %s

/-- statements of `to_underscores` -/
def toUnderscoresSteps : List String := %s

/-- statements of `to_underscores_noprefix` -/
def toUnderscoresNoprefixSteps : List String := %s

/-- string tests of `_guess_constructor_by_name` -/
def guessConstructorTests : List String := %s

/-- class names at which the ancestor walk of `_is_constructor` stops early (none: it walks to the root) -/
def ctorWalkRoots : List String := %s

/-- string tests of `Function.is_type_meta_function` -/
def typeMetaTests : List String := %s

/-- statements of `GDumpParser._split_type_and_symbol_prefix` -/
def splitTypeAndSymbolPrefixSteps : List String := %s

end GIVerif.Gen
''' % (lean_list([lean_str(s) for s in shapes]),
       lean_list(['(%d, %d)' % r for r in upper]),
       lean_list(['(%d, %d)' % r for r in lowdig]),
       lean_list([lean_str(s) for s in steps_tu]),
       lean_list([lean_str(s) for s in steps_np]),
       lean_list([lean_str(s) for s in guess]),
       lean_list([lean_str(s) for s in roots]),
       lean_list([lean_str(s) for s in meta]),
       lean_list([lean_str(s) for s in split_shape]))
    path, digest, changed = write_if_changed('Naming.lean', text)
    print('gen_naming: %s sha256=%s changed=%s shapes=%d' % (path, digest[:12], changed, len(shapes)))


if __name__ == '__main__':
    main()
