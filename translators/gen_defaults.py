#!/usr/bin/env python3
"""Gen/Defaults.lean: the literal names and comparison shapes the un-annotated default
passes depend on, re-read from /repo's current tree with Python's `ast` module
(giscanner/maintransformer.py: _pass3_callable_callbacks, _pass3_callable_throws,
_get_transfer_default*, the nullable rules of _apply_annotations_param_ret_common;
giscanner/transformer.py: _create_callback, create_type_from_ctype_string,
_create_bare_container_type, _create_source_type, _create_complete_source_type,
_canonicalize_ctype) plus BASIC_GIR_TYPES of giscanner/ast.py (imported).

Two kinds of output:
  * named literals the Lean models use directly (a renamed literal changes the model's
    behaviour together with the code's, and the statement-level theorems/oracles notice);
  * per function "shape" lists: every comparison / string method call / string constant
    return or assignment in source order, rendered as text.  A `decide` theorem in
    Props/C02.lean compares them with the shapes the models were written for, so a changed
    test (endswith -> ==, a different operand) breaks a proof obligation.
"""
import ast as pyast
import os
import sys

from common import write_if_changed, lean_list, lean_str, install_stub_lexer, REPO


def src(path):
    with open(os.path.join(REPO, path), encoding='utf-8') as f:
        return f.read()


def find_func(tree, name):
    for node in pyast.walk(tree):
        if isinstance(node, pyast.FunctionDef) and node.name == name:
            return node
    raise SystemExit('gen_defaults: function %s not found' % name)


def expr(e):
    """Compact rendering of the expressions that occur in the tests we care about."""
    if isinstance(e, pyast.Constant):
        return repr(e.value)
    if isinstance(e, pyast.Name):
        return e.id
    if isinstance(e, pyast.Attribute):
        return expr(e.value) + '.' + e.attr
    if isinstance(e, (pyast.Tuple, pyast.List)):
        return '(' + ','.join(expr(x) for x in e.elts) + ')'
    if isinstance(e, pyast.Call):
        return expr(e.func) + '(' + ','.join(expr(a) for a in e.args) + \
            ''.join(',%s=%s' % (k.arg, expr(k.value)) for k in e.keywords) + ')'
    if isinstance(e, pyast.Subscript):
        return expr(e.value) + '[' + expr(e.slice) + ']'
    if isinstance(e, pyast.Slice):
        return '%s:%s' % (expr(e.lower) if e.lower else '', expr(e.upper) if e.upper else '')
    if isinstance(e, pyast.UnaryOp):
        return type(e.op).__name__ + ' ' + expr(e.operand)
    if isinstance(e, pyast.BinOp):
        return '(%s %s %s)' % (expr(e.left), type(e.op).__name__, expr(e.right))
    if isinstance(e, pyast.BoolOp):
        return '(' + (' %s ' % type(e.op).__name__).join(expr(v) for v in e.values) + ')'
    if isinstance(e, pyast.Compare):
        out = expr(e.left)
        for op, c in zip(e.ops, e.comparators):
            out += ' %s %s' % (type(op).__name__, expr(c))
        return out
    return type(e).__name__


def stmt_shape(body, out, depth=0):
    """Control-flow skeleton of a function body: tests of if/elif/while, for headers,
    assignments, returns, raises, augmented assignments, expression calls."""
    ind = '.' * depth
    for s in body:
        if isinstance(s, pyast.Expr) and isinstance(s.value, pyast.Constant) and isinstance(s.value.value, str):
            continue    # docstring
        if isinstance(s, pyast.If):
            out.append(ind + 'if ' + expr(s.test))
            stmt_shape(s.body, out, depth + 1)
            if s.orelse:
                out.append(ind + 'else')
                stmt_shape(s.orelse, out, depth + 1)
        elif isinstance(s, pyast.For):
            out.append(ind + 'for %s in %s' % (expr(s.target), expr(s.iter)))
            stmt_shape(s.body, out, depth + 1)
            if s.orelse:
                out.append(ind + 'forelse')
                stmt_shape(s.orelse, out, depth + 1)
        elif isinstance(s, pyast.While):
            out.append(ind + 'while ' + expr(s.test))
            stmt_shape(s.body, out, depth + 1)
        elif isinstance(s, pyast.Assign):
            out.append(ind + ','.join(expr(t) for t in s.targets) + ' = ' + expr(s.value))
        elif isinstance(s, pyast.AugAssign):
            out.append(ind + '%s %s= %s' % (expr(s.target), type(s.op).__name__, expr(s.value)))
        elif isinstance(s, pyast.Return):
            out.append(ind + 'return ' + (expr(s.value) if s.value is not None else ''))
        elif isinstance(s, pyast.Raise):
            out.append(ind + 'raise ' + (expr(s.exc) if s.exc is not None else ''))
        elif isinstance(s, pyast.Assert):
            out.append(ind + 'assert ' + expr(s.test))
        elif isinstance(s, pyast.Expr):
            out.append(ind + expr(s.value))
        elif isinstance(s, pyast.Continue):
            out.append(ind + 'continue')
        elif isinstance(s, pyast.Break):
            out.append(ind + 'break')
        elif isinstance(s, pyast.Try):
            out.append(ind + 'try')
            stmt_shape(s.body, out, depth + 1)
            for h in s.handlers:
                out.append(ind + 'except ' + (expr(h.type) if h.type is not None else ''))
                stmt_shape(h.body, out, depth + 1)
        elif isinstance(s, pyast.Pass):
            out.append(ind + 'pass')
        else:
            out.append(ind + type(s).__name__)
    return out


def shape_of(tree, name):
    return stmt_shape(find_func(tree, name).body, [])


def consts_in(node):
    return [n.value for n in pyast.walk(node) if isinstance(n, pyast.Constant) and isinstance(n.value, str)]


def compare_literals(fn, attr, opcls):
    """string constants compared (with `opcls`) against `<something>.<attr>` inside fn, in source order"""
    found = []
    for n in pyast.walk(fn):
        if isinstance(n, pyast.Compare) and len(n.ops) == 1 and isinstance(n.ops[0], opcls):
            left, right = n.left, n.comparators[0]
            if isinstance(left, pyast.Attribute) and left.attr == attr or \
                    isinstance(left, pyast.Name) and left.id == attr:
                found.append((n.lineno, n.col_offset, [c for c in consts_in(right)]))
    found.sort()
    return [f[2] for f in found]


def method_arg_literals(fn, method):
    found = []
    for n in pyast.walk(fn):
        if isinstance(n, pyast.Call) and isinstance(n.func, pyast.Attribute) and n.func.attr == method:
            found.append((n.lineno, n.col_offset, [a.value for a in n.args if isinstance(a, pyast.Constant)]))
    found.sort()
    return [f[2] for f in found]


def one(lst, what):
    if len(lst) != 1:
        raise SystemExit('gen_defaults: expected exactly one %s, found %r' % (what, lst))
    return lst[0]


def main():
    install_stub_lexer()
    from giscanner import ast as giast

    mt = pyast.parse(src('giscanner/maintransformer.py'))
    tr = pyast.parse(src('giscanner/transformer.py'))

    # ---- _pass3_callable_callbacks
    f = find_func(mt, '_pass3_callable_callbacks')
    async_names = one(compare_literals(f, 'gi_name', pyast.In), "'gi_name in (...)' test")
    destroy_name = one(one(compare_literals(f, 'gi_name', pyast.Eq), "'gi_name == ...' test"), 'literal')
    suffix = one(one(method_arg_literals(f, 'endswith'), 'endswith call in _pass3_callable_callbacks'), 'literal')

    # ---- _pass3_callable_throws
    f = find_func(mt, '_pass3_callable_throws')
    throws_ctype = one(one(compare_literals(f, 'ctype', pyast.Eq), "'ctype == ...' test"), 'literal')

    # ---- _create_callback
    f = find_func(tr, '_create_callback')
    cb_fund = one(one(compare_literals(f, 'target_fundamental', pyast.Eq), 'target_fundamental test'), 'literal')
    cb_name = one(one(compare_literals(f, 'argname', pyast.Eq), 'argname test'), 'literal')

    # ---- nullable rules
    f = find_func(mt, '_apply_annotations_param_ret_common')
    nullable_ginames = [x for l in compare_literals(f, 'target_giname', pyast.Eq) for x in l]

    # ---- create_type_from_ctype_string
    f = find_func(tr, 'create_type_from_ctype_string')
    bool_aliases = one(compare_literals(f, 'canonical', pyast.In), "'canonical in (...)' test")
    bool_target = None
    for n in pyast.walk(f):
        if isinstance(n, pyast.Assign) and isinstance(n.value, pyast.Constant) and \
                isinstance(n.targets[0], pyast.Name) and n.targets[0].id == 'canonical':
            bool_target = n.value.value
    if bool_target is None:
        raise SystemExit("gen_defaults: no `canonical = '<literal>'` in create_type_from_ctype_string")
    strv_canonical = one(one(compare_literals(f, 'canonical', pyast.Eq), "'canonical == ...' test"), 'literal')
    strv_base = one(one(compare_literals(f, 'base', pyast.Eq), "'base == ...' test"), 'literal')

    # ---- _create_bare_container_type: the `base in (...)` tuples in source order
    f = find_func(tr, '_create_bare_container_type')
    cont = compare_literals(f, 'base', pyast.In)
    if len(cont) != 5:
        raise SystemExit('gen_defaults: _create_bare_container_type no longer has 5 membership tests: %r' % cont)
    list_bases, list_short, bytearray_bases, array_bases, map_bases = cont

    shapes = {
        'pass3CallbacksShape': shape_of(mt, '_pass3_callable_callbacks'),
        'pass3ThrowsShape': shape_of(mt, '_pass3_callable_throws'),
        'transferDefaultShape': (shape_of(mt, '_get_transfer_default') + ['--'] +
                                 shape_of(mt, '_get_transfer_default_param') + ['--'] +
                                 shape_of(mt, '_get_transfer_default_returntype_basic') + ['--'] +
                                 shape_of(mt, '_get_transfer_default_return')),
        'callableDefaultsShape': shape_of(mt, '_pass_callable_defaults'),
        'createCallbackShape': shape_of(tr, '_create_callback'),
        'canonicalizeShape': shape_of(tr, '_canonicalize_ctype'),
        'createTypeFromCtypeStringShape': shape_of(tr, 'create_type_from_ctype_string'),
        'createTypeFromBaseShape': shape_of(tr, '_create_type_from_base'),
        'createSourceTypeShape': shape_of(tr, '_create_source_type'),
        'createCompleteSourceTypeShape': shape_of(tr, '_create_complete_source_type'),
        'bareContainerShape': shape_of(tr, '_create_bare_container_type'),
    }
    # TypeContainer.__init__ (giscanner/ast.py)
    at = pyast.parse(src('giscanner/ast.py'))
    for node in pyast.walk(at):
        if isinstance(node, pyast.ClassDef) and node.name == 'TypeContainer':
            shapes['typeContainerShape'] = stmt_shape(find_func(node, '__init__').body, [])
    if 'typeContainerShape' not in shapes:
        raise SystemExit('gen_defaults: class TypeContainer not found')

    def strs(l):
        return lean_list([lean_str(x) for x in l])

    parts = ['-- GENERATED by translators/gen_defaults.py from giscanner/maintransformer.py, transformer.py, ast.py. '
             'Do not edit.', 'namespace GIVerif.Gen', '']

    def d(name, ty, val, doc):
        parts.append('/-- %s -/' % doc)
        parts.append('def %s : %s := %s' % (name, ty, val))
        parts.append('')

    d('asyncScopeCallbacks', 'List String', strs(async_names),
      '_pass3_callable_callbacks: `argnode.gi_name in (...)` (first loop: scope async)')
    d('destroyNotifyName', 'String', lean_str(destroy_name), '_pass3_callable_callbacks: `argnode.gi_name == ...`')
    d('closureSuffix', 'String', lean_str(suffix), "_pass3_callable_callbacks: `param.argname.endswith(...)`")
    d('throwsCtype', 'String', lean_str(throws_ctype), "_pass3_callable_throws: `last_param.type.ctype == ...`")
    d('callbackUserDataFundamental', 'String', lean_str(cb_fund), "_create_callback: `param.type.target_fundamental == ...`")
    d('callbackUserDataName', 'String', lean_str(cb_name), "_create_callback: `param.argname == ...`")
    d('nullableGinames', 'List String', strs(nullable_ginames),
      '_apply_annotations_param_ret_common: target_giname values that make a non-out node nullable')
    d('boolAliases', 'List String', strs(bool_aliases), "create_type_from_ctype_string: `canonical in (...)`")
    d('boolTarget', 'String', lean_str(bool_target), "create_type_from_ctype_string: `canonical = ...` for the bool aliases")
    d('strvReturnCanonical', 'String', lean_str(strv_canonical), "create_type_from_ctype_string: `is_return and canonical == ...`")
    d('strvBase', 'String', lean_str(strv_base), "create_type_from_ctype_string: `base == ...`")
    d('listBases', 'List String', strs(list_bases), '_create_bare_container_type: first membership test')
    d('listShortBases', 'List String', strs(list_short), "_create_bare_container_type: bases renamed 'GLib.' + base[1:]")
    d('byteArrayBases', 'List String', strs(bytearray_bases), '_create_bare_container_type: GByteArray spellings')
    d('arrayBases', 'List String', strs(array_bases), '_create_bare_container_type: GArray / GPtrArray spellings')
    d('mapBases', 'List String', strs(map_bases), '_create_bare_container_type: GHashTable spellings')
    d('basicGirTypes', 'List String', strs([t.target_fundamental for t in giast.BASIC_GIR_TYPES]), 'ast.BASIC_GIR_TYPES')
    d('typeAnyName', 'String', lean_str(giast.TYPE_ANY.target_fundamental), 'ast.TYPE_ANY.target_fundamental')
    d('typeNoneName', 'String', lean_str(giast.TYPE_NONE.target_fundamental), 'ast.TYPE_NONE.target_fundamental')
    d('typeStringName', 'String', lean_str(giast.TYPE_STRING.target_fundamental), 'ast.TYPE_STRING.target_fundamental')
    d('typeUint8Name', 'String', lean_str(giast.TYPE_UINT8.target_fundamental), 'ast.TYPE_UINT8.target_fundamental')
    for k in sorted(shapes):
        d(k, 'List String', strs(shapes[k]), 'control-flow skeleton (tests, assignments, returns) in source order')
    parts.append('end GIVerif.Gen')
    parts.append('')
    text = '\n'.join(parts)
    path, digest, changed = write_if_changed('Defaults.lean', text)
    print('gen_defaults: %s sha256=%s changed=%s shapes=%d' % (path, digest[:12], changed, len(shapes)))


if __name__ == '__main__':
    main()
