#!/usr/bin/env python3
"""Gen/EnumConst.lean: the literals of giscanner/transformer.py that the C13 model depends
on, re-read from /repo's current tree with Python's `ast` on every run:

  * `_enum_common_prefix`: the member-count threshold of `len(...) < N`, the separator of
    `a.split(SEP)` / `SEP.join(commonparts) + SEP`, the `min(a, b)` fall-through and the
    `prefix == ''` test (as a shape string);
  * `_create_enum`: a shape string of the member loop (private skip, `ident[prefixlen:]`
    versus `_strip_symbol`, `.lower()`, `is_bitfield` class choice);
  * `resolve_aliases` and the statements of `_create_const` that compute `unaliased` (shape strings);
  * `_create_const`: the if/elif chain on `unaliased` with, per branch, the `ast.TYPE_*`
    constants tested and base/exponent of `symbol.const_int % B ** E` (E an integer literal or
    `8 * struct.calcsize('<c>')`, evaluated on this platform); the TYPE_* constant
    chosen in each of the string/int/bool/double branches; the two boolean literals; the
    suffix of the header-file test and the hidden-prefix test;
  * scannerlexer.l: the identifier pattern (justifies "identifiers are ASCII").

The model takes moduli and type constants from these tables; `decide` theorems in
Props/C13.lean compare the shape strings with the shapes the model was written for."""
import ast
import os
import re
import sys

from common import write_if_changed, lean_list, lean_str, install_stub_lexer, REPO


def lean_chars(s):
    """a `List Char` literal (the kernel evaluates `String.toList` far too slowly for tables)"""
    out = []
    for ch in s:
        o = ord(ch)
        if ch == "'":
            out.append("'\\''")
        elif ch == '\\':
            out.append("'\\\\'")
        elif o < 0x20 or o > 0x7e:
            out.append("'\\u{%x}'" % o)
        else:
            out.append("'%s'" % ch)
    return '[' + ','.join(out) + ']'


class Shape(Exception):
    pass


def find_method(tree, cls, name):
    for node in tree.body:
        if isinstance(node, ast.ClassDef) and node.name == cls:
            for f in node.body:
                if isinstance(f, ast.FunctionDef) and f.name == name:
                    return f
    raise Shape('method %s.%s not found' % (cls, name))


def src(node):
    return ast.unparse(node)


def type_const(node):
    """ast.TYPE_X -> 'TYPE_X'"""
    if isinstance(node, ast.Attribute) and isinstance(node.value, ast.Name) and node.value.id == 'ast' \
            and node.attr.startswith('TYPE_'):
        return node.attr
    raise Shape('expected ast.TYPE_*, found %s' % src(node))


def int_const(node):
    if isinstance(node, ast.Constant) and isinstance(node.value, int) and not isinstance(node.value, bool):
        return node.value
    raise Shape('expected an integer literal, found %s' % src(node))


def read_wrap_chain(fn):
    """the `if unaliased == ... elif unaliased in (...) ... else` chain of _create_const"""
    first = None
    for node in ast.walk(fn):
        if isinstance(node, ast.If) and isinstance(node.test, ast.Compare) and \
                isinstance(node.test.left, ast.Name) and node.test.left.id == 'unaliased':
            first = node
            break
    if first is None:
        raise Shape('no if-chain on `unaliased` in _create_const')
    # ast.walk is breadth-first: the first hit is the head of the chain
    rows = []
    shape = []
    node = first
    while True:
        test = node.test
        if len(test.ops) != 1 or len(test.comparators) != 1:
            raise Shape('unexpected test %s' % src(test))
        op = test.ops[0]
        comp = test.comparators[0]
        if isinstance(op, ast.Eq):
            names = [type_const(comp)]
        elif isinstance(op, ast.In) and isinstance(comp, (ast.Tuple, ast.List)):
            names = [type_const(e) for e in comp.elts]
        else:
            raise Shape('unexpected test %s' % src(test))
        if len(node.body) != 1:
            raise Shape('unexpected branch body %s' % src(node))
        base, exp = read_wrap_assign(node.body[0])
        rows.append((names, base, exp))
        if len(node.orelse) == 1 and isinstance(node.orelse[0], ast.If):
            node = node.orelse[0]
            continue
        if len(node.orelse) != 1:
            raise Shape('unexpected else branch %s' % [src(x) for x in node.orelse])
        e = node.orelse[0]
        if src(e) != 'value = str(symbol.const_int)':
            raise Shape('unexpected default branch %s' % src(e))
        shape.append('else:str(const_int)')
        break
    return rows, shape


def read_wrap_assign(stmt):
    """value = str(symbol.const_int % B ** E)"""
    ok = isinstance(stmt, ast.Assign) and len(stmt.targets) == 1 and src(stmt.targets[0]) == 'value' and \
        isinstance(stmt.value, ast.Call) and src(stmt.value.func) == 'str' and len(stmt.value.args) == 1
    if ok:
        arg = stmt.value.args[0]
        ok = isinstance(arg, ast.BinOp) and isinstance(arg.op, ast.Mod) and src(arg.left) == 'symbol.const_int' \
            and isinstance(arg.right, ast.BinOp) and isinstance(arg.right.op, ast.Pow)
    if not ok:
        raise Shape('unexpected wrap statement %s' % src(stmt))
    return int_const(arg.right.left), exponent(arg.right.right)


def exponent(node):
    """an integer literal, or `8 * struct.calcsize('<one format character>')`: the width of a C type of
    the platform the scanner runs on, evaluated here with the same interpreter (the table then holds
    this platform's widths; Props/C13.lean states them)"""
    if isinstance(node, ast.BinOp) and isinstance(node.op, ast.Mult) and \
            isinstance(node.left, ast.Constant) and node.left.value == 8 and \
            isinstance(node.right, ast.Call) and src(node.right.func) == 'struct.calcsize' and \
            len(node.right.args) == 1 and not node.right.keywords and \
            isinstance(node.right.args[0], ast.Constant) and isinstance(node.right.args[0].value, str) and \
            len(node.right.args[0].value) == 1 and node.right.args[0].value in 'BHILQNP':
        import struct
        return 8 * struct.calcsize(node.right.args[0].value)
    return int_const(node)


def read_const_branches(fn):
    """top-level chain: const_string / const_int / const_boolean / const_double"""
    head = None
    for stmt in fn.body:
        if isinstance(stmt, ast.If) and src(stmt.test) == 'symbol.const_string is not None':
            head = stmt
    if head is None:
        raise Shape('no `symbol.const_string is not None` chain in _create_const')
    out = []
    bool_lits = None
    node = head
    while True:
        m = re.match(r'^symbol\.(const_\w+) is not None$', src(node.test))
        if not m:
            raise Shape('unexpected branch test %s' % src(node.test))
        field = m.group(1)
        tconst = None
        for sub in node.body:
            for a in ast.walk(sub):
                if isinstance(a, ast.Assign) and src(a.targets[0]) == 'typeval' and \
                        isinstance(a.value, ast.Attribute):
                    tconst = type_const(a.value)
                if field == 'const_boolean' and isinstance(a, ast.Assign) and src(a.targets[0]) == 'value' \
                        and isinstance(a.value, ast.IfExp):
                    if src(a.value.test) != 'symbol.const_boolean':
                        raise Shape('unexpected boolean rendering %s' % src(a))
                    bool_lits = (a.value.body.value, a.value.orelse.value)
        if field == 'const_string':
            if [src(s) for s in node.body] != ['typeval = ast.TYPE_STRING', 'value = symbol.const_string']:
                raise Shape('unexpected string branch %s' % [src(s) for s in node.body])
        if tconst is None:
            raise Shape('no TYPE_* constant in branch %s' % field)
        out.append((field, tconst))
        if len(node.orelse) == 1 and isinstance(node.orelse[0], ast.If):
            node = node.orelse[0]
            continue
        if [src(s) for s in node.orelse] != ['raise AssertionError()']:
            raise Shape('unexpected final branch %s' % [src(s) for s in node.orelse])
        break
    if bool_lits is None:
        raise Shape('boolean literals not found')
    return out, bool_lits


def read_unaliased_prelude(fn):
    """the statements of the const_int branch of _create_const before the chain on `unaliased`"""
    for node in ast.walk(fn):
        if isinstance(node, ast.If) and src(node.test) == 'symbol.const_int is not None':
            out = []
            for stmt in node.body:
                if isinstance(stmt, ast.If) and isinstance(stmt.test, ast.Compare) and \
                        isinstance(stmt.test.left, ast.Name) and stmt.test.left.id == 'unaliased':
                    return [src(s).replace('\n', ' ; ') for s in out]
                out.append(stmt)
    raise Shape('const_int branch of _create_const not found')


def read_resolve_aliases(tree):
    """statements of Transformer.resolve_aliases (docstring dropped; comments are not part of the ast)"""
    fn = find_method(tree, 'Transformer', 'resolve_aliases')
    body = [s for s in fn.body if not (isinstance(s, ast.Expr) and isinstance(s.value, ast.Constant))]
    return [src(s).replace('\n', ' ; ') for s in body]


def read_const_filters(fn):
    hidden = None
    suffix = None
    for stmt in fn.body:
        if isinstance(stmt, ast.If) and [src(s) for s in stmt.body] == ['return None']:
            for a in ast.walk(stmt.test):
                if isinstance(a, ast.Call) and isinstance(a.func, ast.Attribute) and len(a.args) == 1 and \
                        isinstance(a.args[0], ast.Constant) and isinstance(a.args[0].value, str):
                    if src(a.func) == 'symbol.ident.startswith':
                        hidden = a.args[0].value
                    if src(a.func) == 'symbol.source_filename.endswith':
                        suffix = a.args[0].value
    if hidden is None or suffix is None:
        raise Shape('filters of _create_const not found')
    return hidden, suffix


def read_enum_prefix(fn):
    threshold = None
    for node in ast.walk(fn):
        if isinstance(node, ast.If) and isinstance(node.test, ast.Compare) and \
                src(node.test.left) == 'len(list(symbol.base_type.child_list))' and \
                len(node.test.ops) == 1 and isinstance(node.test.ops[0], ast.Lt) and \
                [src(s) for s in node.body] == ['return None']:
            threshold = int_const(node.test.comparators[0])
    if threshold is None:
        raise Shape('member-count test of _enum_common_prefix not found')
    inner = None
    for node in fn.body:
        if isinstance(node, ast.FunctionDef) and node.name == 'common_prefix':
            inner = node
    if inner is None:
        raise Shape('common_prefix not found')
    seps = set()
    for node in ast.walk(inner):
        if isinstance(node, ast.Call) and isinstance(node.func, ast.Attribute) and node.func.attr in ('split', 'join'):
            if node.func.attr == 'split':
                seps.add(node.args[0].value)
            else:
                seps.add(node.func.value.value)
    if len(seps) != 1:
        raise Shape('separators of common_prefix: %r' % (seps, ))
    # statement-level shapes, whitespace/comment independent
    inner_shape = [src(s).replace('\n', ' ; ') for s in inner.body]
    outer_shape = [src(s).replace('\n', ' ; ') for s in fn.body if not isinstance(s, ast.FunctionDef)]
    return threshold, seps.pop(), inner_shape, outer_shape


def normalise_threshold(lines, threshold):
    """the threshold is data (Gen.enumMinMembers), not shape"""
    return [l.replace('< %d:' % threshold, '< N:') for l in lines]


def main():
    path = os.path.join(REPO, 'giscanner', 'transformer.py')
    with open(path, encoding='utf-8') as f:
        tree = ast.parse(f.read())
    try:
        cc = find_method(tree, 'Transformer', '_create_const')
        wraps, chain_shape = read_wrap_chain(cc)
        branches, bool_lits = read_const_branches(cc)
        hidden, suffix = read_const_filters(cc)
        prelude = read_unaliased_prelude(cc)
        ra_shape = read_resolve_aliases(tree)
        ep = find_method(tree, 'Transformer', '_enum_common_prefix')
        threshold, sep, inner_shape, outer_shape = read_enum_prefix(ep)
        ce = find_method(tree, 'Transformer', '_create_enum')
        enum_shape = [src(s).replace('\n', ' ; ') for s in ce.body]
        with open(os.path.join(REPO, 'giscanner', 'scannerlexer.l'), encoding='utf-8') as f:
            lex = f.read()
        idents = sorted(set(re.findall(r'^(\[[^\]\s]+\]\[[^\]\s]+\]\*)\s+\{[^\n]*check_identifier', lex, re.M)))
        if len(idents) != 1:
            raise Shape('identifier pattern of scannerlexer.l: %r' % (idents, ))
        if len(sep) != 1:
            raise Shape('separator %r' % (sep, ))
    except Shape as e:
        print('gen_enumconst: source no longer has the expected shape: %s' % e)
        sys.exit(1)

    # the type tables as character lists (same content as Gen/TypeNames.lean, which stays the
    # shared String table; a theorem in Props/C13.lean states that the two agree)
    install_stub_lexer()
    from giscanner import ast as giast
    rows = sorted((k, v.target_fundamental, v.ctype or '') for k, v in giast.type_names.items())
    tconsts = sorted((n, getattr(giast, n).target_fundamental) for n in dir(giast)
                     if n.startswith('TYPE_') and isinstance(getattr(giast, n), giast.Type))

    text = '''-- GENERATED by translators/gen_enumconst.py from giscanner/transformer.py and scannerlexer.l. Do not edit.
namespace GIVerif.Gen

/-- `_enum_common_prefix`: `len(child_list) < N` returns None -/
def enumMinMembers : Nat := %d

/-- the word separator of `common_prefix` (split / join / appended), as a code point -/
def enumWordSep : Nat := %d

/-- statements of the nested `common_prefix(a, b)`, unparsed -/
def commonPrefixShape : List String := %s

/-- statements of `_enum_common_prefix` after the nested function (threshold replaced by N) -/
def enumPrefixShape : List String := %s

/-- statements of `_create_enum`, unparsed -/
def createEnumShape : List String := %s

/-- `_create_const`: the chain on `unaliased`, in source order:
    (TYPE_* constants tested, base, exponent) of `str(symbol.const_int %% base ** exponent)` -/
def constWraps : List (List (List Char) × Nat × Nat) := %s

/-- the default branch of that chain -/
def constWrapShape : List String := %s

/-- `_create_const`, const_int branch: the statements that compute `typeval` and `unaliased`
    before the chain, unparsed -/
def constUnaliasedShape : List String := %s

/-- statements of `Transformer.resolve_aliases`, unparsed -/
def resolveAliasesShape : List String := %s

/-- which TYPE_* constant each branch of `_create_const` assigns to `typeval` (const_int: the
    default when the symbol has no base type) -/
def constBranches : List (List Char × List Char) := %s

/-- `"true" if symbol.const_boolean else "false"` -/
def constBoolLits : List Char × List Char := (%s, %s)

/-- `symbol.ident.startswith(...)` → no constant -/
def constHiddenPrefix : List Char := %s

/-- `symbol.source_filename.endswith(...)` is required -/
def constHeaderSuffix : List Char := %s

/-- scannerlexer.l: the pattern that produces identifiers -/
def lexerIdentPattern : String := %s

/-- `ast.type_names` as character lists: (key, target_fundamental, ctype), sorted by key -/
def typeNamesL : List (List Char × List Char × List Char) := %s

/-- every module-level `ast.TYPE_X` constant: (name, target_fundamental) -/
def typeConstsL : List (List Char × List Char) := %s

end GIVerif.Gen
''' % (threshold, ord(sep),
       lean_list([lean_str(s) for s in inner_shape]),
       lean_list([lean_str(s) for s in normalise_threshold(outer_shape, threshold)]),
       lean_list([lean_str(s) for s in enum_shape]),
       lean_list(['(%s, %d, %d)' % (lean_list([lean_chars(n) for n in names]), b, e) for names, b, e in wraps]),
       lean_list([lean_str(s) for s in chain_shape]),
       lean_list([lean_str(s) for s in prelude]),
       lean_list([lean_str(s) for s in ra_shape]),
       lean_list(['(%s, %s)' % (lean_chars(a), lean_chars(b)) for a, b in branches]),
       lean_chars(bool_lits[0]), lean_chars(bool_lits[1]),
       lean_chars(hidden), lean_chars(suffix), lean_str(idents[0]),
       lean_list(['(%s, %s, %s)' % (lean_chars(a), lean_chars(b), lean_chars(c)) for a, b, c in rows]),
       lean_list(['(%s, %s)' % (lean_chars(a), lean_chars(b)) for a, b in tconsts]))
    path, digest, changed = write_if_changed('EnumConst.lean', text)
    print('gen_enumconst: %s sha256=%s changed=%s wraps=%d threshold=%d' % (path, digest[:12], changed, len(wraps),
                                                                             threshold))


if __name__ == '__main__':
    main()
