#!/usr/bin/env python3
"""Gen/TypelibLayout.lean: the binary layout of every blob struct of
girepository/gitypelib-internal.h, measured (not assumed): the struct definitions are
parsed from /repo's current header, a C probe is generated and compiled against that
header with the GLib shim, and for every scalar / bit-field member the probe sets the
member to all-ones in a zeroed struct and reports which bits of which bytes changed.
Also the enumerators of GTypelibBlobType, SectionType and GITypeTag.

Shared by C06, C09, C14 (read-only for them)."""
import os
import re
import subprocess
import sys
import tempfile

from common import write_if_changed, lean_list, lean_str, REPO, VERIF

HEADER = os.path.join(REPO, 'girepository', 'gitypelib-internal.h')
SHIM_INC = os.path.join(VERIF, 'glibshim', 'inc')


def strip_comments(src):
    return re.sub(r'/\*.*?\*/', lambda m: re.sub(r'[^\n]', ' ', m.group(0)), src, flags=re.S)


def parse_structs(src):
    """-> list of (kind, name, [(ctype, field, bits|None, array|None)])"""
    out = []
    for m in re.finditer(r'typedef\s+(struct|union)\s*(\w*)\s*\{(.*?)\}\s*(\w+)\s*;', src, re.S):
        kind, tag, body, name = m.groups()
        if '{' in body:
            continue
        fields = []
        for decl in body.split(';'):
            decl = ' '.join(decl.split())
            if not decl:
                continue
            fm = re.match(r'^(.*?)\s*(\w+)\s*(?:\[\s*(\w*)\s*\])?\s*(?::\s*(\d+))?$', decl)
            if not fm:
                raise SystemExit('gen_typelib_layout: cannot parse member %r of %s' % (decl, name))
            ctype, fname, arr, bits = fm.groups()
            fields.append((ctype.strip(), fname, int(bits) if bits else None,
                           arr if (arr is not None and '[' in decl) else None))
        out.append((kind, name, fields))
    # union _SimpleTypeBlob { ... } is declared with a tag and a separate typedef
    for m in re.finditer(r'\bunion\s+(_\w+)\s*\{(.*?)\}\s*;', src, re.S):
        tag, body = m.groups()
        tm = re.search(r'typedef\s+union\s+%s\s+(\w+)\s*;' % tag, src)
        if not tm:
            continue
        fields = []
        for decl in body.split(';'):
            decl = ' '.join(decl.split())
            if not decl:
                continue
            fm = re.match(r'^(.*?)\s*(\w+)$', decl)
            fields.append((fm.group(1).strip(), fm.group(2), None, None))
        out.append(('union', tm.group(1), fields))
    return out


def parse_enums(src):
    out = []
    for m in re.finditer(r'typedef\s+enum\s*\w*\s*\{(.*?)\}\s*(\w+)\s*;', src, re.S):
        body, name = m.groups()
        names = []
        for item in body.split(','):
            item = item.strip()
            if item:
                names.append(item.split('=')[0].strip())
        out.append((name, names))
    return out


SCALARS = {'guint8', 'guint16', 'guint32', 'gint8', 'gint16', 'gint32', 'guint', 'gint', 'gchar', 'guint64', 'gint64'}


def main():
    with open(HEADER) as f:
        src = strip_comments(f.read())
    structs = parse_structs(src)
    struct_names = {n for _, n, _ in structs}
    with open(os.path.join(REPO, 'girepository', 'gitypes.h')) as f:
        types_src = strip_comments(f.read())
    enums = [e for e in parse_enums(src) if e[0] in ('GTypelibBlobType', 'SectionType')]
    enums += [e for e in parse_enums(types_src) if e[0] in ('GITypeTag', 'GIInfoType', 'GIArrayType')]

    c = ['#include <stdio.h>', '#include <string.h>', '#include <stddef.h>',
         '#include <girepository.h>', '#include "gitypelib-internal.h"', '',
         'static void bits(const char *s, const char *f, const unsigned char *p, size_t n) {',
         '  long first = -1; long count = 0; size_t i; int b;',
         '  for (i = 0; i < n; i++) for (b = 0; b < 8; b++) if (p[i] & (1u << b)) { if (first < 0) first = (long)(i * 8 + b); count++; }',
         '  printf("F %s %s %ld %ld\\n", s, f, first, count);', '}', '', 'int main(void) {']
    for kind, name, fields in structs:
        c.append('  printf("S %s %s %%zu\\n", sizeof(%s));' % (kind, name, name))
        for ctype, fname, bits, arr in fields:
            if arr is not None:
                if arr == '':
                    c.append('  printf("A %s %s %%zu %s flex\\n", offsetof(%s, %s));' % (name, fname, ctype, name, fname))
                else:
                    c.append('  printf("A %s %s %%zu %s %%zu\\n", offsetof(%s, %s), sizeof(((%s*)0)->%s));'
                             % (name, fname, ctype, name, fname, name, fname))
            elif ctype in struct_names:
                c.append('  printf("N %s %s %%zu %s %%zu\\n", offsetof(%s, %s), sizeof(%s));'
                         % (name, fname, ctype, name, fname, ctype))
            else:
                c.append('  { %s x; memset(&x, 0, sizeof x); x.%s = (%s)-1; bits("%s", "%s", (const unsigned char*)&x, sizeof x); }'
                         % (name, fname, 'unsigned' if bits else ctype, name, fname))
    for ename, names in enums:
        for n in names:
            c.append('  printf("E %s %s %%d\\n", (int)%s);' % (ename, n, n))
    c += ['  return 0;', '}']
    tmp = tempfile.mkdtemp(prefix='giverif.layout.', dir=os.environ.get('TMPDIR', '/var/tmp'))
    try:
        cfile = os.path.join(tmp, 'probe.c')
        with open(cfile, 'w') as f:
            f.write('\n'.join(c))
        exe = os.path.join(tmp, 'probe')
        p = subprocess.run(['gcc', '-w', '-DGI_COMPILATION', '-I' + SHIM_INC, '-I' + REPO,
                            '-I' + os.path.join(REPO, 'girepository'), cfile, '-o', exe],
                           stdout=subprocess.PIPE, stderr=subprocess.STDOUT)
        if p.returncode != 0:
            sys.stdout.write(p.stdout.decode('utf-8', 'replace')[-3000:])
            raise SystemExit('gen_typelib_layout: probe does not compile')
        out = subprocess.run([exe], stdout=subprocess.PIPE, check=True).stdout.decode()
    finally:
        import shutil
        shutil.rmtree(tmp, ignore_errors=True)

    sizes, fields, nested, arrays, evals = [], [], [], [], []
    for line in out.splitlines():
        t = line.split()
        if t[0] == 'S':
            sizes.append((t[2], t[1], int(t[3])))
        elif t[0] == 'F':
            fields.append((t[1], t[2], int(t[3]), int(t[4])))
        elif t[0] == 'N':
            nested.append((t[1], t[2], int(t[3]), t[4], int(t[5])))
        elif t[0] == 'A':
            arrays.append((t[1], t[2], int(t[3]), t[4], -1 if t[5] == 'flex' else int(t[5])))
        elif t[0] == 'E':
            evals.append((t[1], t[2], int(t[3])))
    text = '''-- GENERATED by translators/gen_typelib_layout.py from girepository/gitypelib-internal.h
-- (struct members parsed from the header, positions measured by a compiled C probe). Do not edit.
namespace GIVerif.Gen

/-- (struct name, "struct"|"union", sizeof) -/
def blobSizes : List (String × String × Nat) := %s

/-- scalar and bit-field members: (struct, member, first bit (byte*8+bit, little-endian), width in bits) -/
def blobFields : List (String × String × Nat × Nat) := %s

/-- members that are themselves blob structs: (struct, member, byte offset, member type, sizeof) -/
def blobNested : List (String × String × Nat × String × Nat) := %s

/-- array members: (struct, member, byte offset, element type, total bytes or 0 for a flexible array) -/
def blobArrays : List (String × String × Nat × String × Nat) := %s

/-- enumerators: (enum, name, value) for GTypelibBlobType, SectionType, GITypeTag, GIInfoType, GIArrayType -/
def typelibEnums : List (String × String × Nat) := %s

end GIVerif.Gen
''' % (lean_list(['(%s, %s, %d)' % (lean_str(a), lean_str(b), c_) for a, b, c_ in sizes]),
       lean_list(['(%s, %s, %d, %d)' % (lean_str(a), lean_str(b), c_, d) for a, b, c_, d in fields]),
       lean_list(['(%s, %s, %d, %s, %d)' % (lean_str(a), lean_str(b), c_, lean_str(d), e) for a, b, c_, d, e in nested]),
       lean_list(['(%s, %s, %d, %s, %d)' % (lean_str(a), lean_str(b), c_, lean_str(d), max(e, 0)) for a, b, c_, d, e in arrays]),
       lean_list(['(%s, %s, %d)' % (lean_str(a), lean_str(b), c_) for a, b, c_ in evals]))
    path, digest, changed = write_if_changed('TypelibLayout.lean', text)
    print('gen_typelib_layout: %s sha256=%s changed=%s structs=%d fields=%d nested=%d arrays=%d enumerators=%d'
          % (path, digest[:12], changed, len(sizes), len(fields), len(nested), len(arrays), len(evals)))


if __name__ == '__main__':
    main()
