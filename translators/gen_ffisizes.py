#!/usr/bin/env python3
"""Gen/FfiSizes.lean for C08: everything the layout model takes from the platform and
from literal shapes of girepository/giroffsets.c, measured / re-read on every run.

 * a generated C probe, compiled with the GLib shim against /repo's CURRENT girepository
   sources (all of them, via harness/cbuild.py) calls the real `gi_type_tag_get_ffi_type`
   for every GITypeTag and prints which ffi_type it returns (void / pointer / a value
   type) with its size and alignment; the sizes of ffi_type_pointer and ffi_type_uint8..64
   (used by get_enum_size_alignment); sizeof + signedness of the nine probe enums whose
   definitions are COPIED TEXTUALLY out of giroffsets.c; the limits G_MAXSHORT, ...
 * the text of the GI_ALIGN macro, the statements of the struct / union member loops,
   the final padding statements, and the chain of conditions of
   compute_enum_storage_type, each normalised to single spaces.  Props/C08.lean pins
   these strings with `decide` theorems: a changed formula breaks a proof obligation.
"""
import os
import re
import shutil
import subprocess
import sys
import tempfile

from common import write_if_changed, lean_list, lean_str, REPO, VERIF

sys.path.insert(0, os.path.join(VERIF, 'harness'))

SRC = os.path.join(REPO, 'girepository', 'giroffsets.c')


def strip_comments(src):
    return re.sub(r'/\*.*?\*/', ' ', src, flags=re.S)


def norm(s):
    """single spaces; the texts of string literals (log messages) are not part of the shape"""
    return ' '.join(re.sub(r'"(?:[^"\\]|\\.)*"', '"..."', s).split())


def function_body(src, name):
    """text between the braces of the definition of `name` (brace matching)"""
    m = None
    for cand in re.finditer(r'^%s\s*\(' % re.escape(name), src, re.M):
        nxt = re.search(r'[{;]', src[cand.end():])          # a definition, not a forward declaration
        if nxt and nxt.group(0) == '{':
            m = cand
            break
    if not m:
        raise SystemExit('gen_ffisizes: function %s not found' % name)
    i = src.index('{', m.end())
    depth = 0
    for j in range(i, len(src)):
        if src[j] == '{':
            depth += 1
        elif src[j] == '}':
            depth -= 1
            if depth == 0:
                return src[i + 1:j]
    raise SystemExit('gen_ffisizes: unbalanced braces in %s' % name)


def block_after(body, start_regex):
    """statements of the brace block that follows the first match of start_regex"""
    m = re.search(start_regex, body, re.S)
    if not m:
        raise SystemExit('gen_ffisizes: pattern %r not found' % start_regex)
    i = body.index('{', m.end() - 1) if body[m.end() - 1] == '{' else body.index('{', m.end())
    depth = 0
    for j in range(i, len(body)):
        if body[j] == '{':
            depth += 1
        elif body[j] == '}':
            depth -= 1
            if depth == 0:
                inner = body[i + 1:j]
                return [norm(s) for s in inner.split(';') if norm(s)]
    raise SystemExit('gen_ffisizes: unbalanced block')


def main():
    with open(SRC) as f:
        raw = f.read()
    src = strip_comments(raw)

    # ---- shapes -------------------------------------------------------------
    m = re.search(r'^#define\s+GI_ALIGN\s*\(([^)]*)\)\s*(.*)$', src, re.M)
    if not m:
        raise SystemExit('gen_ffisizes: GI_ALIGN macro not found')
    align_shape = norm('(%s) %s' % (norm(m.group(1)), m.group(2)))

    sbody = function_body(src, 'compute_struct_field_offsets')
    ubody = function_body(src, 'compute_union_field_offsets')
    call = r'if\s*\(get_field_size_alignment\s*\(build,\s*field,\s*node,\s*&member_size,\s*&member_alignment\)\)\s*\{'
    struct_ok = block_after(sbody, call)
    union_ok = block_after(ubody, call)
    struct_cb = block_after(sbody, r'member->type\s*==\s*G_IR_NODE_CALLBACK\)\s*\{')

    def tail(body):
        # the statements between the end of the loop and the end of the function
        t = body[body.rindex('for (l = members'):]
        # skip the loop's own block
        i = t.index('{')
        depth = 0
        for j in range(i, len(t)):
            if t[j] == '{':
                depth += 1
            elif t[j] == '}':
                depth -= 1
                if depth == 0:
                    return norm(t[j + 1:])
        raise SystemExit('gen_ffisizes: loop block not closed')
    def loop(body):
        t = body[body.rindex('for (l = members'):]
        i = t.index('{')
        depth = 0
        for j in range(i, len(t)):
            if t[j] == '{':
                depth += 1
            elif t[j] == '}':
                depth -= 1
                if depth == 0:
                    return norm(t[:j + 1])
        raise SystemExit('gen_ffisizes: loop block not closed')
    struct_loop = loop(sbody)
    union_loop = loop(ubody)
    struct_tail = tail(sbody)
    union_tail = tail(ubody)
    struct_init = norm(sbody[:sbody.index('for (l = members')])
    union_init = norm(ubody[:ubody.index('for (l = members')])

    ebody = function_body(src, 'compute_enum_storage_type')
    etxt = norm(ebody[ebody.index('if (min_value < 0)'):])
    enum_fold = norm(ebody[ebody.index('for (l = enum_node->values'):ebody.index('if (min_value < 0)')])

    fbody = norm(function_body(src, 'get_field_size_alignment'))
    tbody = norm(function_body(src, 'get_type_size_alignment'))
    ibody = norm(function_body(src, 'get_interface_size_alignment'))
    esabody = norm(function_body(src, 'get_enum_size_alignment'))

    # ---- _g_ir_node_compute_offsets: which loop each kind of entry goes through (a class / interface /
    # boxed entry uses the struct loop), and how girnode.c puts field->offset into the FieldBlob
    cbody = function_body(src, '_g_ir_node_compute_offsets')
    dispatch = []
    labels = []
    for m in re.finditer(r'case\s+G_IR_NODE_(\w+)\s*:|default\s*:|\b(compute_\w+)\s*\(', cbody):
        if m.group(1):
            labels.append(m.group(1))
        elif m.group(2):
            dispatch.append('%s:%s' % (','.join(labels), m.group(2)))
            labels = []
        else:
            labels = []
    if not dispatch:
        raise SystemExit('gen_ffisizes: no compute_* call found in _g_ir_node_compute_offsets')
    with open(os.path.join(REPO, 'girepository', 'girnode.c')) as f:
        nsrc = strip_comments(f.read())
    m = re.search(r'if\s*\(field->offset[^;]*;\s*else[^;]*;', nsrc)
    if not m:
        raise SystemExit('gen_ffisizes: the FieldBlob struct_offset assignment was not found in girnode.c')
    offset_store = norm(m.group(0))
    with open(os.path.join(REPO, 'girepository', 'gitypelib-internal.h')) as f:
        hsrc = strip_comments(f.read())
    m = re.search(r'typedef\s+struct\s*\{([^}]*)\}\s*FieldBlob\s*;', hsrc)
    if not m:
        raise SystemExit('gen_ffisizes: FieldBlob not found in gitypelib-internal.h')
    fm = re.search(r'(\w+)\s+struct_offset\s*(:\s*\d+)?\s*;', m.group(1))
    if not fm:
        raise SystemExit('gen_ffisizes: FieldBlob.struct_offset not found')
    offset_decl = norm(fm.group(0))

    # ---- girparser.c: the two places that decide what giroffsets.c sees for a field
    #  * start_function: a <callback> inside a <field> is embedded for record / class fields and turns the
    #    field into a gpointer for union / boxed / interface fields
    #  * start_type: when a C array typed field is NOT a pointer (fixed-size; or no length and no pointer c:type)
    with open(os.path.join(REPO, 'girepository', 'girparser.c')) as f:
        psrc = strip_comments(f.read())
    fb = ' '.join(function_body(psrc, 'start_function').split())      # literals kept: they are the shape here
    try:
        i = fb.index('case STATE_CLASS_FIELD:')
        inline_cb = fb[i:fb.index('default:', i)].strip()
    except ValueError:
        raise SystemExit('gen_ffisizes: the field-state cases of start_function were not found in girparser.c')
    tb = ' '.join(function_body(psrc, 'start_type').split())
    try:
        # from the first `if (...) typenode->is_pointer = FALSE;` (whatever its condition has become) to the end
        # of the C-array block
        m = re.search(r'if \([^;{}]*\) typenode->is_pointer = FALSE;', tb)
        if not m:
            raise ValueError('no assignment')
        i = m.start()
        array_ptr = tb[i:tb.index('} else {', i)].strip()
    except ValueError:
        raise SystemExit('gen_ffisizes: the is_pointer decision for array fields was not found in start_type')

    # ---- the nine probe enums, copied textually --------------------------------
    enums = re.findall(r'typedef\s+enum\s*\{[^}]*\}\s*Enum(\d)\s*;', src)
    enum_text = re.findall(r'(typedef\s+enum\s*\{[^}]*\}\s*Enum\d\s*;)', src)
    if sorted(enums) != [str(i) for i in range(1, 10)]:
        raise SystemExit('gen_ffisizes: expected probe enums Enum1..Enum9, found %r' % enums)

    # ---- the C probe -----------------------------------------------------------
    c = ['#include <stdio.h>', '#include <ffi.h>', '#include <girepository.h>', '#include "girffi.h"', '']
    c += enum_text
    c += ['', 'static void ty(const char *what, int tag, const char *name, ffi_type *t) {',
          '  const char *kind = t == &ffi_type_void ? "void" : t == &ffi_type_pointer ? "pointer" : "value";',
          '  printf("%s %d %s %s %lu %u\\n", what, tag, name, kind, (unsigned long) t->size, (unsigned) t->alignment);',
          '}', '', 'int main(void) {', '  int tag;',
          '  for (tag = 0; tag < GI_TYPE_TAG_N_TYPES; tag++)',
          '    ty("T", tag, g_type_tag_to_string((GITypeTag) tag), gi_type_tag_get_ffi_type((GITypeTag) tag, FALSE));',
          '  ty("P", 0, "pointer", gi_type_tag_get_ffi_type(GI_TYPE_TAG_VOID, TRUE));',
          '  ty("Q", 0, "ffi_type_pointer", &ffi_type_pointer);',
          '  ty("U", 1, "ffi_type_uint8", &ffi_type_uint8);', '  ty("U", 2, "ffi_type_uint16", &ffi_type_uint16);',
          '  ty("U", 4, "ffi_type_uint32", &ffi_type_uint32);', '  ty("U", 8, "ffi_type_uint64", &ffi_type_uint64);']
    for i in range(1, 10):
        c.append('  printf("E %d %%lu %%d\\n", (unsigned long) sizeof(Enum%d), (int) ((gint64)(Enum%d)(-1) < 0));'
                 % (i, i, i))
    c += ['  printf("L G_MAXSHORT %ld\\n", (long) G_MAXSHORT);', '  printf("L G_MINSHORT %ld\\n", (long) G_MINSHORT);',
          '  printf("L G_MAXUSHORT %ld\\n", (long) G_MAXUSHORT);', '  printf("L G_MAXINT %ld\\n", (long) G_MAXINT);',
          '  printf("L sizeof_int %ld\\n", (long) sizeof(int));',
          '  printf("L sizeof_gint64 %ld\\n", (long) sizeof(gint64));',
          '  printf("G ARRAY %d\\n", (int) GI_TYPE_TAG_ARRAY);', '  printf("G INTERFACE %d\\n", (int) GI_TYPE_TAG_INTERFACE);',
          '  printf("G VOID %d\\n", (int) GI_TYPE_TAG_VOID);',
          '  printf("G INT8 %d\\n", (int) GI_TYPE_TAG_INT8);', '  printf("G UINT8 %d\\n", (int) GI_TYPE_TAG_UINT8);',
          '  printf("G INT16 %d\\n", (int) GI_TYPE_TAG_INT16);', '  printf("G UINT16 %d\\n", (int) GI_TYPE_TAG_UINT16);',
          '  printf("G INT32 %d\\n", (int) GI_TYPE_TAG_INT32);', '  printf("G UINT32 %d\\n", (int) GI_TYPE_TAG_UINT32);',
          '  printf("G INT64 %d\\n", (int) GI_TYPE_TAG_INT64);', '  printf("G UINT64 %d\\n", (int) GI_TYPE_TAG_UINT64);',
          '  return 0;', '}']

    import cbuild
    keep = os.environ.get('GIVERIF_C08_PROBE_DIR')
    tmp = tempfile.mkdtemp(prefix='giverif.ffisizes.', dir=os.environ.get('TMPDIR', '/var/tmp'))
    try:
        cfile = os.path.join(tmp, 'probe.c')
        with open(cfile, 'w') as f:
            f.write('\n'.join(c) + '\n')
        b = cbuild.CBuild(os.path.join(tmp, 'build')).compile_all()
        exe = b.link('ffiprobe', cfile)
        p = subprocess.run([exe], stdout=subprocess.PIPE, stderr=subprocess.PIPE, timeout=60)
        if p.returncode != 0:
            raise SystemExit('gen_ffisizes: probe exited %d: %s' % (p.returncode, p.stderr.decode()[-400:]))
        out = p.stdout.decode()
    finally:
        shutil.rmtree(tmp, ignore_errors=True)

    tags, uints, probes, limits, consts = [], [], [], {}, {}
    ptr = None
    ptr_tag = None
    kinds = {'value': 0, 'pointer': 1, 'void': 2}
    for line in out.splitlines():
        w = line.split()
        if w[0] == 'T':
            tags.append((int(w[1]), w[2], kinds[w[3]], int(w[4]), int(w[5])))
        elif w[0] == 'P':
            ptr_tag = (kinds[w[3]], int(w[4]), int(w[5]))
        elif w[0] == 'Q':
            ptr = (int(w[4]), int(w[5]))
        elif w[0] == 'U':
            uints.append((int(w[1]), int(w[4]), int(w[5])))
        elif w[0] == 'E':
            probes.append((int(w[1]), int(w[2]), w[3] == '1'))
        elif w[0] == 'L':
            limits[w[1]] = int(w[2])
        elif w[0] == 'G':
            consts[w[1]] = int(w[2])
    if ptr_tag != (1, ptr[0], ptr[1]):
        raise SystemExit('gen_ffisizes: gi_type_tag_get_ffi_type(VOID, TRUE) is not &ffi_type_pointer: %r' % (ptr_tag,))
    probes.sort()

    def lst(items):
        return lean_list(items)

    text = '''-- GENERATED by translators/gen_ffisizes.py from girepository/giroffsets.c, girffi.c and a C probe
-- compiled against /repo with the GLib shim. Do not edit.
namespace GIVerif.Gen

/-- (tag, g_type_tag_to_string, kind, size, alignment) of the ffi_type that the real
    `gi_type_tag_get_ffi_type (tag, FALSE)` returns; kind 0 = a value type,
    1 = `&ffi_type_pointer`, 2 = `&ffi_type_void` -/
def ffiTagTable : List (Nat × String × Nat × Nat × Nat) := %s

/-- `ffi_type_pointer.size`, `.alignment` -/
def ffiPointerSize : Nat := %d
def ffiPointerAlign : Nat := %d

/-- (width, size, alignment) of ffi_type_uint8/16/32/64, used by get_enum_size_alignment -/
def ffiUIntTable : List (Nat × Nat × Nat) := %s

/-- (N, sizeof (EnumN), (gint64)(EnumN)(-1) < 0) for the nine probe enums of giroffsets.c,
    compiled from their source text -/
def probeEnums : List (Nat × Nat × Bool) := %s

def gMaxShort : Int := %d
def gMinShort : Int := %d
def gMaxUShort : Int := %d
def gMaxInt : Int := %d
def sizeofInt : Nat := %d
/-- `sizeof (gint64)`: the width compute_enum_storage_type gives an enumeration with a negative member
    and a member above G_MAXINT -/
def sizeofGint64 : Nat := %d

def tagVoid : Nat := %d
def tagArray : Nat := %d
def tagInterface : Nat := %d
def tagInt8 : Nat := %d
def tagUInt8 : Nat := %d
def tagInt16 : Nat := %d
def tagUInt16 : Nat := %d
def tagInt32 : Nat := %d
def tagUInt32 : Nat := %d
def tagInt64 : Nat := %d
def tagUInt64 : Nat := %d

/-- `#define GI_ALIGN(...)`: parameter list and replacement text -/
def giAlignShape : String := %s

/-- compute_struct_field_offsets: declarations before the loop, the statements executed for a
    member whose size is known, those for a bare callback member, and everything after the loop -/
def structInitShape : String := %s
def structMemberShape : List String := %s
def structCallbackShape : List String := %s
def structTailShape : String := %s
/-- the whole `for` statement (control flow around the pieces above, error marking included) -/
def structLoopShape : String := %s

/-- compute_union_field_offsets, same pieces -/
def unionInitShape : String := %s
def unionMemberShape : List String := %s
def unionTailShape : String := %s
def unionLoopShape : String := %s

/-- compute_enum_storage_type: the min/max fold and the decision chain -/
def enumFoldShape : String := %s
def enumDecisionShape : String := %s

/-- get_enum_size_alignment, get_field_size_alignment, get_type_size_alignment, get_interface_size_alignment bodies -/
def enumSizeShape : String := %s
def fieldSizeShape : String := %s
def typeSizeShape : String := %s
def ifaceSizeShape : String := %s

/-- _g_ir_node_compute_offsets: "<node kinds>:<function called for them>", in source order -/
def computeDispatchShape : List String := %s
/-- girnode.c, G_IR_NODE_FIELD: how field->offset reaches FieldBlob.struct_offset, and the member's declaration -/
def fieldOffsetStoreShape : String := %s
def fieldOffsetDeclShape : String := %s

/-- girparser.c start_function: what a `<callback>` inside a `<field>` becomes, per container -/
def inlineCallbackShape : String := %s
/-- girparser.c start_type: when a C array typed field is not a pointer (is_pointer starts TRUE) -/
def arrayFieldPointerShape : String := %s

end GIVerif.Gen
''' % (lst(['(%d, %s, %d, %d, %d)' % (t, lean_str(n), k, s, a) for t, n, k, s, a in tags]),
       ptr[0], ptr[1],
       lst(['(%d, %d, %d)' % u for u in uints]),
       lst(['(%d, %d, %s)' % (n, s, 'true' if sg else 'false') for n, s, sg in probes]),
       limits['G_MAXSHORT'], limits['G_MINSHORT'], limits['G_MAXUSHORT'], limits['G_MAXINT'], limits['sizeof_int'],
       limits['sizeof_gint64'],
       consts['VOID'], consts['ARRAY'], consts['INTERFACE'], consts['INT8'], consts['UINT8'], consts['INT16'],
       consts['UINT16'], consts['INT32'], consts['UINT32'], consts['INT64'], consts['UINT64'],
       lean_str(align_shape),
       lean_str(struct_init), lst([lean_str(s) for s in struct_ok]), lst([lean_str(s) for s in struct_cb]),
       lean_str(struct_tail), lean_str(struct_loop),
       lean_str(union_init), lst([lean_str(s) for s in union_ok]), lean_str(union_tail), lean_str(union_loop),
       lean_str(enum_fold), lean_str(etxt),
       lean_str(esabody), lean_str(fbody), lean_str(tbody), lean_str(ibody),
       lst([lean_str(x) for x in dispatch]), lean_str(offset_store), lean_str(offset_decl),
       lean_str(inline_cb), lean_str(array_ptr))
    text = text.replace(':= -', ':= -')  # negative literals are fine for Int
    path, digest, changed = write_if_changed('FfiSizes.lean', text)
    print('gen_ffisizes: %s sha256=%s changed=%s tags=%d probes=%d' % (path, digest[:12], changed, len(tags), len(probes)))


if __name__ == '__main__':
    main()
