#!/usr/bin/env python3
"""Gen/Repo.lean: the literals of girepository/girepository.c and girepository.h that the C17
model (lean/GIVerif/Model/Repo.lean) was written for, re-read from /repo on every run by
regular expressions over the (regular) C text.  Nothing is compiled or imported.

* errorEnumerators      the enumerators of GIRepositoryError in declaration order (value = index)
* err...                the numeric code of each enumerator the model reports
* typelibSuffix         the literal of `g_str_has_suffix (entry, "...")` in enumerate_namespace_versions
* exactFileFormat       the printf format of the file name looked for by find_namespace_version
* nsDashFormat          the printf format of the prefix filter of enumerate_namespace_versions
* versionSplit          the characters of the two strrchr calls that cut the version out of an entry
* depSplitChars         the characters of the strrchr calls that split a 'Name-Version' dependency
* depSeparator          the g_strsplit separator of the dependency string
* builtinSource         the source recorded by g_irepository_load_typelib
* searchPathSubdir      the directory appended to GOBJECT_INTROSPECTION_LIBDIR
* envVar                the environment variable read by init_globals
* selfName/selfVersion  GIREPOSITORY_TYPELIB_NAME / _VERSION (the special-cased namespace)
* repoShape             the order of the checks of require_internal / get_registered_status / load_typelib / the lazy->eager
                        transition of register_internal that the model mirrors, as tokens; a `decide` theorem compares it with the expected list.
A changed literal makes `C17_source_shape` fail to re-check."""
import os
import re
from common import write_if_changed, lean_list, lean_str, REPO


def body_of(src, name):
    """text of the C function `name` (definition at column 0, K&R-style GNU layout)"""
    m = re.search(r'^%s \(' % re.escape(name), src, re.M)
    if not m:
        raise SystemExit('gen_repo: function %s not found' % name)
    start = src.index('\n{', m.start())
    end = src.index('\n}', start)
    return src[start:end]


def one(pattern, text, what, flags=0):
    ms = re.findall(pattern, text, flags)
    if len(ms) != 1:
        raise SystemExit('gen_repo: expected exactly one %s, found %r' % (what, ms))
    return ms[0]


def main():
    with open(os.path.join(REPO, 'girepository', 'girepository.c'), encoding='utf-8') as f:
        src = f.read()
    with open(os.path.join(REPO, 'girepository', 'girepository.h'), encoding='utf-8') as f:
        hdr = f.read()

    enum_body = one(r'typedef enum\s*\{([^}]*)\}\s*GIRepositoryError;', hdr, 'GIRepositoryError enum')
    enumerators = [e.strip() for e in re.sub(r'/\*.*?\*/', '', enum_body, flags=re.S).split(',') if e.strip()]
    if any('=' in e for e in enumerators):
        raise SystemExit('gen_repo: explicit enumerator values are not handled: %r' % enumerators)

    def code(name):
        if name not in enumerators:
            raise SystemExit('gen_repo: enumerator %s missing' % name)
        return enumerators.index(name)

    enum_fn = body_of(src, 'enumerate_namespace_versions')
    suffix = one(r'g_str_has_suffix \(entry, "([^"]*)"\)', enum_fn, 'suffix filter')
    ns_dash = one(r'namespace_dash = g_strdup_printf \("([^"]*)", namespace\)', enum_fn, 'prefix format')
    name_end = one(r"name_end = strrchr \(entry, '(.)'\)", enum_fn, 'name_end strrchr')
    last_dash = one(r"last_dash = strrchr \(entry, '(.)'\)", enum_fn, 'last_dash strrchr')
    cut = one(r'version = g_strndup \(([^;]*)\);', enum_fn, 'version cut')
    find_fn = body_of(src, 'find_namespace_version')
    exact = one(r'fname = g_strdup_printf \("([^"]*)", namespace, version\)', find_fn, 'exact file format')
    dep_fn = body_of(src, 'load_dependencies_recurse')
    dep_split = re.findall(r"last_dash = strrchr \(dependency, '(.)'\)", dep_fn) + \
        re.findall(r"last_dash = strrchr \(dependency, '(.)'\)", body_of(src, 'get_typelib_dependencies_transitive'))
    dep_sep = one(r'g_strsplit \(dependencies_glob, "([^"]*)", 0\)', body_of(src, 'get_typelib_dependencies'), 'dep separator')
    builtin = one(r'register_internal \(repository, "([^"]*)",', body_of(src, 'g_irepository_load_typelib'), 'builtin source')
    init_fn = body_of(src, 'init_globals')
    subdir = one(r'g_build_filename \(libdir, "([^"]*)", NULL\)', init_fn, 'libdir subdir')
    envvar = one(r'g_getenv \("([^"]*)"\)', init_fn, 'env var')
    self_name = one(r'#define GIREPOSITORY_TYPELIB_NAME "([^"]*)"', src, 'self name')
    self_version = one(r'#define GIREPOSITORY_TYPELIB_VERSION "([^"]*)"', src, 'self version')

    # shape tokens: order of the decisions the model mirrors
    shape = []
    req = body_of(src, 'require_internal')
    order = [('status', r'get_registered_status \(repository, namespace, version, allow_lazy,'),
             ('return-registered', r'if \(typelib\)\s*return typelib;'),
             ('conflict', r'if \(version_conflict != NULL\)'),
             ('promote-lazy', r'if \(is_lazy\)\s*\{(?:\s*/\*.*?\*/)?\s*typelib = g_hash_table_lookup \(repository->priv->lazy_typelibs, '
                              r'namespace\);\s*if \(!register_internal \(repository,\s*g_irepository_get_typelib_path '
                              r'\(repository, namespace\),\s*FALSE, typelib, error\)\)\s*return NULL;\s*return typelib;\s*\}'),
             ('explicit', r'find_namespace_version \(namespace, version,\s*search_path, &path\)'),
             ('tmp-version-requested', r'tmp_version = g_strdup \(version\);'),
             ('latest', r'find_namespace_latest \(namespace, search_path,\s*&tmp_version, &path\)'),
             ('notfound', r'if \(mfile == NULL\)'),
             ('ns-check', r'if \(strcmp \(typelib_namespace, namespace\) != 0\)'),
             ('version-check-name', r'if \(strcmp \(typelib_version, tmp_version\) != 0\)'),
             ('register', r'register_internal \(repository, path, allow_lazy,')]
    pos = 0
    for tok, pat in order:
        m = re.compile(pat, re.S).search(req, pos)
        if not m:
            shape.append('MISSING:' + tok)
        else:
            shape.append(tok)
            pos = m.end()
    st = body_of(src, 'get_registered_status')
    pos = 0
    for tok, pat in [('eager-first', r'g_hash_table_lookup \(repository->priv->typelibs, namespace\)'),
                     ('eager-check', r'return check_version_conflict \(typelib, namespace, version, version_conflict\)'),
                     ('lazy-second', r'g_hash_table_lookup \(repository->priv->lazy_typelibs, namespace\)'),
                     ('not-lazy-conflict-null', r'if \(!allow_lazy\)\s*\{(?:\s*/\*.*?\*/)?\s*check_version_conflict \(typelib, '
                                                r'namespace, version, version_conflict\);\s*return NULL;\s*\}'),
                     ('lazy-check', r'return check_version_conflict \(typelib, namespace, version, version_conflict\)')]:
        m = re.compile(pat, re.S).search(st, pos)
        shape.append(tok if m else 'MISSING:' + tok)
        pos = m.end() if m else pos
    cv = body_of(src, 'compare_version')
    cmp_order = re.findall(r'if \((v[12]_(?:major|minor)) > (v[12]_(?:major|minor))\)\s*return (-?1);', cv)
    shape.append('cmp:' + ';'.join('%s>%s:%s' % t for t in cmp_order))
    cc = body_of(src, 'compare_candidate_reverse')
    shape.append('cand:' + ';'.join(re.findall(r'(result [<>] 0|c1->path_index [=>]=? c2->path_index)', cc)))
    pre = body_of(src, 'g_irepository_prepend_search_path')
    shape.append('prepend:' + one(r'typelib_search_path = (g_slist_\w+) \(typelib_search_path, g_strdup \(directory\)\)', pre,
                                  'prepend call'))
    shape.append('init:' + ','.join(re.findall(r'typelib_search_path = (g_slist_\w+) \(typelib_search_path', init_fn)))
    shape.append('sort:' + one(r'candidates = (g_slist_sort) \(candidates, \(GCompareFunc\) compare_candidate_reverse\)',
                               body_of(src, 'find_namespace_latest'), 'sort call'))
    shape.append('dep-require:' + one(r'g_irepository_require \(repository, dependency_namespace, (\w+),\s*(\w+), error\)',
                                      dep_fn, 'dependency require')[0])

    # g_irepository_load_typelib: registered -> namespace; conflict -> error; else register
    ld = body_of(src, 'g_irepository_load_typelib')
    pos = 0
    toks = []
    for tok, pat in [('status', r'if \(get_registered_status \(repository, namespace, nsversion, allow_lazy,\s*'
                                r'&is_lazy, &version_conflict\)\)\s*return namespace;'),
                     ('conflict', r'if \(version_conflict != NULL\)\s*\{\s*g_set_error \(error, G_IREPOSITORY_ERROR,\s*'
                                  r'G_IREPOSITORY_ERROR_NAMESPACE_VERSION_CONFLICT,'),
                     ('promote-lazy', r'if \(is_lazy\)\s*typelib = g_hash_table_lookup \(repository->priv->lazy_typelibs, '
                                      r'namespace\);'),
                     ('register', r'return register_internal \(repository, "[^"]*",\s*allow_lazy, typelib, error\);')]:
        m = re.compile(pat).search(ld, pos)
        toks.append(tok if m else 'MISSING:' + tok)
        pos = m.end() if m else pos
    shape.append('load:' + ','.join(toks))

    # register_internal: the lazy -> eager transition (the key found in the lazy table is taken out
    # WITHOUT running the key destructor and re-used for the table of loaded typelibs)
    reg = body_of(src, 'register_internal')
    pos = 0
    trans = []
    for tok, pat in [('deps-first', r'if \(!load_dependencies_recurse \(repository, typelib, error\)\)\s*return NULL;'),
                     ('lookup-lazy-key', r'g_hash_table_lookup_extended \(repository->priv->lazy_typelibs,\s*namespace,\s*'
                                         r'\(gpointer\)&key, &value\)'),
                     ('steal', r'\)\s*g_hash_table_steal \(repository->priv->lazy_typelibs, key\);'),
                     ('else-build-key', r'else\s*key = build_typelib_key \(namespace, source\);'),
                     ('insert-eager', r'g_hash_table_insert \(repository->priv->typelibs, key, \(void \*\)typelib\);')]:
        m = re.compile(pat).search(reg, pos)
        trans.append(tok if m else 'MISSING:' + tok)
        pos = m.end() if m else pos
    shape.append('transition:' + ','.join(trans))

    text = '''-- GENERATED by translators/gen_repo.py from girepository/girepository.c and girepository.h. Do not edit.
namespace GIVerif.Gen.Repo

def errorEnumerators : List String := %s
def errTypelibNotFound : Nat := %d
def errNamespaceMismatch : Nat := %d
def errVersionConflict : Nat := %d

def typelibSuffix : String := %s
def exactFileFormat : String := %s
def nsDashFormat : String := %s
/-- (strrchr char of name_end, strrchr char of last_dash, the g_strndup cut expression) -/
def versionSplit : String × String × String := (%s, %s, %s)
def depSplitChars : List String := %s
def depSeparator : String := %s
def builtinSource : String := %s
def searchPathSubdir : String := %s
def envVar : String := %s
def selfName : String := %s
def selfVersion : String := %s
def repoShape : List String := %s

end GIVerif.Gen.Repo
''' % (lean_list([lean_str(e) for e in enumerators]),
       code('G_IREPOSITORY_ERROR_TYPELIB_NOT_FOUND'), code('G_IREPOSITORY_ERROR_NAMESPACE_MISMATCH'),
       code('G_IREPOSITORY_ERROR_NAMESPACE_VERSION_CONFLICT'),
       lean_str(suffix), lean_str(exact), lean_str(ns_dash),
       lean_str(name_end), lean_str(last_dash), lean_str(re.sub(r'\s+', ' ', cut)),
       lean_list([lean_str(c) for c in dep_split]), lean_str(dep_sep), lean_str(builtin), lean_str(subdir),
       lean_str(envvar), lean_str(self_name), lean_str(self_version),
       lean_list([lean_str(t) for t in shape]))
    path, digest, changed = write_if_changed('Repo.lean', text)
    print('gen_repo: %s sha256=%s changed=%s enumerators=%d shape=%d' % (path, digest[:12], changed, len(enumerators),
                                                                        len(shape)))


if __name__ == '__main__':
    main()
