#!/usr/bin/env python3
"""Gen/Cache.lean: what the C18 model depends on in /repo's giscanner/cachestore.py,
re-read with Python's `ast` on every run.

* shape strings: the normalised text (`ast.unparse`, so comments / blank lines / layout
  do not matter) of the six functions whose system calls the model mirrors step by step.
  A `decide` theorem compares them with the text the model was written for: any edit of
  these functions breaks that proof obligation and forces the model to be re-inspected.
* semantic knobs the model *uses* (so the model follows the source when they change and
  the theorems about freshness / no-raise are re-checked against the new values):
  the two mtime comparisons, whether load validates the opened file (fstat) or the
  path (stat), and which OS errors each call site swallows.
"""
import ast
import os
import sys
from common import write_if_changed, lean_list, lean_str, REPO

FUNCS = ['_check_cache_version', '_cache_is_valid', '_remove_filename', '_clean', 'store', 'load']
CMP = {ast.Lt: '<', ast.LtE: '≤', ast.Gt: '>', ast.GtE: '≥', ast.Eq: '=', ast.NotEq: '≠'}


def die(msg):
    print('gen_cache: ' + msg)
    sys.exit(1)


def dotted(node):
    if isinstance(node, ast.Name):
        return node.id
    if isinstance(node, ast.Attribute):
        b = dotted(node.value)
        return None if b is None else b + '.' + node.attr
    return None


def norm_mtime(txt):
    """st_mtime_ns is the same timestamp as st_mtime (integer nanoseconds instead of a float)"""
    return txt.replace('.st_mtime_ns', '.st_mtime')


def calls(node):
    out = []
    for n in ast.walk(node):
        if isinstance(n, ast.Call):
            d = dotted(n.func)
            if d:
                out.append((d, n))
    return out


def has_call(node, name, arg0=None):
    for d, c in calls(node):
        if d == name and (arg0 is None or (c.args and ast.unparse(c.args[0]) == arg0)):
            return True
    return False


def find_try(fn, pred):
    for n in ast.walk(fn):
        if isinstance(n, ast.Try) and any(pred(st) for st in n.body):
            return n
    return None


def handler_swallows(tr, err):
    """Does the try statement swallow OSError with errno `err` (no re-raise)?"""
    if tr is None:
        return False
    exc_for = {'ENOENT': ('FileNotFoundError',), 'EACCES': ('PermissionError',)}
    for h in tr.handlers:
        if h.type is None:
            names = ['BaseException']
        elif isinstance(h.type, ast.Tuple):
            names = [dotted(e) for e in h.type.elts]
        else:
            names = [dotted(h.type)]
        if any(n in exc_for.get(err, ()) for n in names):
            return not any(isinstance(x, ast.Raise) for st in h.body for x in ast.walk(st))
        if any(n in ('IOError', 'OSError', 'EnvironmentError', 'Exception', 'BaseException') for n in names):
            # look for `if e.errno == errno.X` / `if e.errno in (errno.X, ...)`
            for st in h.body:
                if isinstance(st, ast.If) and isinstance(st.test, ast.Compare) and \
                        dotted(st.test.left) == (h.name or 'e') + '.errno':
                    rhs = st.test.comparators[0]
                    elts = rhs.elts if isinstance(rhs, (ast.Tuple, ast.List, ast.Set)) else [rhs]
                    listed = ('errno.' + err) in [dotted(e) for e in elts]
                    then_raises = any(isinstance(x, ast.Raise) for s2 in st.body for x in ast.walk(s2))
                    else_raises = any(isinstance(x, ast.Raise) for s2 in st.orelse for x in ast.walk(s2))
                    if isinstance(st.test.ops[0], (ast.Eq, ast.In)):
                        return (listed and not then_raises) or (not listed and not else_raises)
                    return False
            return not any(isinstance(x, ast.Raise) for st in h.body for x in ast.walk(st))
    return False


def main():
    path = os.path.join(REPO, 'giscanner', 'cachestore.py')
    with open(path, encoding='utf-8') as f:
        tree = ast.parse(f.read())
    cls = [n for n in tree.body if isinstance(n, ast.ClassDef) and n.name == 'CacheStore']
    if not cls:
        die('class CacheStore not found')
    fns = {n.name: n for n in cls[0].body if isinstance(n, ast.FunctionDef)}
    for fn in FUNCS:
        if fn not in fns:
            die('CacheStore.%s not found' % fn)

    shapes = {fn: ast.unparse(fns[fn]).split('\n') for fn in FUNCS}
    # the entry-name function (which paths share a cache entry): mirrored by the `name` function of the
    # key-indexed family in Model/Cache.lean, pinned by C18_entry_name_shape
    if '_get_filename' not in fns:
        die('CacheStore._get_filename not found')
    shape_name = ast.unparse(fns['_get_filename']).split('\n')

    # --- _cache_is_valid: `return store_mtime <op> os.stat(filename).st_mtime`
    valid = None
    for n in ast.walk(fns['_cache_is_valid']):
        if isinstance(n, ast.Return) and isinstance(n.value, ast.Compare) and len(n.value.ops) == 1:
            l, r = norm_mtime(ast.unparse(n.value.left)), norm_mtime(ast.unparse(n.value.comparators[0]))
            if l == 'store_mtime' and r == 'os.stat(filename).st_mtime':
                valid = 'storeM %s srcM' % CMP[type(n.value.ops[0])]
            elif r == 'store_mtime' and l == 'os.stat(filename).st_mtime':
                valid = 'srcM %s storeM' % CMP[type(n.value.ops[0])]
    if valid is None:
        die('_cache_is_valid: comparison of store_mtime with os.stat(filename).st_mtime not found')

    # --- load: `if <entry mtime> <op> os.stat(filename).st_mtime: return None`
    stale = None
    by_fd = None
    path_stat_caught = True
    for n in ast.walk(fns['load']):
        if isinstance(n, ast.If) and isinstance(n.test, ast.Compare) and len(n.test.ops) == 1 \
                and n.body and isinstance(n.body[0], ast.Return):
            l, r = norm_mtime(ast.unparse(n.test.left)), norm_mtime(ast.unparse(n.test.comparators[0]))
            sides = {}
            for nm, txt in (('L', l), ('R', r)):
                if txt == 'os.stat(filename).st_mtime':
                    sides[nm] = 'srcM'
                elif txt == 'os.fstat(fd.fileno()).st_mtime':
                    sides[nm] = 'entryM'
                    by_fd = True
                elif txt == 'os.stat(store_filename).st_mtime':
                    sides[nm] = 'entryM'
                    by_fd = False
                    path_stat_caught = False      # an inline os.stat(store_filename) in load is not guarded
            if sorted(sides.values()) == ['entryM', 'srcM']:
                stale = '%s %s %s' % (sides['L'], CMP[type(n.test.ops[0])], sides['R'])
                order = 'entry-first' if sides['L'] == 'entryM' else 'source-first'
    if stale is None:
        # the pre-fix shape: `if not self._cache_is_valid(store_filename, filename): return None`
        for n in ast.walk(fns['load']):
            if isinstance(n, ast.If) and ast.unparse(n.test) == 'not self._cache_is_valid(store_filename, filename)':
                inv = {'≥': '<', '>': '≤', '<': '≥', '≤': '>', '=': '≠', '≠': '='}
                a, op, b = valid.split(' ')
                a, b = ('entryM' if a == 'storeM' else a), ('entryM' if b == 'storeM' else b)
                stale = '%s %s %s' % (a, inv[op], b)
                by_fd = False
                order = 'entry-first'
                path_stat_caught = None       # decided by _cache_is_valid's handler, below
    if stale is None or by_fd is None:
        die('load: freshness test of the opened entry against the source not found')

    st_entry = find_try(fns['_cache_is_valid'], lambda s: has_call(s, 'os.stat', 'store_filename'))
    tr_open = find_try(fns['load'], lambda s: has_call(s, 'open', 'store_filename'))
    tr_pick = find_try(fns['load'], lambda s: has_call(s, 'pickle.load'))
    tr_unl = find_try(fns['_remove_filename'], lambda s: has_call(s, 'os.unlink'))
    tr_stamp = find_try(fns['_check_cache_version'], lambda s: has_call(s, 'open', 'version'))
    tr_move = find_try(fns['store'], lambda s: has_call(s, 'shutil.move') or has_call(s, 'os.rename')
                       or has_call(s, 'os.replace'))
    # --- store: where the temporary file is made, how it is published, what stamp it gets
    store = fns['store']
    store_params = [a.arg for a in store.args.args]
    stamp_param = store_params[3] if len(store_params) >= 4 else None
    tmp_in_cache_dir = False
    for d, c in calls(store):
        if d == 'tempfile.mkstemp':
            tmp_in_cache_dir = any(k.arg == 'dir' and ast.unparse(k.value) == 'self._directory' for k in c.keywords)
    tr_mkstemp = find_try(store, lambda st: has_call(st, 'tempfile.mkstemp'))
    publish_is_rename = (has_call(store, 'os.replace', 'tmp_filename') or has_call(store, 'os.rename', 'tmp_filename')) \
        and not has_call(store, 'shutil.move')
    tr_utime = find_try(store, lambda st: has_call(st, 'os.utime', 'tmp_filename'))
    stamps_source_mtime = False
    utime_then_publish = False
    if tr_utime is not None and stamp_param is not None:
        seen_utime = False
        for st in tr_utime.body:
            for d, c in calls(st):
                if d == 'os.utime' and c.args and ast.unparse(c.args[0]) == 'tmp_filename':
                    ns = [k for k in c.keywords if k.arg == 'ns']
                    stamps_source_mtime = bool(ns) and ast.unparse(ns[0].value) == '(%s, %s)' % (stamp_param, stamp_param)
                    seen_utime = True
                if d in ('os.replace', 'os.rename') and seen_utime:
                    utime_then_publish = True
    # --- the call site: Transformer._parse_include observes the mtime BEFORE it parses and hands it to store
    caller_ok = False
    with open(os.path.join(REPO, 'giscanner', 'transformer.py'), encoding='utf-8') as f:
        ttree = ast.parse(f.read())
    for n in ast.walk(ttree):
        if isinstance(n, ast.FunctionDef) and n.name == '_parse_include':
            seq = []
            for x in ast.walk(n):
                if isinstance(x, ast.Assign) and ast.unparse(x.value) == 'os.stat(filename).st_mtime_ns' \
                        and len(x.targets) == 1 and isinstance(x.targets[0], ast.Name):
                    seq.append((x.lineno, 'stat', x.targets[0].id))
                if isinstance(x, ast.Call) and dotted(x.func) == 'parser.parse':
                    seq.append((x.lineno, 'parse', None))
                if isinstance(x, ast.Call) and dotted(x.func) == 'self._cachestore.store' and len(x.args) == 3:
                    seq.append((x.lineno, 'store', ast.unparse(x.args[2])))
            seq.sort()
            kinds = [k for _l, k, _v in seq]
            if kinds == ['stat', 'parse', 'store'] and seq[0][2] == seq[2][2]:
                caller_ok = True

    knobs = [
        ('statEntryCatchesENOENT', handler_swallows(st_entry, 'ENOENT'),
         '`_cache_is_valid`: a missing entry makes `os.stat(store_filename)` fail; is that swallowed?'),
        ('openCatchesENOENT', handler_swallows(tr_open, 'ENOENT'), '`load`: `open(store_filename)` on a missing entry'),
        ('unpickleCatchesAll', tr_pick is not None and any(
            h.type is None or dotted(h.type) in ('Exception', 'BaseException') for h in tr_pick.handlers),
         '`load`: any exception of `pickle.load` is swallowed'),
        ('brokenIsUnlinked', tr_pick is not None and any(
            has_call(st, 'self._remove_filename', 'store_filename') for h in tr_pick.handlers for st in h.body),
         '`load`: the handler of a failed unpickle removes the entry'),
        ('unlinkCatchesENOENT', handler_swallows(tr_unl, 'ENOENT'), '`_remove_filename`: entry already gone'),
        ('stampCatchesENOENT', handler_swallows(tr_stamp, 'ENOENT'), '`_check_cache_version`: no stamp file yet'),
        ('moveCatchesENOENT', handler_swallows(tr_move, 'ENOENT'),
         '`store`: the publish step failing with ENOENT (the temporary file was purged by another scanner)'),
        ('utimeCatchesENOENT', handler_swallows(tr_utime, 'ENOENT'),
         '`store`: `os.utime(tmp_filename)` failing with ENOENT (the temporary file was purged by another scanner)'),
        ('mkstempCatchesEACCES', handler_swallows(tr_mkstemp, 'EACCES'), '`store`: cache directory not writable'),
        ('tmpInCacheDir', tmp_in_cache_dir, '`store`: `tempfile.mkstemp(dir=self._directory)`: the temporary file is in the cache directory'),
        ('publishIsRename', publish_is_rename, '`store`: published with os.replace / os.rename (never copied)'),
        ('stampIsSourceMtime', stamps_source_mtime and utime_then_publish,
         '`store`: before it is published the temporary file gets (os.utime, ns=) the mtime passed as third argument'),
        ('callerStatsBeforeParse', caller_ok,
         '`Transformer._parse_include`: `os.stat(filename).st_mtime_ns` is taken before `parser.parse` and handed to `store`'),
        ('loadPathStatCatchesENOENT', handler_swallows(st_entry, 'ENOENT') if path_stat_caught is None else path_stat_caught,
         '`load` (only when it validates by path): a vanished entry does not make the stat raise'),
        ('loadByFd', by_fd, '`load` validates the file it opened (fstat) rather than the path (stat)'),
    ]

    L = ['-- GENERATED by translators/gen_cache.py from giscanner/cachestore.py. Do not edit.',
         'namespace GIVerif.Gen.Cache', '']
    for fn in FUNCS:
        L.append('/-- normalised text of `CacheStore.%s` -/' % fn)
        L.append('def shape%s : List String := %s' % (''.join(w.capitalize() for w in fn.strip('_').split('_')),
                                                      lean_list([lean_str(s) for s in shapes[fn]])))
        L.append('')
    L.append('/-- normalised text of `CacheStore._get_filename` (the entry-name function) -/')
    L.append('def shapeGetFilename : List String := %s' % lean_list([lean_str(x) for x in shape_name]))
    L.append('')
    L.append('/-- `_cache_is_valid`: the comparison that lets `store` skip writing -/')
    L.append('def cacheIsValid (storeM srcM : Nat) : Bool := decide (%s)' % valid)
    L.append('')
    L.append('/-- `load`: the comparison that rejects an entry older than its source -/')
    L.append('def loadStale (entryM srcM : Nat) : Bool := decide (%s)' % stale)
    L.append('')
    L.append('/-- evaluation order of the two stats in `load` -/')
    L.append('def loadStatOrder : String := %s' % lean_str(order))
    L.append('')
    for name, val, doc in knobs:
        L.append('/-- %s -/' % doc)
        L.append('def %s : Bool := %s' % (name, 'true' if val else 'false'))
        L.append('')
    L.append('end GIVerif.Gen.Cache')
    p, digest, changed = write_if_changed('Cache.lean', '\n'.join(L) + '\n')
    print('Gen/Cache.lean sha256=%s changed=%s functions=%d knobs=%s' % (
        digest[:16], changed, len(FUNCS), ','.join('%s=%d' % (n, v) for n, v, _ in knobs)))


if __name__ == '__main__':
    main()
