#!/usr/bin/env python3
"""Gen/GirVocabC.lean: what girepository/girparser.c accepts, re-read from /repo on every run.

A scan of the (very regular) C of girparser.c, no compilation:

  * the ParseState enumerators, in order (state numbers in compiler warnings and in the trace of
    cdrivers/c15_states.c are indices into this list);
  * for every (state, element name) pair: is the element taken by start_element_handler without a
    warning, by which handler, does the handler run introspectable_prelude, to which state does
    it switch (or none), does it push a node; `ctx->node_stack == NULL` conditions are kept as a
    flag.  Obtained by evaluating the guards of the start_* functions (a small evaluator for the
    boolean expressions / `switch (ctx->state)` blocks these functions consist of) in the order
    start_element_handler tries them;
  * the element names that go to STATE_PASSTHROUGH by name alone, and the prefix that silences
    the "unknown element" warning;
  * per handler the attribute names fetched with find_attribute;
  * per handler and attribute the string literals the value is compared with (strcmp, g_strcmp0,
    g_ascii_strcasecmp, g_str_equal), following the value into parse_param_transfer /
    parse_property_transfer;
  * the enumerated attribute values of docs/gir-1.2.rnc (the written format contract).

Whatever no longer has the shape this scan understands is reported in `c15CShape` (a `decide`
theorem demands it to be empty) — the translator itself does not fail, so that the check goes
on to the end-to-end search on the real scanner/compiler pair.
"""
import os
import re
import sys

from common import write_if_changed, lean_list, lean_str, REPO

SHAPE = []


def shape(msg):
    if msg not in SHAPE:
        SHAPE.append(msg)


def code(name):
    """a name as a natural number: 1, then its bytes, base 256 (ASCII only: injective)"""
    try:
        return str(int.from_bytes(b'\x01' + name.encode('ascii'), 'big'))
    except UnicodeEncodeError:
        shape('non-ASCII name %r' % name)
        return '0'


def group_adj(pairs):
    """[(key, value)] -> [(key, [values])]: runs of adjacent equal keys (Model/GirConsume.lean groupAdj)"""
    out = []
    for k, v in pairs:
        if out and out[-1][0] == k:
            out[-1][1].append(v)
        else:
            out.append((k, [v]))
    return out


def strip_comments(src):
    src = re.sub(r'/\*.*?\*/', lambda m: re.sub(r'[^\n]', ' ', m.group(0)), src, flags=re.S)
    return src


def match_paren(s, i, open_c='(', close_c=')'):
    """s[i] == open_c -> index just after the matching close; string literals are skipped"""
    depth = 0
    j = i
    n = len(s)
    while j < n:
        c = s[j]
        if c == '"':
            j += 1
            while j < n and s[j] != '"':
                if s[j] == '\\':
                    j += 1
                j += 1
        elif c == "'":
            j += 1
            while j < n and s[j] != "'":
                if s[j] == '\\':
                    j += 1
                j += 1
        elif c == open_c:
            depth += 1
        elif c == close_c:
            depth -= 1
            if depth == 0:
                return j + 1
        j += 1
    return -1


def functions(src):
    """{name: body text} of the top-level function definitions (name at column 0, '{' at column 0)"""
    out = {}
    for m in re.finditer(r'^(\w+) \(', src, re.M):
        name = m.group(1)
        close = match_paren(src, m.end() - 1)
        if close < 0:
            continue
        rest = src[close:close + 4]
        if not re.match(r'\s*\n\{', src[close:close + 8]):
            continue
        b = src.index('{', close)
        e = match_paren(src, b, '{', '}')
        if e < 0:
            continue
        out.setdefault(name, src[b:e])
    return out


# ------------------------------------------------------------------ condition expressions
TOK = re.compile(r'''\s*(?:
    (?P<str>"(?:[^"\\]|\\.)*") | (?P<op>&&|\|\||==|!=|->|[!(),]) | (?P<id>[A-Za-z_][A-Za-z_0-9]*) | (?P<num>\d+) )''', re.X)


def tokenize(s):
    toks = []
    i = 0
    s = s.strip()
    while i < len(s):
        m = TOK.match(s, i)
        if not m or m.end() == i:
            raise ValueError('cannot tokenize %r' % s[i:i + 30])
        if m.group('str') is not None:
            toks.append(('str', m.group('str')[1:-1]))
        elif m.group('op') is not None:
            toks.append(('op', m.group('op')))
        elif m.group('id') is not None:
            toks.append(('id', m.group('id')))
        else:
            toks.append(('num', m.group('num')))
        i = m.end()
    return toks


class P(object):
    """recursive descent over: or := and ('||' and)* ; and := un ('&&' un)* ; un := '!' un | prim
       prim := '(' or ')' | cmp ; cmp := term (('=='|'!=') term)? ; term := call | path | str | num"""

    def __init__(self, toks):
        self.t = toks
        self.i = 0

    def peek(self):
        return self.t[self.i] if self.i < len(self.t) else (None, None)

    def eat(self, kind=None, val=None):
        k, v = self.peek()
        if (kind and k != kind) or (val is not None and v != val):
            raise ValueError('expected %s %s, got %s %s' % (kind, val, k, v))
        self.i += 1
        return v

    def parse(self):
        e = self.p_or()
        if self.i != len(self.t):
            raise ValueError('trailing tokens')
        return e

    def p_or(self):
        e = self.p_and()
        while self.peek() == ('op', '||'):
            self.eat()
            e = ('or', e, self.p_and())
        return e

    def p_and(self):
        e = self.p_un()
        while self.peek() == ('op', '&&'):
            self.eat()
            e = ('and', e, self.p_un())
        return e

    def p_un(self):
        if self.peek() == ('op', '!'):
            self.eat()
            return ('not', self.p_un())
        return self.p_cmp()

    def p_cmp(self):
        a = self.p_term()
        k, v = self.peek()
        if k == 'op' and v in ('==', '!='):
            self.eat()
            b = self.p_term()
            return ('cmp', v, a, b)
        return a

    def p_term(self):
        k, v = self.peek()
        if k == 'op' and v == '(':
            self.eat()
            e = self.p_or()
            self.eat('op', ')')
            return e
        if k == 'str':
            self.eat()
            return ('str', v)
        if k == 'num':
            self.eat()
            return ('num', int(v))
        if k == 'id':
            self.eat()
            path = v
            while self.peek() == ('op', '->'):
                self.eat()
                path += '->' + self.eat('id')
            if self.peek() == ('op', '('):
                self.eat()
                args = []
                if self.peek() != ('op', ')'):
                    args.append(self.p_or())
                    while self.peek() == ('op', ','):
                        self.eat()
                        args.append(self.p_or())
                self.eat('op', ')')
                return ('call', path, args)
            return ('path', path)
        raise ValueError('unexpected token %s %s' % (k, v))


def parse_expr(text):
    return P(tokenize(text)).parse()


class Unknown(Exception):
    pass


def ev(e, env):
    """evaluate under env: state, element, node (bool), vars {name: bool}"""
    k = e[0]
    if k == 'or':
        return ev(e[1], env) or ev(e[2], env)
    if k == 'and':
        return ev(e[1], env) and ev(e[2], env)
    if k == 'not':
        return not ev(e[1], env)
    if k == 'str':
        return e[1]
    if k == 'num':
        return e[1]
    if k == 'path':
        p = e[1]
        if p == 'ctx->state':
            return ('state', env['state'])
        if p.startswith('STATE_'):
            return ('state', p[6:])
        if p == 'element_name':
            return ('elem',)
        if p == 'ctx->node_stack':
            return ('node', env['node'])
        if p == 'NULL':
            return ('null',)
        if p in ('TRUE', 'FALSE'):
            return p == 'TRUE'
        if p in env['vars']:
            return env['vars'][p]
        raise Unknown(p)
    if k == 'call':
        if e[1] in ('strcmp', 'g_strcmp0') and len(e[2]) == 2:
            a, b = ev(e[2][0], env), ev(e[2][1], env)
            if a == ('elem',) and isinstance(b, str):
                return 0 if env['element'] == b else 1
            if b == ('elem',) and isinstance(a, str):
                return 0 if env['element'] == a else 1
        raise Unknown('call %s' % e[1])
    if k == 'cmp':
        a, b = ev(e[2], env), ev(e[3], env)
        if isinstance(a, tuple) and a and a[0] == 'node':
            a, b = b, a
        if isinstance(b, tuple) and b and b[0] == 'node' and a == ('null',):
            r = not b[1]
        elif isinstance(a, tuple) and isinstance(b, tuple) and a[0] == 'state' and b[0] == 'state':
            r = a[1] == b[1]
        elif isinstance(a, int) and isinstance(b, int):
            r = a == b
        else:
            raise Unknown('cmp %r %r' % (a, b))
        return r if e[1] == '==' else not r
    raise Unknown(k)


def truth(v):
    if isinstance(v, bool):
        return v
    if isinstance(v, int):
        return v != 0
    raise Unknown('not a boolean: %r' % (v, ))


# ------------------------------------------------------------------ statements of a guard prefix
def split_switch(body):
    """`switch (ctx->state) { ... }` -> [(labels, text, ends_with_break_or_return)]"""
    m = re.search(r'switch \(ctx->state\)\s*\{', body)
    if not m:
        return None, None
    b = body.index('{', m.start())
    e = match_paren(body, b, '{', '}')
    inner = body[b + 1:e - 1]
    groups = []
    pos = 0
    labels = []
    text_start = None
    for lm in re.finditer(r'^\s*(case (STATE_\w+)|default)\s*:', inner, re.M):
        if text_start is not None:
            txt = inner[text_start:lm.start()]
            if txt.strip():
                groups.append((labels, txt))
                labels = []
        labels = labels + [lm.group(2)[6:] if lm.group(2) else 'default']
        text_start = lm.end()
    if text_start is not None:
        groups.append((labels, inner[text_start:]))
    return groups, (m.start(), e)


def run_switch(groups, state, env):
    """execute the switch for `state`: the assignments `v = EXPR;` and `return FALSE;` it consists of.
    returns 'return' or 'done'; env['vars'] / env['assign'] are updated"""
    start = None
    for i, (labels, _t) in enumerate(groups):
        if state in labels:
            start = i
            break
    if start is None:
        for i, (labels, _t) in enumerate(groups):
            if 'default' in labels:
                start = i
                break
    if start is None:
        return 'done'
    for labels, txt in groups[start:]:
        for st in [s.strip() for s in txt.split(';')]:
            st = re.sub(r'\s+', ' ', st)
            if not st:
                continue
            if st == 'break':
                return 'done'
            if st.startswith('return'):
                return 'return'
            m = re.match(r'(\w+) = (.+)$', st, re.S)
            if m:
                name, rhs = m.group(1), m.group(2).strip()
                if re.match(r'STATE_\w+$', rhs):
                    env['assign'][name] = rhs[6:]
                elif rhs == 'ctx->state':
                    env['assign'][name] = env['state']
                else:
                    try:
                        env['vars'][name] = truth(ev(parse_expr(rhs), env))
                    except (Unknown, ValueError) as ex:
                        raise Unknown('switch statement %r: %s' % (st, ex))
                continue
            if st.startswith('g_assert'):
                continue
            raise Unknown('switch statement %r' % st)
    return 'done'


ACTION_RE = re.compile(r'find_attribute \(|introspectable_prelude \(|state_switch \(|g_assert \(ctx->state')


OWN_TEST_RE = re.compile(r'introspectable = find_attribute \("introspectable", attribute_names, attribute_values\);\s*'
                         r'if \(introspectable && atoi \(introspectable\) == 0\)\s*\{\s*state_switch \(ctx, STATE_PASSTHROUGH\);\s*'
                         r'return TRUE;\s*\}')


def norm(text):
    return re.sub(r'\s+', ' ', text).strip()


class Handler(object):
    """guard + effects of one start_* function"""

    def __init__(self, name, body):
        self.name = name
        # "early take" inside the guard switch: in the listed states one element is taken at once and its subtree skipped
        #   case STATE_A: case STATE_B: if (strcmp (element_name, "x") == 0 && MORE) { ...; state_switch (ctx, STATE_PASSTHROUGH); return TRUE; } break;
        self.early = []        # (states, element, extra condition, statements)
        body = self._take_early(body)
        self.body = body
        m = ACTION_RE.search(body)
        self.prefix = body[:m.start()] if m else body
        self.groups, span = split_switch(self.prefix)
        pre = self.prefix
        if span:
            self.before_switch = pre[:span[0]]
            self.after_switch = pre[span[1]:]
        else:
            self.before_switch = pre
            self.after_switch = ''
        # boolean locals: `is_array = strcmp (element_name, "array") == 0;`
        self.locals = []
        for lm in re.finditer(r'^\s*(\w+) = ([^;]*element_name[^;]*);', self.before_switch, re.M):
            self.locals.append((lm.group(1), lm.group(2)))
        # guards: if (COND) return FALSE;
        self.guards = []
        for part in (self.before_switch, self.after_switch):
            for gm in re.finditer(r'\bif \(', part):
                close = match_paren(part, gm.end() - 1)
                tail = part[close:close + 40]
                if re.match(r'\s*return FALSE;', tail):
                    self.guards.append(part[gm.end():close - 1])
        self.prelude = None
        pm = re.search(r'introspectable_prelude \(context, attribute_names, attribute_values, ctx, (\w+)\)', body)
        if pm:
            self.prelude = pm.group(1)
        # a hand-written test of the introspectable attribute alone (no introspectable_prelude, shadowed-by not looked at):
        #   introspectable = find_attribute ("introspectable", ...);
        #   if (introspectable && atoi (introspectable) == 0) { state_switch (ctx, STATE_PASSTHROUGH); return TRUE; }
        self.own_test = None
        om = OWN_TEST_RE.search(body)
        if om:
            self.own_test = [norm(x) for x in re.split(r'[;{}]', om.group(0)) if norm(x)]
            body_wo = body[:om.start()] + body[om.end():]
        else:
            body_wo = body
        self.switches = re.findall(r'state_switch \(ctx, (\w+)\)', body_wo)
        self.push = 'push_node' in body
        self.push_cond = None
        cm = re.search(r'if \(prev_state == STATE_(\w+)\)\s*\{[^}]*push_node', body, re.S)
        if cm:
            self.push_cond = cm.group(1)
        # target_state chosen by an if-chain on ctx->state (start_property)
        self.if_targets = {}
        for tm in re.finditer(r'if \(ctx->state == STATE_(\w+)\)\s*target_state = STATE_(\w+);', body):
            self.if_targets[tm.group(1)] = tm.group(2)

    def _take_early(self, body):
        out = body
        for lm in re.finditer(r'((?:case STATE_\w+:\s*)+)if \(', body):
            close = match_paren(body, lm.end() - 1)
            cond = body[lm.end():close - 1]
            cm = re.match(r'\s*strcmp \(element_name, "([^"]+)"\) == 0\s*(?:&&(.*))?$', cond, re.S)
            bm = re.match(r'\s*\{', body[close:])
            if not cm or not bm:
                continue
            be = match_paren(body, close + bm.end() - 1, '{', '}')
            block = body[close + bm.end():be - 1]
            if not re.search(r'state_switch \(ctx, STATE_PASSTHROUGH\);\s*return TRUE;\s*$', block):
                continue
            states = re.findall(r'case STATE_(\w+):', lm.group(1))
            self.early.append((states, cm.group(1), norm(cm.group(2) or ''), [norm(x) for x in block.split(';') if norm(x)]))
            # leave the labels (and the `break` that follows) in place, take the if-block out
            out = out.replace(body[lm.end() - 4:be], '', 1)
        return out

    def decide(self, state, element, node):
        """None if the function returns FALSE (not its element), else dict(target, prelude, switch, push)"""
        for states, el, _extra, _st in self.early:
            if state in states and element == el:
                return {'target': 'PASSTHROUGH', 'prelude': False, 'switch': True, 'push': False}
        env = {'state': state, 'element': element, 'node': node, 'vars': {'found': False}, 'assign': {}}
        try:
            for name, rhs in self.locals:
                env['vars'][name] = truth(ev(parse_expr(rhs), env))
            for g in self._guards_in(self.before_switch):
                if truth(ev(parse_expr(g), env)):
                    return None
            if self.groups is not None:
                if run_switch(self.groups, state, env) == 'return':
                    return None
            for g in self._guards_in(self.after_switch):
                if truth(ev(parse_expr(g), env)):
                    return None
        except (Unknown, ValueError) as ex:
            shape('%s: guard not understood (%s)' % (self.name, str(ex)[:80]))
            return None
        if self.name == 'start_type':
            return self._decide_type(state)
        target = None
        switch = False
        if self.prelude:
            t = self.prelude
            if t.startswith('STATE_'):
                target = t[6:]
            elif t == 'target_state':
                target = env['assign'].get('target_state') or self.if_targets.get(state)
                if target is None:
                    shape('%s: target_state not determined in state %s' % (self.name, state))
            else:
                shape('%s: prelude target %s' % (self.name, t))
            switch = True
        elif self.switches:
            ts = [s for s in self.switches if s.startswith('STATE_')]
            if len(ts) == 1:
                target = ts[0][6:]
                switch = True
            else:
                shape('%s: several state_switch targets %r' % (self.name, self.switches))
        push = self.push and (self.push_cond is None or self.push_cond == state)
        return {'target': target if switch else state, 'prelude': bool(self.prelude), 'switch': switch, 'push': push}

    def _guards_in(self, part):
        out = []
        for gm in re.finditer(r'\bif \(', part):
            close = match_paren(part, gm.end() - 1)
            if re.match(r'\s*return FALSE;', part[close:close + 40]):
                out.append(part[gm.end():close - 1])
        return out

    def _decide_type(self, state):
        """start_type: nested in STATE_TYPE (no switch, type_depth + 1), switch to STATE_TYPE from the listed
        states; in any other state the function goes on WITHOUT touching the state and returns TRUE (the element
        is taken, silently, and its end tag is then an error of end_element_handler)"""
        m = re.search(r'if \(ctx->state == STATE_TYPE\)(.*?)else if \((.*?)\)\s*\{(.*?)state_switch \(ctx, STATE_TYPE\)', self.body, re.S)
        if not m:
            shape('start_type: state list not found')
            return None
        listed = re.findall(r'ctx->state == STATE_(\w+)', m.group(2))
        # nothing between the element-name guard and the state test may return FALSE for other states
        head = self.body[:m.start()]
        if len(re.findall(r'return FALSE;', head)) != 1:
            shape('start_type: more than the element-name guard before the state test')
        if state == 'TYPE':
            return {'target': 'TYPE', 'prelude': False, 'switch': False, 'push': False}
        if state in listed:
            return {'target': 'TYPE', 'prelude': False, 'switch': True, 'push': False}
        return {'target': state, 'prelude': False, 'switch': False, 'push': False}


def dispatch_items(seh_body):
    """{letter: [item]} in source order; item = ('call', fn) | ('cond', condtext, blocktext)"""
    m = re.search(r'switch \(element_name\[0\]\)\s*\{', seh_body)
    if not m:
        shape('start_element_handler: switch (element_name[0]) not found')
        return {}, ''
    b = seh_body.index('{', m.start())
    e = match_paren(seh_body, b, '{', '}')
    inner = seh_body[b + 1:e - 1]
    tail = seh_body[e:]
    out = {}
    labels = list(re.finditer(r"^\s*case '(.)':|^\s*default:", inner, re.M))
    for i, lm in enumerate(labels):
        end = labels[i + 1].start() if i + 1 < len(labels) else len(inner)
        txt = inner[lm.end():end]
        if lm.group(1) is None:
            continue
        items = []
        pos = 0
        depth_base = 0
        for im in re.finditer(r'\bif \(', txt):
            if im.start() < pos:
                continue       # inside the block of a previous item
            close = match_paren(txt, im.end() - 1)
            cond = txt[im.end():close - 1]
            cm = re.search(r'\b(start_\w+) \(context', cond)
            # the statement / block governed by the condition
            rest = txt[close:]
            bm = re.match(r'\s*\{', rest)
            if bm:
                be = match_paren(txt, close + bm.end() - 1, '{', '}')
                block = txt[close + bm.end():be - 1]
                pos = be
            else:
                se = txt.index(';', close) + 1
                block = txt[close:se]
                pos = se
            if cm:
                items.append(('call', cm.group(1)))
            elif 'element_name' in cond or 'ctx->state' in cond:
                items.append(('cond', cond, block))
        out[lm.group(1)] = items
    return out, tail


def depth0_labels(inner):
    """case labels of a switch body that are not inside a nested block"""
    out = []
    depth = 0
    i = 0
    n = len(inner)
    line_start = True
    while i < n:
        c = inner[i]
        if c == '{':
            depth += 1
        elif c == '}':
            depth -= 1
        elif c == '"':
            i += 1
            while i < n and inner[i] != '"':
                if inner[i] == '\\':
                    i += 1
                i += 1
        if depth == 0:
            m = re.compile(r'(case (STATE_\w+)|default)\s*:').match(inner, i)
            if m and (i == 0 or not (inner[i - 1].isalnum() or inner[i - 1] == '_')):
                out.append((i, m.end(), m.group(2)[6:] if m.group(2) else 'default'))
                i = m.end()
                continue
        i += 1
    return out


END_TOKENS = [
    (r'if \(strcmp \("([^"]+)", element_name\) == 0\)\s*break;', lambda m: 'stay:' + m.group(1)),
    (r'else if \(strcmp \("([^"]+)", element_name\) == 0\)\s*break;', lambda m: 'stay:' + m.group(1)),
    # an ignored end tag that only forgets the node attributes are attached to (no state change):
    # `if (strcmp ("member", element_name) == 0) { ctx->current_typed = NULL; break; }`
    (r'if \(strcmp \("([^"]+)", element_name\) == 0\)\s*\{\s*ctx->current_typed = NULL;\s*break;\s*\}',
     lambda m: 'stay:' + m.group(1)),
    (r'require_end_element \(context, ctx, "([^"]+)", element_name, error\)', lambda m: 'require:' + m.group(1)),
    (r'require_one_of_end_elements \(context, ctx,\s*element_name, error,([^;]*?)NULL\)',
     lambda m: 'require:' + '|'.join(re.findall(r'"([^"]+)"', m.group(1)))),
    (r'pop_node \(ctx\)', lambda m: 'pop'),
    (r'state_switch \(ctx, STATE_(\w+)\)', lambda m: 'switch:' + m.group(1)),
    (r'state_switch \(ctx, ctx->prev_state\)', lambda m: 'switch:prev'),
    (r'state_switch \(ctx, ctx->in_embedded_state\)', lambda m: 'switch:embedded'),
    (r'state_switch_end_struct_or_union \(', lambda m: 'end_struct_or_union'),
    (r'end_type \(ctx\)', lambda m: 'end_type'),
    (r'ctx->unknown_depth -= 1', lambda m: 'depth-1'),
    (r'if \(ctx->unknown_depth == 0\)', lambda m: 'if-depth-0'),
    (r'if \(ctx->node_stack == NULL\)', lambda m: 'if-no-node'),
    (r'if \(ctx->in_embedded_state != STATE_NONE\)', lambda m: 'if-embedded'),
    (r'CURRENT_NODE \(ctx\)->type == G_IR_NODE_(\w+)', lambda m: 'node:' + m.group(1)),
    (r'if \(\(strcmp \("type", element_name\) == 0\) \|\| \(strcmp \("array", element_name\) == 0\) \|\|\s*\(strcmp \("varargs", element_name\) == 0\)\)',
     lambda m: 'if-type|array|varargs'),
    (r'if \(strcmp \("attribute", element_name\) == 0\)', lambda m: 'if-attribute'),
    (r'case STATE_(\w+):', lambda m: 'case:' + m.group(1)),
    (r'ctx->current_module = NULL', lambda m: 'module=NULL'),
]


def tokens_of(text):
    hits = []
    for rx, fn in END_TOKENS:
        for m in re.finditer(rx, text):
            hits.append((m.start(), fn(m)))
    hits.sort()
    out = []
    last = -1
    for pos, tok in hits:
        if pos == last and out and out[-1] == tok:
            continue
        out.append(tok)
        last = pos
    # 'else if (strcmp..' and 'if (strcmp..' hit the same text twice
    dedup = []
    for t in out:
        if dedup and dedup[-1] == t and t.startswith('stay:'):
            continue
        dedup.append(t)
    return dedup


def end_table(fns):
    body = fns.get('end_element_handler', '')
    m = re.search(r'switch \(ctx->state\)\s*\{', body)
    if not m:
        shape('end_element_handler: switch (ctx->state) not found')
        return []
    b = body.index('{', m.start())
    e = match_paren(body, b, '{', '}')
    inner = body[b + 1:e - 1]
    labs = depth0_labels(inner)
    rows = []
    i = 0
    while i < len(labs):
        names = [labs[i][2]]
        j = i
        # consecutive labels share one body
        while j + 1 < len(labs) and not inner[labs[j][1]:labs[j + 1][0]].strip():
            j += 1
            names.append(labs[j][2])
        end = labs[j + 1][0] if j + 1 < len(labs) else len(inner)
        toks = tokens_of(inner[labs[j][1]:end])
        # every end-tag test of the row must have been understood (a test in an unknown form would
        # otherwise vanish from the table silently)
        n_tests = len(re.findall(r'strcmp \(', inner[labs[j][1]:end]))
        n_understood = (len([t for t in toks if t.startswith('stay:')]) + 3 * toks.count('if-type|array|varargs')
                        + toks.count('if-attribute'))
        if n_tests != n_understood:
            shape('end_element_handler: case %s has %d end-tag tests, %d understood' % ('/'.join(names), n_tests, n_understood))
        rows.append((names, toks))
        i = j + 1
    return rows


def norm(text):
    return re.sub(r'\s+', ' ', text).strip()


def main():
    path = os.path.join(REPO, 'girepository', 'girparser.c')
    with open(path, encoding='utf-8') as f:
        raw = f.read()
    src = strip_comments(raw)
    # ---- states
    sm = re.search(r'typedef enum\s*\{([^}]*)\}\s*ParseState;', src)
    states = []
    if sm:
        for part in sm.group(1).split(','):
            m = re.match(r'\s*STATE_(\w+)', part)
            if m:
                states.append(m.group(1))
    else:
        shape('ParseState enum not found')
    macros = dict(re.findall(r'^#define (\w+) "([^"]*)"', src, re.M))
    fns = functions(src)
    handlers = {n: Handler(n, b) for n, b in fns.items() if n.startswith('start_') and n != 'start_element_handler'}
    seh = fns.get('start_element_handler', '')
    if not seh:
        shape('start_element_handler not found')
    items, tail = dispatch_items(seh)
    # ---- element universe
    elements = set(re.findall(r'strcmp \(element_name, "([^"]+)"\)', src)) | set(re.findall(r'strcmp \("([^"]+)", element_name\)', src))
    elements = sorted(elements)
    # ---- passthrough in PASSTHROUGH state / unknown fallback
    if not re.search(r'if \(ctx->state == STATE_PASSTHROUGH\)\s*\{\s*ctx->unknown_depth \+= 1;\s*return;', seh):
        shape('start_element_handler: PASSTHROUGH depth increment not found')
    silent = re.findall(r'if \(!g_str_has_prefix \(element_name, "([^"]+)"\)\)\s*g_printerr \("%s:%d:%d: warning: element %s from state %d is unknown', tail)
    if not silent:
        shape('start_element_handler: unknown-element warning not found')
    if 'state_switch (ctx, STATE_PASSTHROUGH)' not in tail:
        shape('start_element_handler: unknown elements no longer switch to PASSTHROUGH')
    # ---- accept table
    accept = []        # (state, element, handler, needs_node, prelude, switch, target, push)
    by_name_passthrough = set()
    inline_attrs = {}  # handler-name -> attrs fetched in an inline block
    for st in states:
        if st in ('NONE', 'END', 'PASSTHROUGH'):
            continue
        for el in elements:
            letter = el[0]
            res = None
            for it in items.get(letter, []):
                if it[0] == 'call':
                    h = handlers.get(it[1])
                    if h is None:
                        shape('handler %s called but not defined' % it[1])
                        continue
                    r_node = h.decide(st, el, True)
                    if r_node is not None:
                        r_nonode = h.decide(st, el, False)
                        res = dict(r_node, handler=it[1], needs_node=(r_nonode is None))
                        break
                else:
                    cond, block = it[1], it[2]
                    env = {'state': st, 'element': el, 'node': True, 'vars': {}, 'assign': {}}
                    try:
                        ok = truth(ev(parse_expr(cond), env))
                    except (Unknown, ValueError) as ex:
                        shape('start_element_handler case %r: condition not understood (%s)' % (letter, str(ex)[:60]))
                        ok = False
                    if ok:
                        sw = re.findall(r'state_switch \(ctx, STATE_(\w+)\)', block)
                        hname = 'inline:' + el
                        if not sw:
                            shape('start_element_handler case %r element %s: no state_switch in block' % (letter, el))
                            break
                        target = sw[-1]
                        inline_attrs.setdefault(hname, set()).update(re.findall(r'find_attribute \("([^"]+)"', block))
                        if target == 'PASSTHROUGH' and 'ctx->state' not in cond:
                            by_name_passthrough.add(el)
                        res = {'handler': hname, 'needs_node': False, 'prelude': False, 'switch': True, 'target': target,
                               'push': False}
                        break
            if res is not None:
                accept.append((st, el, res['handler'], res['needs_node'], res['prelude'], res['switch'],
                               res['target'] or '?', res['push']))
    # ---- attributes fetched per handler
    fetched = {}
    for n, h in handlers.items():
        at = set(re.findall(r'find_attribute \("([^"]+)"', h.body))
        if h.prelude:
            at |= set(re.findall(r'find_attribute \("([^"]+)"', fns.get('introspectable_prelude', '')))
        fetched[n] = at
    for n, at in inline_attrs.items():
        fetched[n] = set(at)
    # the second pass takes <alias> inline; its attributes are read in the first pass by start_alias
    if 'inline:alias' in fetched and 'start_alias' in handlers:
        fetched['inline:alias'] |= fetched['start_alias']
    fp = fns.get('firstpass_start_element_handler', '')
    fetched['firstpass'] = set(re.findall(r'find_attribute \("([^"]+)"', fp))
    # ---- literal comparisons
    CMP = re.compile(r'\b(strcmp|g_strcmp0|g_ascii_strcasecmp|g_str_equal) ?\((\w+), ("(?:[^"\\]|\\.)*"|[A-Z_]+)\)')
    literals = set()     # (handler, attr, literal, caseless)
    helper_lits = {}     # helper fn -> [(param, literal, caseless)]
    for n, body in fns.items():
        if n.startswith('parse_') and 'transfer' in n:
            for fn_, var, lit in CMP.findall(body):
                lit = lit[1:-1] if lit.startswith('"') else macros.get(lit)
                if lit is not None:
                    helper_lits.setdefault(n, []).append((var, lit, fn_ == 'g_ascii_strcasecmp'))

    def scan_literals(hname, body):
        var_attr = dict((v, a) for v, a in re.findall(r'(\w+) = find_attribute \("([^"]+)"', body))
        for fn_, var, lit in CMP.findall(body):
            if var not in var_attr:
                continue
            lit = lit[1:-1] if lit.startswith('"') else macros.get(lit)
            if lit is None:
                continue
            literals.add((hname, var_attr[var], lit, fn_ == 'g_ascii_strcasecmp'))
        for helper, lits in helper_lits.items():
            for cm in re.finditer(r'\b%s \(' % helper, body):
                close = match_paren(body, cm.end() - 1)
                args = [a.strip() for a in body[cm.end():close - 1].split(',')]
                for var, lit, caseless in lits:
                    # the helper's parameter is fed by the caller's variable of the same name
                    if var in args and var in var_attr:
                        literals.add((hname, var_attr[var], lit, caseless))
                    elif var in args and var not in var_attr:
                        shape('%s: argument %s of %s is not a find_attribute result' % (hname, var, helper))
    for n, h in handlers.items():
        scan_literals(n, h.body)
    # inline blocks of start_element_handler (repository version ...)
    for letter, its in items.items():
        for it in its:
            if it[0] == 'cond':
                els = re.findall(r'"([^"]+)"', it[1])
                for el in els:
                    scan_literals('inline:' + el, it[2])
    # ---- the written contract: enumerated attribute values of docs/gir-1.2.rnc
    rnc = []
    rpath = os.path.join(REPO, 'docs', 'gir-1.2.rnc')
    try:
        with open(rpath, encoding='utf-8') as f:
            rtext = f.read()
        for m in re.finditer(r'attribute ([\w:\-]+) \{([^}]*)\}', rtext):
            vals = re.findall(r'"([^"]*)"', m.group(2))
            if vals and re.fullmatch(r'\s*"[^"]*"(\s*\|\s*"[^"]*")*\s*', m.group(2)):
                for v in vals:
                    if (m.group(1), v) not in rnc:
                        rnc.append((m.group(1), v))
    except OSError:
        shape('docs/gir-1.2.rnc not readable')
    rnc.sort()

    node_kinds = []
    for n, h in sorted(handlers.items()):
        if h.push:
            ks = re.findall(r'_g_ir_node_new \(G_IR_NODE_(\w+)', h.body)
            if ks:
                node_kinds.append((n, ks[0]))
            else:
                shape('%s pushes a node of unknown kind' % n)
    embedded = sorted(set(re.findall(r'case STATE_(\w+):', re.search(
        r'((?:case STATE_\w+:\s*)+)found = \(found \|\| strcmp \(element_name, "callback"\) == 0\);\s*in_embedded_state = ctx->state;',
        fns.get('start_function', '')).group(1)))) if re.search(
        r'((?:case STATE_\w+:\s*)+)found = \(found \|\| strcmp \(element_name, "callback"\) == 0\);\s*in_embedded_state = ctx->state;',
        fns.get('start_function', '')) else []
    if not embedded:
        shape('start_function: in_embedded_state cases not found')
    ends = end_table(fns)
    helpers = []
    for fn_ in ('state_switch', 'introspectable_prelude', 'end_type', 'state_switch_end_struct_or_union'):
        body = fns.get(fn_)
        if body is None:
            shape('%s not found' % fn_)
            continue
        stmts = [norm(x) for x in re.split(r'[;{}]', body)]
        stmts = [x for x in stmts if x and not x.startswith('g_debug') and not re.match(r'(const )?g?(char|boolean|int) ', x)
                 and not x.startswith('GIrNode') and not x.startswith('GList')]
        helpers.append((fn_, stmts))
    pm = re.search(r'if \(ctx->state == STATE_PASSTHROUGH\)\s*\{([^}]*)\}', seh)
    own_test = sorted(n for n, h in handlers.items() if h.own_test)
    for n in own_test:
        if handlers[n].prelude:
            shape('%s has both introspectable_prelude and a hand-written introspectable test' % n)
        helpers.append((n + ':own-introspectable-test', handlers[n].own_test))
    for n, h in sorted(handlers.items()):
        for e_states, e_el, e_extra, e_stmts in h.early:
            helpers.append(('%s:early-take:%s' % (n, e_el), ['states ' + ' '.join(e_states), 'if ' + e_extra] + e_stmts))
    # the comparison chain on `when` of start_glib_signal, with its default branch (a value of `when` that matches none
    # of the literals reaches it: Props/C15.lean lists such values as elseBranchByDesign)
    wm = re.search(r'if \(when == NULL \|\|.*?signal->run_\w+ = TRUE;\s*(?:else if [^;]*;\s*)*(?:else\s*signal->run_\w+ = TRUE;)?',
                   fns.get('start_glib_signal', ''), re.S)
    if wm:
        helpers.append(('start_glib_signal:when', [norm(x) for x in wm.group(0).split(';') if norm(x)]))
    else:
        shape('start_glib_signal: comparison chain on `when` not found')
    # any other state_switch to PASSTHROUGH inside a start_* function must be unconditional (start_instance_parameter)
    for n, h in handlers.items():
        if 'STATE_PASSTHROUGH' in h.switches and len([x for x in h.switches if x.startswith('STATE_')]) != 1:
            shape('%s: a conditional switch to STATE_PASSTHROUGH the scan does not understand' % n)
    helpers.append(('start_element_handler:passthrough', [norm(x) for x in (pm.group(1).split(';') if pm else []) if norm(x)]))

    # regular rows of end_element_handler: stay:x* require:a|b [module=NULL] [pop] switch:S
    end_simple = []
    end_other = []
    for names, toks in ends:
        sw = [t[7:] for t in toks if t.startswith('switch:')]
        other = [t for t in toks if not (t.startswith('stay:') or t.startswith('require:') or t.startswith('switch:')
                                         or t in ('pop', 'module=NULL'))]
        if len(sw) == 1 and not other and len(names) == 1:
            stays = [t[5:] for t in toks if t.startswith('stay:')]
            reqs = []
            for t in toks:
                if t.startswith('require:'):
                    reqs += t[8:].split('|')
            end_simple.append((names[0], stays, reqs, 'pop' in toks, sw[0]))
        else:
            end_other.append((names, toks))

    def b(x):
        return 'true' if x else 'false'
    acc_rows = ['(%s, %s, %s, %s, %s, %s, %s, %s)' % (lean_str(s), lean_str(e), lean_str(h), b(nn), b(pr), b(sw), lean_str(t), b(pu))
                for (s, e, h, nn, pr, sw, t, pu) in accept]
    fetched_rows = ['(%s, %s)' % (lean_str(h), lean_str(a)) for h in sorted(fetched) for a in sorted(fetched[h])]
    lit_rows = ['(%s, %s, %s, %s)' % (lean_str(h), lean_str(a), lean_str(l), b(c)) for (h, a, l, c) in sorted(literals)]
    text = '''-- GENERATED by translators/gen_girvocab_c.py from girepository/girparser.c and docs/gir-1.2.rnc. Do not edit.
namespace GIVerif.Gen

/-- the ParseState enumerators of girparser.c in order (index = the number printed in warnings) -/
def c15CStates : List String := %s

/-- (state, element, handler, needsNodeStack, runsIntrospectablePrelude, switchesState, targetState, pushesNode):
    every (state, element) pair start_element_handler takes without the "unknown element" warning -/
def c15CAccept : List (String × String × String × Bool × Bool × Bool × String × Bool) := [
  %s]

/-- elements sent to STATE_PASSTHROUGH by name alone, in whatever state they occur -/
def c15CPassthroughByName : List String := %s

/-- element-name prefixes for which the unknown-element fallback prints no warning -/
def c15CSilentPrefixes : List String := %s

/-- (handler, attribute) fetched with find_attribute (introspectable_prelude's attributes included
    for the handlers that run it) -/
def c15CFetched : List (String × String) := [
  %s]

/-- (handler, attribute, literal, caseInsensitive): string literals an attribute value is compared with -/
def c15CLiterals : List (String × String × String × Bool) := [
  %s]

/-- (handler, G_IR_NODE_ kind) for the handlers that push a node -/
def c15CNodeKind : List (String × String) := %s

/-- the states in which start_function records in_embedded_state (a callback inside a field) -/
def c15CEmbeddedStates : List String := %s

/-- handlers that test the introspectable attribute by hand (atoi == 0 → STATE_PASSTHROUGH, return) instead of
    running introspectable_prelude; shadowed-by is not looked at -/
def c15COwnIntroTest : List String := %s

/-- end_element_handler: per group of `case STATE_x:` labels the sequence of things it does
    (stay:<element> = ignore that end tag, require:<names>, pop, switch:<STATE>|prev|embedded, ...) -/
def c15CEnd : List (List String × List String) := [
  %s]

/-- the regular rows of c15CEnd, decomposed: (state, end tags ignored, end tags required, pops a node, next state) -/
def c15CEndSimple : List (String × List String × List String × Bool × String) := [
  %s]

/-- the other rows of c15CEnd -/
def c15CEndOther : List (List String × List String) := [
  %s]

/-- the statements of the small helper functions the model mirrors, whitespace-normalised -/
def c15CHelpers : List (String × List String) := [
  %s]

/-- (attribute, value) enumerations of docs/gir-1.2.rnc -/
def c15RncValues : List (String × String) := %s

/-- what the scan did not understand (must be empty) -/
def c15CShape : List String := %s

/-! The accept / fetched / literals tables once more, with every name written as a natural number
    (1, then the bytes of the name, base 256) and GROUPED by their first component (runs of adjacent
    equal keys, `groupAdj` of Model/GirConsume.lean): the `decide` obligations of Props/C15.lean are
    evaluated on these (the kernel compares numbers much faster than strings, and a grouped table is
    searched in two short steps).  Literals compared case-insensitively are lower-cased.
    The driver checks on every run that they are the coded, grouped string tables (op c15.coded). -/

/-- state ↦ [(element, handler, needsNodeStack, runsIntrospectablePrelude, switchesState, targetState, pushesNode)] -/
def c15CAcceptG : List (Nat × List (Nat × Nat × Bool × Bool × Bool × Nat × Bool)) := [
  %s]

/-- handler ↦ [attribute] -/
def c15CFetchedG : List (Nat × List Nat) := [
  %s]

/-- handler ↦ [(attribute, literal, caseInsensitive)] -/
def c15CLiteralsG : List (Nat × List (Nat × Nat × Bool)) := [
  %s]

/-- attribute ↦ [value] of docs/gir-1.2.rnc -/
def c15RncValuesG : List (Nat × List Nat) := [
  %s]

end GIVerif.Gen
''' % (lean_list([lean_str(s) for s in states]), ',\n  '.join(acc_rows),
       lean_list([lean_str(e) for e in sorted(by_name_passthrough)]),
       lean_list([lean_str(s) for s in silent]),
       ',\n  '.join(fetched_rows), ',\n  '.join(lit_rows),
       lean_list(['(%s, %s)' % (lean_str(a), lean_str(k)) for a, k in node_kinds]),
       lean_list([lean_str(x) for x in embedded]),
       lean_list([lean_str(x) for x in own_test]),
       ',\n  '.join('(%s, %s)' % (lean_list([lean_str(x) for x in names]), lean_list([lean_str(x) for x in toks]))
                    for names, toks in ends),
       ',\n  '.join('(%s, %s, %s, %s, %s)' % (lean_str(st), lean_list([lean_str(x) for x in stays]),
                                              lean_list([lean_str(x) for x in reqs]), b(pop), lean_str(nxt))
                    for st, stays, reqs, pop, nxt in end_simple),
       ',\n  '.join('(%s, %s)' % (lean_list([lean_str(x) for x in names]), lean_list([lean_str(x) for x in toks]))
                    for names, toks in end_other),
       ',\n  '.join('(%s, %s)' % (lean_str(n), lean_list([lean_str(x) for x in st])) for n, st in helpers),
       lean_list(['(%s, %s)' % (lean_str(a), lean_str(v)) for a, v in rnc]),
       lean_list([lean_str(s) for s in SHAPE]),
       ',\n  '.join('(%s, [%s])' % (k, ', '.join(vs)) for k, vs in group_adj(
           [(code(s_), '(%s, %s, %s, %s, %s, %s, %s)' % (code(e), code(h), b(nn), b(pr), b(sw), code(t), b(pu)))
            for (s_, e, h, nn, pr, sw, t, pu) in accept])),
       ',\n  '.join('(%s, [%s])' % (k, ', '.join(vs)) for k, vs in group_adj(
           [(code(h), code(a)) for h in sorted(fetched) for a in sorted(fetched[h])])),
       ',\n  '.join('(%s, [%s])' % (k, ', '.join(vs)) for k, vs in group_adj(
           [(code(h), '(%s, %s, %s)' % (code(a), code(l.lower() if c else l), b(c))) for (h, a, l, c) in sorted(literals)])),
       ',\n  '.join('(%s, [%s])' % (k, ', '.join(vs)) for k, vs in group_adj([(code(a), code(v)) for a, v in rnc])))
    p, digest, changed = write_if_changed('GirVocabC.lean', text)
    print('gen_girvocab_c: %s sha256=%s changed=%s states=%d accept=%d fetched=%d literals=%d shape=%d'
          % (p, digest[:12], changed, len(states), len(accept), len(fetched_rows), len(lit_rows), len(SHAPE)))
    for s in SHAPE:
        print('  shape: ' + s)


def extract():
    """for the harness: run main() and return nothing (the tables are read back from the Lean file)"""
    main()


if __name__ == '__main__':
    try:
        main()
    except Exception as e:  # noqa: never die without a table: leave a shape marker for the proof to trip over
        import traceback
        traceback.print_exc()
        text = '''-- GENERATED by translators/gen_girvocab_c.py (FAILED: %s). Do not edit.
namespace GIVerif.Gen
def c15CStates : List String := []
def c15CAccept : List (String × String × String × Bool × Bool × Bool × String × Bool) := []
def c15CPassthroughByName : List String := []
def c15CSilentPrefixes : List String := []
def c15CFetched : List (String × String) := []
def c15CLiterals : List (String × String × String × Bool) := []
def c15CNodeKind : List (String × String) := []
def c15CEmbeddedStates : List String := []
def c15COwnIntroTest : List String := []
def c15CEnd : List (List String × List String) := []
def c15CEndSimple : List (String × List String × List String × Bool × String) := []
def c15CEndOther : List (List String × List String) := []
def c15CHelpers : List (String × List String) := []
def c15RncValues : List (String × String) := []
def c15CShape : List String := [%s]
def c15CAcceptG : List (Nat × List (Nat × Nat × Bool × Bool × Bool × Nat × Bool)) := []
def c15CFetchedG : List (Nat × List Nat) := []
def c15CLiteralsG : List (Nat × List (Nat × Nat × Bool)) := []
def c15RncValuesG : List (Nat × List Nat) := []
end GIVerif.Gen
''' % (type(e).__name__, lean_str('translator failed: %s: %s' % (type(e).__name__, str(e)[:200])))
        write_if_changed('GirVocabC.lean', text)
        sys.exit(1)
