#!/usr/bin/env python3
"""Gen/AnnVocab.lean: everything table-shaped that the C10/C11 model (Model/AnnParse*)
depends on, re-read from /repo's giscanner/annotationparser.py on every run:

* ALL_ANNOTATIONS, LIST_ANNOTATIONS, DICT_ANNOTATIONS, ALL_TAGS and its sub-lists, the
  option lists, the per-class `valid_annotations`, and the arity table of the
  `_do_validate_*` methods (recorded by calling each with a recording
  `_validate_annotation`);
* the parsed shape (CPython's own regex parser, re._parser) of every line pattern; a
  `decide` theorem in Props/C10.lean compares them with the shapes the hand-written
  matchers were written for;
* two CPython tables the model needs: `str.lower()` per code point and the code points
  that match an ASCII letter under re.IGNORECASE|re.UNICODE.
"""
import re
import re._parser as sre_parse
import sys
from common import write_if_changed, lean_list, lean_str, REPO

sys.path.insert(0, REPO)


def render(node_list, names):
    out = []
    for op, av in node_list:
        op = str(op)
        if op == 'AT':
            out.append({'AT_BEGINNING': 'bol', 'AT_END': 'eol'}.get(str(av), str(av)))
        elif op == 'LITERAL':
            out.append('lit(%d)' % av)
        elif op == 'NOT_LITERAL':
            out.append('notlit(%d)' % av)
        elif op == 'ANY':
            out.append('any')
        elif op in ('MAX_REPEAT', 'MIN_REPEAT'):
            lo, hi, sub = av
            hi = 'inf' if hi == sre_parse.MAXREPEAT else str(hi)
            out.append('%s(%d,%s,%s)' % ('rep' if op == 'MAX_REPEAT' else 'lazy', lo, hi,
                                         '+'.join(render(sub, names))))
        elif op == 'SUBPATTERN':
            grp, _a, _b, sub = av
            out.append('group<%s>(%s)' % (names.get(grp, grp), '+'.join(render(sub, names))))
        elif op == 'IN':
            out.append('in(%s)' % ','.join(render_in(av)))
        elif op == 'BRANCH':
            out.append('alt(%s)' % '|'.join('+'.join(render(b, names)) for b in av[1]))
        elif op == 'ASSERT_NOT':
            out.append('nla%d(%s)' % (av[0], '+'.join(render(av[1], names))))
        else:
            out.append('%s:%r' % (op, av))
    return out


def render_in(items):
    out = []
    for op, av in items:
        op = str(op)
        if op == 'NEGATE':
            out.append('^')
        elif op == 'LITERAL':
            out.append('%d' % av)
        elif op == 'RANGE':
            out.append('%d-%d' % av)
        elif op == 'CATEGORY':
            out.append({'CATEGORY_SPACE': 's', 'CATEGORY_WORD': 'w', 'CATEGORY_DIGIT': 'd',
                        'CATEGORY_NOT_SPACE': 'S', 'CATEGORY_NOT_WORD': 'W'}.get(str(av), str(av)))
        else:
            out.append('%s:%s' % (op, av))
    return out


def shape(pat):
    names = {v: k for k, v in pat.groupindex.items()}
    tree = sre_parse.parse(pat.pattern, pat.flags)
    flags = []
    if pat.flags & re.IGNORECASE:
        flags.append('I')
    if pat.flags & re.MULTILINE:
        flags.append('M')
    if pat.flags & re.DOTALL:
        flags.append('S')
    if pat.flags & re.ASCII:
        flags.append('A')
    return 'flags(%s) ' % ''.join(flags) + ' '.join(render(list(tree), names))


PATTERNS = ['LINE_BREAK_RE', 'COMMENT_BLOCK_START_RE', 'COMMENT_BLOCK_END_RE', 'COMMENT_ASTERISK_RE',
            'INDENTATION_RE', 'EMPTY_LINE_RE', 'SECTION_RE', 'SYMBOL_RE', 'PROPERTY_RE', 'SIGNAL_RE',
            'ACTION_RE', 'FIELD_RE', 'PARAMETER_RE', 'TAG_RE', 'TAG_VALUE_VERSION_RE',
            'TAG_VALUE_STABILITY_RE']


def arity_table(ap):
    """(class, annotation) -> what its _do_validate_* asks of _validate_annotation."""
    rows = []
    for cls_name in ('GtkDocCommentBlock', 'GtkDocParameter', 'GtkDocTag'):
        cls = getattr(ap, cls_name)
        for ann in cls.valid_annotations:
            obj = cls('x') if cls_name != 'GtkDocCommentBlock' else cls('x')
            rec = []

            def fake(position, ann_name, options, choices=None, exact_n_options=None,
                     min_n_options=None, max_n_options=None, rec=rec):
                rec.append((choices, exact_n_options, min_n_options, max_n_options))
            # bind the recorder in place of the real helper for this one object
            bound = type('R', (cls,), {'_validate_annotation': staticmethod(fake),
                                       '__slots__': ()})
            o2 = bound('x')
            meth = getattr(o2, '_do_validate_' + ann.replace('-', '_'))
            try:
                meth(None, ann, [])
                kind = 'generic' if rec else 'custom'
            except Exception:   # pragma: no cover
                kind = 'custom'
            if ann == 'array':
                kind = 'array'
            elif not rec:
                kind = 'free'
            ch, ex, mn, mx = rec[0] if rec else (None, None, None, None)
            rows.append((cls_name, ann, kind, list(ch) if ch is not None else None, ex, mn, mx))
    return rows


def opt_nat(v):
    return 'none' if v is None else '(some %d)' % v


def main():
    from giscanner import annotationparser as ap
    shapes = [(n, shape(getattr(ap, n))) for n in PATTERNS]
    lower = []
    for c in range(0x110000):
        if 0xD800 <= c <= 0xDFFF:
            continue
        lo = chr(c).lower()
        if lo != chr(c):
            lower.append((c, [ord(x) for x in lo]))
    lower_ascii = [e for e in lower if e[0] < 128]
    lower = [e for e in lower if e[0] >= 128]
    # code points matching an ASCII lowercase letter under IGNORECASE|UNICODE
    letters = sorted(set(ch for t in ap.ALL_TAGS for ch in t if ch != ' ') |
                     set('stableunstableprivateinternal'))
    icase = []
    for l in letters:
        pat = re.compile(re.escape(l), re.IGNORECASE | re.UNICODE)
        cps = [c for c in range(0x110000) if not (0xD800 <= c <= 0xDFFF) and pat.fullmatch(chr(c))]
        icase.append((ord(l), cps))

    def strs(l):
        return lean_list([lean_str(x) for x in l])

    rows = arity_table(ap)
    arity = lean_list(['(%s, %s, %s, %s, %s, %s, %s)' % (
        lean_str(c), lean_str(a), lean_str(k),
        'none' if ch is None else '(some %s)' % strs(ch), opt_nat(ex), opt_nat(mn), opt_nat(mx))
        for c, a, k, ch, ex, mn, mx in rows])
    text = '''-- GENERATED by translators/gen_annvocab.py from giscanner/annotationparser.py. Do not edit.
namespace GIVerif.Gen

def allAnnotations : List String := %s
def listAnnotations : List String := %s
def dictAnnotations : List String := %s
def deprecatedAnns : List String := %s
def annLPar : String := %s
def annRPar : String := %s
def annInoutAlt : String := %s
def annInout : String := %s
def annAttribute : String := %s
def annAttributes : String := %s
def annNot : String := %s
def annNullable : String := %s
def annAllowNone : String := %s
def annOptional : String := %s

def allTags : List String := %s
def gtkdocTags : List String := %s
def deprecatedGtkdocTags : List String := %s
def deprecatedGiTags : List String := %s
def deprecatedGiAnnTags : List String := %s
def tagReturnsFamily : List String := %s
def tagVersioned : List String := %s
def tagStability : String := %s
def tagDescription : String := %s
def tagAttributes : String := %s
def tagReturns : String := %s

def arrayOptions : List String := %s
def outOptions : List String := %s
def notOptions : List String := %s
def scopeOptions : List String := %s
def transferOptions : List String := %s
def stabilityValues : List String := %s

def validBlock : List String := %s
def validParameter : List String := %s
def validTag : List String := %s

/-- (class, annotation, kind, choices, exact, min, max) as asked of `_validate_annotation`
    by each `_do_validate_*` (kind: generic | array | free) -/
def arityTable : List (String × String × String × Option (List String) × Option Nat × Option Nat × Option Nat) := %s

/-- every line pattern as parsed by CPython's regex parser -/
def patternShapes : List (String × String) := %s

/-- `chr(c).lower()` for the ASCII code points where it differs from `chr(c)` -/
def pyLowerAscii : List (Nat × List Nat) := %s
%s
/-- `chr(c).lower()` for every non-ASCII code point where it differs from `chr(c)` (chunked:
    one list literal of this size exceeds the elaborator's recursion depth) -/
def pyLowerTable : List (Nat × List Nat) := %s

/-- for each ASCII letter used in a case-insensitive pattern: the code points matching it
    under re.IGNORECASE|re.UNICODE -/
def pyIgnoreCase : List (Nat × List Nat) := %s

end GIVerif.Gen
''' % (strs(ap.ALL_ANNOTATIONS), strs(ap.LIST_ANNOTATIONS), strs(ap.DICT_ANNOTATIONS),
       strs(ap.DEPRECATED_GI_ANNS), lean_str(ap.ANN_LPAR), lean_str(ap.ANN_RPAR),
       lean_str(ap.ANN_INOUT_ALT), lean_str(ap.ANN_INOUT), lean_str(ap.ANN_ATTRIBUTE),
       lean_str(ap.ANN_ATTRIBUTES), lean_str(ap.ANN_NOT), lean_str(ap.ANN_NULLABLE),
       lean_str(ap.ANN_ALLOW_NONE), lean_str(ap.ANN_OPTIONAL),
       strs(ap.ALL_TAGS), strs(ap.GTKDOC_TAGS), strs(ap.DEPRECATED_GTKDOC_TAGS),
       strs(ap.DEPRECATED_GI_TAGS), strs(ap.DEPRECATED_GI_ANN_TAGS),
       strs([ap.TAG_RETURN, ap.TAG_RETURNS, ap.TAG_RETURN_VALUE, ap.TAG_RETURNS_VALUE]),
       strs([ap.TAG_DEPRECATED, ap.TAG_SINCE]), lean_str(ap.TAG_STABILITY),
       lean_str(ap.TAG_DESCRIPTION), lean_str(ap.TAG_ATTRIBUTES), lean_str(ap.TAG_RETURNS),
       strs(ap.ARRAY_OPTIONS), strs(ap.OUT_OPTIONS), strs(ap.NOT_OPTIONS), strs(ap.SCOPE_OPTIONS),
       strs(ap.TRANSFER_OPTIONS), strs(['stable', 'unstable', 'private', 'internal']),
       strs(ap.GtkDocCommentBlock.valid_annotations), strs(ap.GtkDocParameter.valid_annotations),
       strs(ap.GtkDocTag.valid_annotations),
       arity,
       lean_list(['(%s, %s)' % (lean_str(n), lean_str(s)) for n, s in shapes]),
       lean_list(['(%d, %s)' % (c, lean_list([str(x) for x in l])) for c, l in lower_ascii]),
       '\n'.join('def pyLowerChunk%d : List (Nat × List Nat) := %s' % (
           i // 100, lean_list(['(%d, %s)' % (c, lean_list([str(x) for x in l])) for c, l in lower[i:i + 100]]))
           for i in range(0, len(lower), 100)),
       ' ++ '.join('pyLowerChunk%d' % (i // 100) for i in range(0, len(lower), 100)),
       lean_list(['(%d, %s)' % (c, lean_list([str(x) for x in l])) for c, l in icase]))
    path, digest, changed = write_if_changed('AnnVocab.lean', text)
    print('gen_annvocab: %s sha256=%s changed=%s anns=%d tags=%d patterns=%d lower=%d arity=%d'
          % (path, digest[:12], changed, len(ap.ALL_ANNOTATIONS), len(ap.ALL_TAGS), len(shapes),
             len(lower), len(rows)))


if __name__ == '__main__':
    main()
