#!/usr/bin/env python3
"""Gen/InfoSwitch.lean: which GIInfoTypes two kind-dependent accessors of libgirepository admit,
re-read from /repo's current tree on every run:

 (1) the `switch (rinfo->type)` of g_base_info_is_deprecated (girepository/gibaseinfo.c);
 (2) the macro GI_IS_STRUCT_INFO (girepository/gistructinfo.h) — the list of GI_INFO_TYPE_* values it
     compares g_base_info_get_type() with — together with the fact that g_struct_info_get_copy_function and
     g_struct_info_get_free_function (gistructinfo.c) guard with it and then return
     `blob->x ? g_typelib_get_string (...) : NULL` (the C09 model `structFuncName`; `C09_struct_func_name`).

About (1):

For every group of `case` labels that share one body the table records the labels and which
blob member the body returns (`<Blob> *blob = (<Blob> *)&rinfo->typelib->data[rinfo->offset];
return blob-><member>;`), or an empty blob name when the group only leaves the switch (the
function then ends in `return FALSE;`).  The C09 model `deprecatedField` is a lookup in this
table, and `C09_deprecated` is proved by `decide` over it: a case label removed from (or added
to) the switch changes the table, so the proof obligation is re-checked against what the
code does now.  Any statement the translator does not know stops it (exit 1): the source no
longer has the shape the model was written for.

Used by C09 only."""
import os
import re
import sys

from common import write_if_changed, lean_list, lean_str, REPO

SOURCE = os.path.join(REPO, 'girepository', 'gibaseinfo.c')


class Shape(Exception):
    pass


def strip_comments(src):
    return re.sub(r'/\*.*?\*/', ' ', src, flags=re.S)


def function_body(src, name):
    """text between the braces of the definition of `name` (definition = name at line start)"""
    m = re.search(r'^%s\s*\([^)]*\)\s*\{' % re.escape(name), src, re.M)
    if not m:
        raise Shape('definition of %s not found' % name)
    i = m.end()
    depth = 1
    while depth and i < len(src):
        if src[i] == '{':
            depth += 1
        elif src[i] == '}':
            depth -= 1
        i += 1
    if depth:
        raise Shape('unbalanced braces in %s' % name)
    return src[m.end():i - 1]


def braces_block(text, start):
    """text[start] == '{' -> (inner text, index after the closing brace)"""
    depth = 0
    for i in range(start, len(text)):
        if text[i] == '{':
            depth += 1
        elif text[i] == '}':
            depth -= 1
            if depth == 0:
                return text[start + 1:i], i + 1
    raise Shape('unbalanced braces')


BODY_RE = re.compile(
    r'^\{\s*(\w+)\s*\*\s*blob\s*=\s*\(\s*(\w+)\s*\*\s*\)\s*&\s*rinfo\s*->\s*typelib\s*->\s*data\s*'
    r'\[\s*rinfo\s*->\s*offset\s*\]\s*;\s*return\s+blob\s*->\s*(\w+)\s*;\s*\}\s*(?:break\s*;)?\s*$', re.S)


def parse(src):
    body = function_body(strip_comments(src), 'g_base_info_is_deprecated')
    m = re.search(r'switch\s*\(\s*rinfo\s*->\s*type\s*\)\s*\{', body)
    if not m:
        raise Shape('switch (rinfo->type) not found in g_base_info_is_deprecated')
    before = body[:m.start()]
    if not re.match(r'^\s*GIRealInfo\s*\*\s*rinfo\s*=\s*\(\s*GIRealInfo\s*\*\s*\)\s*info\s*;\s*$', before, re.S):
        raise Shape('unexpected statements before the switch: %r' % ' '.join(before.split()))
    inner, end = braces_block(body, m.end() - 1)
    after = ' '.join(body[end:].split())
    if after != 'return FALSE;':
        raise Shape('unexpected statements after the switch: %r' % after)
    labels = list(re.finditer(r'\bcase\s+(\w+)\s*:|\bdefault\s*:', inner))
    if not labels or inner[:labels[0].start()].strip():
        raise Shape('statements before the first case label')
    groups = []
    pending = []
    for k, lm in enumerate(labels):
        pending.append(lm.group(1) or 'default')
        seg = inner[lm.end():labels[k + 1].start() if k + 1 < len(labels) else len(inner)]
        flat = ' '.join(seg.split())
        if not flat:
            continue                      # falls through to the next label
        bm = BODY_RE.match(flat)
        if bm:
            if bm.group(1) != bm.group(2):
                raise Shape('blob declared as %s but cast to %s' % (bm.group(1), bm.group(2)))
            groups.append((pending, bm.group(2), bm.group(3)))
        elif re.match(r'^(;\s*)*(break\s*;)?\s*$', flat):
            groups.append((pending, '', ''))          # leaves the switch: return FALSE
        else:
            raise Shape('unknown body for %s: %r' % ('/'.join(pending), flat))
        pending = []
    if pending:
        groups.append((pending, '', ''))
    seen = [l for g in groups for l in g[0]]
    if len(seen) != len(set(seen)):
        raise Shape('duplicate case label')
    return groups


def parse_struct_guard():
    """-> the GI_INFO_TYPE_* names GI_IS_STRUCT_INFO admits"""
    with open(os.path.join(REPO, 'girepository', 'gistructinfo.h'), encoding='utf-8') as f:
        hdr = strip_comments(f.read()).replace('\\\n', ' ')
    m = re.search(r'#\s*define\s+GI_IS_STRUCT_INFO\s*\(\s*info\s*\)\s+(.*)', hdr)
    if not m:
        raise Shape('gistructinfo.h: GI_IS_STRUCT_INFO not found')
    body = ''.join(m.group(1).split())
    while body.startswith('(') and body.endswith(')') and _balanced(body[1:-1]):
        body = body[1:-1]
    kinds = []
    for term in body.split('||'):
        while term.startswith('(') and term.endswith(')') and _balanced(term[1:-1]):
            term = term[1:-1]
        tm = re.match(r'^g_base_info_get_type\(\(GIBaseInfo\*\)info\)==(GI_INFO_TYPE_\w+)$', term)
        if not tm:
            raise Shape('gistructinfo.h: unknown term in GI_IS_STRUCT_INFO: %r' % term)
        kinds.append(tm.group(1))
    with open(os.path.join(REPO, 'girepository', 'gistructinfo.c'), encoding='utf-8') as f:
        csrc = strip_comments(f.read())
    for fn, member in (('g_struct_info_get_copy_function', 'copy_func'), ('g_struct_info_get_free_function', 'free_func')):
        flat = ''.join(function_body(csrc, fn).split())
        want = ('GIRealInfo*rinfo=(GIRealInfo*)info;StructBlob*blob;g_return_val_if_fail(info!=NULL,NULL);'
                'g_return_val_if_fail(GI_IS_STRUCT_INFO(info),NULL);blob=(StructBlob*)&rinfo->typelib->data[rinfo->offset];'
                'if(blob->%s)returng_typelib_get_string(rinfo->typelib,blob->%s);returnNULL;' % (member, member))
        if flat != want:
            raise Shape('gistructinfo.c: %s no longer has the shape the model was written for: %s' % (fn, flat))
    return kinds


def _balanced(s):
    d = 0
    for ch in s:
        if ch == '(':
            d += 1
        elif ch == ')':
            d -= 1
            if d < 0:
                return False
    return d == 0


def main():
    with open(SOURCE, encoding='utf-8') as f:
        src = f.read()
    try:
        groups = parse(src)
    except Shape as e:
        print('gen_info_switch: girepository/gibaseinfo.c g_base_info_is_deprecated: %s' % e)
        return 1
    try:
        struct_kinds = parse_struct_guard()
    except Shape as e:
        print('gen_info_switch: %s' % e)
        return 1
    rows = ['(%s, %s, %s)' % (lean_list([lean_str(l) for l in labels]), lean_str(blob), lean_str(member))
            for labels, blob, member in groups]
    text = '''/- GENERATED by translators/gen_info_switch.py from girepository/gibaseinfo.c — do not edit. -/
namespace GIVerif.Gen

/-- the `switch (rinfo->type)` of g_base_info_is_deprecated, in source order: the case labels that share
    a body ("default" for the default label), and the blob struct and member the body returns
    (`return ((Blob *) &typelib->data[offset])->member`); an empty blob name means the group only leaves
    the switch and the function ends in `return FALSE`. -/
def deprecatedSwitch : List (List String × String × String) :=
  %s

/-- the GIInfoTypes GI_IS_STRUCT_INFO (gistructinfo.h) admits; g_struct_info_get_copy_function and
    g_struct_info_get_free_function (gistructinfo.c) return NULL for any other info, and
    `blob->x ? g_typelib_get_string (typelib, blob->x) : NULL` for these. -/
def isStructInfoKinds : List String := %s

end GIVerif.Gen
''' % ('[' + ',\n   '.join(rows) + ']', lean_list([lean_str(k) for k in struct_kinds]))
    path, digest, changed = write_if_changed('InfoSwitch.lean', text)
    print('gen_info_switch: %s sha256=%s changed=%s groups=%d labels=%d struct_kinds=%s' % (
        path, digest[:12], changed, len(groups), sum(len(g[0]) for g in groups), '/'.join(struct_kinds)))
    return 0


if __name__ == '__main__':
    sys.exit(main())
