#!/usr/bin/env python3
"""Gen/IdentAnn.lean: everything table-shaped that the C03 model depends on, re-read from
/repo's current tree on every run.

 * annotationparser.py (imported): the identifier-level ANN_* / TAG_* spellings.
 * maintransformer.py (Python `ast`): for every function that looks a comment block up,
   the expressions handed to `self._blocks.get(...)` / `self._blocks.pop(...)`, and the
   '%'-format strings used to build block keys ('%s:%s', '%s::%s', '%s.%s', 'SECTION:%s').
 * girwriter.py (Python `ast`): per writer function the attribute-name literals it can append
   and which of the shared helpers (_append_version, _append_node_generic, _write_generic) it calls;
   for the identifier-level attributes also the value expression and the guard under which each
   is appended (`if x:` vs `if x is not None:` is the difference between dropping and writing '').
 * maintransformer.py: the control skeleton (statements without docstring and without
   message.* diagnostics) of the functions the model mirrors statement by statement:
   _apply_annotation_rename_to, _pair_property_accessors, _pass_read_annotations2 ((virtual) path),
   _get_vfunc_block and _pair_class_virtuals.

The model builds its keys with the generated format strings and spells annotations with the
generated names; `C03_tables` (a `decide` theorem) pins the shapes the model was written for.
"""
import ast as pyast
import os
import sys

from common import write_if_changed, lean_list, lean_str, REPO, install_stub_lexer

ANN_NAMES = ['ANN_ATTRIBUTES', 'ANN_SKIP', 'ANN_FOREIGN', 'ANN_CONSTRUCTOR', 'ANN_METHOD', 'ANN_SET_PROPERTY',
             'ANN_GET_PROPERTY', 'ANN_FINISH_FUNC', 'ANN_SYNC_FUNC', 'ANN_ASYNC_FUNC', 'ANN_SETTER', 'ANN_GETTER',
             'ANN_DEFAULT_VALUE', 'ANN_EMITTER', 'ANN_VALUE', 'ANN_RENAME_TO', 'ANN_VFUNC', 'ANN_UNREF_FUNC',
             'ANN_REF_FUNC', 'ANN_SET_VALUE_FUNC', 'ANN_GET_VALUE_FUNC', 'ANN_COPY_FUNC', 'ANN_FREE_FUNC']
TAG_NAMES = ['TAG_SINCE', 'TAG_DEPRECATED', 'TAG_STABILITY']

LOOKUP_FUNCS = ['_apply_annotations_function', '_pass_read_annotations_early', '_get_block', '_pass_read_annotations',
                '_apply_annotations_field', '_apply_annotations_property', '_apply_annotations_signal',
                '_apply_annotations_enum_members', '_pass_read_annotations2', '_pair_class_virtuals',
                '_apply_annotations_constant', '_apply_annotations_alias']

WRITER_FUNCS = ['_append_version', '_append_node_generic', '_write_generic', '_write_alias', '_write_callable',
                '_write_function_common', '_write_enum', '_write_bitfield', '_write_member', '_write_constant',
                '_write_class', '_write_property', '_write_vfunc', '_write_callback', '_write_record',
                '_write_union', '_write_field', '_write_signal']
HELPERS = ['_append_version', '_append_node_generic', '_write_generic', '_write_callable', '_append_registered',
           '_append_throws']


def camel(name):
    parts = name.lower().split('_')
    return parts[0] + ''.join(p.capitalize() for p in parts[1:])


def chars(s):
    """a Lean `List Char` literal (kept as characters so that kernel reduction never has to
    unpack a string literal)"""
    return '[' + ', '.join(char_lit(c) for c in s) + ']'


def char_lit(c):
    if c == "'":
        return "'\\''"
    if c == '\\':
        return "'\\\\'"
    o = ord(c)
    if o < 0x20 or o > 0x7e:
        return "'\\u{%x}'" % o
    return "'%s'" % c


def methods_of(path, clsname):
    with open(path, encoding='utf-8') as f:
        tree = pyast.parse(f.read())
    out = {}
    for node in tree.body:
        if isinstance(node, pyast.ClassDef) and node.name == clsname:
            for fn in node.body:
                if isinstance(fn, pyast.FunctionDef):
                    out[fn.name] = fn
    return out


def block_lookups(fn):
    """arguments of self._blocks.get(X) / .pop(X, ...) in source order, unparsed; format strings
    assigned to a local first are substituted so that the key shape is visible"""
    assigned = {}
    for node in pyast.walk(fn):
        if isinstance(node, pyast.Assign) and len(node.targets) == 1 and isinstance(node.targets[0], pyast.Name):
            assigned[node.targets[0].id] = node.value
    found = []
    for node in pyast.walk(fn):
        if (isinstance(node, pyast.Call) and isinstance(node.func, pyast.Attribute)
                and node.func.attr in ('get', 'pop')
                and isinstance(node.func.value, pyast.Attribute) and node.func.value.attr == '_blocks'):
            arg = node.args[0]
            if isinstance(arg, pyast.Name) and arg.id in assigned and isinstance(assigned[arg.id], pyast.BinOp):
                arg = assigned[arg.id]
            found.append((node.lineno, node.col_offset, node.func.attr + ':' + pyast.unparse(arg)))
    return [t for _l, _c, t in sorted(found)]


def key_formats(fn):
    found = []
    for node in pyast.walk(fn):
        if (isinstance(node, pyast.BinOp) and isinstance(node.op, pyast.Mod)
                and isinstance(node.left, pyast.Constant) and isinstance(node.left.value, str)):
            # only the formats that reach a block lookup: they contain no blank
            if ' ' not in node.left.value:
                found.append((node.lineno, node.col_offset, node.left.value))
    return [t for _l, _c, t in sorted(found)]


def writer_literals(fn):
    """attribute-name literals of ('name', value) tuples and tag names of write_tag/tagcontext calls"""
    attrs, tags, calls = [], [], []
    for node in pyast.walk(fn):
        if isinstance(node, pyast.Tuple) and len(node.elts) == 2 and isinstance(node.elts[0], pyast.Constant) \
                and isinstance(node.elts[0].value, str):
            attrs.append((node.lineno, node.col_offset, node.elts[0].value))
        if isinstance(node, pyast.Call) and isinstance(node.func, pyast.Attribute):
            if node.func.attr in ('write_tag', 'tagcontext') and node.args and isinstance(node.args[0], pyast.Constant):
                tags.append((node.lineno, node.col_offset, node.args[0].value))
            if node.func.attr in HELPERS:
                calls.append((node.lineno, node.col_offset, node.func.attr))
    srt = lambda l: [t for _l, _c, t in sorted(l)]  # noqa
    return srt(attrs), srt(tags), srt(calls)


IDENT_ATTRS = ['introspectable', 'version', 'deprecated', 'deprecated-version', 'stability', 'shadows', 'shadowed-by',
               'glib:set-property', 'glib:get-property', 'glib:finish-func', 'glib:sync-func', 'glib:async-func',
               'setter', 'getter', 'default-value', 'emitter', 'glib:ref-func', 'glib:unref-func',
               'glib:set-value-func', 'glib:get-value-func', 'copy-function', 'free-function', 'foreign', 'invoker']

SKELETON_FUNCS = ['_apply_annotation_rename_to', '_pair_property_accessors', '_pass_read_annotations2',
                  '_get_vfunc_block', '_pair_class_virtuals']


def writer_conditions(fn):
    """'attr=<value expression> if <guard>' for every identifier-level ('attr', value) appended under
    a chain of if/elif tests, in source order"""
    out = []

    def visit(stmts, guard):
        for st in stmts:
            if isinstance(st, pyast.If):
                t = pyast.unparse(st.test)
                visit(st.body, guard + [t])
                visit(st.orelse, guard + ['not (%s)' % t])
            elif isinstance(st, (pyast.With, pyast.For, pyast.While, pyast.Try)):
                visit(st.body, guard + ['<%s>' % type(st).__name__])
            else:
                for node in pyast.walk(st):
                    if (isinstance(node, pyast.Call) and isinstance(node.func, pyast.Attribute)
                            and node.func.attr == 'append' and node.args and isinstance(node.args[0], pyast.Tuple)
                            and len(node.args[0].elts) == 2 and isinstance(node.args[0].elts[0], pyast.Constant)
                            and node.args[0].elts[0].value in IDENT_ATTRS):
                        out.append('%s=%s if %s' % (node.args[0].elts[0].value, pyast.unparse(node.args[0].elts[1]),
                                                    ' and '.join(guard) or 'True'))
    visit(fn.body, [])
    return out


class _DropDiagnostics(pyast.NodeTransformer):
    """remove docstrings, `message.*(...)` statements and assignments to locals that are never read
    (they only feed diagnostics); an `if` left without any statement disappears, an emptied branch of
    an if/elif/else chain becomes `pass`"""

    def __init__(self, dead):
        self.dead = dead

    def _is_diag(self, st):
        if isinstance(st, pyast.Expr):
            v = st.value
            if isinstance(v, pyast.Constant) and isinstance(v.value, str):
                return True
            if (isinstance(v, pyast.Call) and isinstance(v.func, pyast.Attribute)
                    and isinstance(v.func.value, pyast.Name) and v.func.value.id == 'message'):
                return True
        if isinstance(st, pyast.Assign) and all(isinstance(t, pyast.Name) and t.id in self.dead for t in st.targets):
            return True
        if isinstance(st, pyast.If) and not st.body and not st.orelse:
            return True
        return False

    def generic_visit(self, node):
        node = super().generic_visit(node)
        for field in ('body', 'orelse', 'finalbody'):
            l = getattr(node, field, None)
            if isinstance(l, list) and l and all(isinstance(x, pyast.stmt) for x in l):
                kept = [x for x in l if not self._is_diag(x)]
                if not kept and field == 'body' and not (isinstance(node, pyast.If) and not node.orelse):
                    kept = [pyast.Pass()]
                setattr(node, field, kept)
        if isinstance(node, pyast.If) and not node.body and node.orelse:
            node.body = [pyast.Pass()]
        return node


def skeleton(fn):
    import copy
    tree = copy.deepcopy(fn)
    dead = set()
    for _ in range(5):
        tree = _DropDiagnostics(dead).visit(tree)
        loaded = {n.id for n in pyast.walk(tree) if isinstance(n, pyast.Name) and isinstance(n.ctx, pyast.Load)}
        stored = {n.id for n in pyast.walk(tree) if isinstance(n, pyast.Name) and isinstance(n.ctx, pyast.Store)}
        new_dead = (stored - loaded) | dead
        if new_dead == dead:
            break
        dead = new_dead
    pyast.fix_missing_locations(tree)
    text = pyast.unparse(tree)
    return text.split('\n')[1:]       # without the `def` line (parameter names are not the model's business)


def main():
    install_stub_lexer()
    sys.path.insert(0, REPO)
    from giscanner import annotationparser as ap
    mt = methods_of(os.path.join(REPO, 'giscanner', 'maintransformer.py'), 'MainTransformer')
    gw = methods_of(os.path.join(REPO, 'giscanner', 'girwriter.py'), 'GIRWriter')

    lines = ['-- GENERATED by translators/gen_identann.py from giscanner/annotationparser.py, maintransformer.py, '
             'girwriter.py. Do not edit.',
             'namespace GIVerif.Gen.IdentAnn', '']
    for n in ANN_NAMES + TAG_NAMES:
        lines.append('def %s : List Char := %s' % (camel(n), chars(getattr(ap, n))))
    lines.append('')
    lines.append('/-- every identifier-level annotation valid on a comment block identifier -/')
    lines.append('def validBlockAnnotations : List String := %s'
                 % lean_list([lean_str(a) for a in sorted(ap.GtkDocCommentBlock.valid_annotations)]))
    lines.append('')
    lookups = []
    formats = []
    for name in LOOKUP_FUNCS:
        fn = mt.get(name)
        lookups.append((name, block_lookups(fn) if fn is not None else ['<missing>']))
        formats.append((name, key_formats(fn) if fn is not None else ['<missing>']))
    lines.append('/-- per function of MainTransformer: what is handed to self._blocks.get / pop, in source order -/')
    lines.append('def blockLookups : List (String × List String) := [\n  %s]'
                 % ',\n  '.join('(%s, %s)' % (lean_str(n), lean_list([lean_str(x) for x in l])) for n, l in lookups))
    lines.append('')
    lines.append('/-- per function: the blank-free %-format strings (block keys) -/')
    lines.append('def keyFormats : List (String × List String) := [\n  %s]'
                 % ',\n  '.join('(%s, %s)' % (lean_str(n), lean_list([lean_str(x) for x in l])) for n, l in formats))
    lines.append('')

    def single(fname, want_prefix=None):
        l = dict(formats).get(fname, [])
        if want_prefix is not None:
            l = [x for x in l if x.startswith(want_prefix)]
        return l[0] if len(l) >= 1 else '<missing>'
    lines.append('def keyFmtProperty : List Char := %s' % chars(single('_apply_annotations_property')))
    lines.append('def keyFmtSignal : List Char := %s' % chars(single('_apply_annotations_signal')))
    lines.append('def keyFmtField : List Char := %s' % chars(single('_apply_annotations_field')))
    lines.append('def keyFmtVfunc : List Char := %s' % chars(single('_pair_class_virtuals')))
    lines.append('def keyFmtSection : List Char := %s' % chars(single('_pass_read_annotations', 'SECTION')))
    lines.append('')
    wl = []
    for name in WRITER_FUNCS:
        fn = gw.get(name)
        if fn is None:
            wl.append((name, ['<missing>'], [], []))
        else:
            a, t, c = writer_literals(fn)
            wl.append((name, a, t, c))
    lines.append('/-- per writer function: attribute-name literals it may append, in source order -/')
    lines.append('def writerAttrs : List (String × List String) := [\n  %s]'
                 % ',\n  '.join('(%s, %s)' % (lean_str(n), lean_list([lean_str(x) for x in a])) for n, a, _t, _c in wl))
    lines.append('')
    lines.append('/-- per writer function: element names written and shared helpers called, in source order -/')
    lines.append('def writerTags : List (String × List String) := [\n  %s]'
                 % ',\n  '.join('(%s, %s)' % (lean_str(n), lean_list([lean_str(x) for x in t])) for n, _a, t, _c in wl))
    lines.append('def writerCalls : List (String × List String) := [\n  %s]'
                 % ',\n  '.join('(%s, %s)' % (lean_str(n), lean_list([lean_str(x) for x in c])) for n, _a, _t, c in wl))
    lines.append('')
    lines.append('/-- per writer function: identifier-level attribute, value expression and guard, in source order -/')
    lines.append('def writerConds : List (String × List String) := [\n  %s]'
                 % ',\n  '.join('(%s, %s)' % (lean_str(n), lean_list([lean_str(x) for x in
                                                                   (writer_conditions(gw[n]) if n in gw else ['<missing>'])]))
                                for n in WRITER_FUNCS))
    lines.append('')
    lines.append('/-- control skeleton (no docstring, no diagnostics) of the functions mirrored statement by statement -/')
    lines.append('def skeletons : List (String × List String) := [\n  %s]'
                 % ',\n  '.join('(%s, [\n    %s])' % (lean_str(n), ',\n    '.join(
                     lean_str(x) for x in (skeleton(mt[n]) if n in mt else ['<missing>']))) for n in SKELETON_FUNCS))
    lines.append('')
    lines.append('end GIVerif.Gen.IdentAnn')
    text = '\n'.join(lines) + '\n'
    path, digest, changed = write_if_changed('IdentAnn.lean', text)
    print('gen_identann: %s sha256=%s changed=%s lookups=%d writers=%d' % (path, digest[:12], changed, len(lookups),
                                                                         len(wl)))


if __name__ == '__main__':
    main()
